#!/venv/bin/python
"""tools/keep_mutant.py <Cxx> <a|b> <seeded-id> '<needs>' '<detected_by comma list or none>' '<notes>'"""
import json, os, shutil, sys
P, V, sid, needs, det, notes = sys.argv[1:7]
src = os.environ.get("MUT_ROOT", "/tmp/mut_out") + "/%s/%s" % (P, V)
dst = "/verif/seeded/%s" % sid
os.makedirs(dst, exist_ok=True)
for f in ("patch.diff", "demo.py", "notes.md"):
    shutil.copy(os.path.join(src, f), os.path.join(dst, f))
meta = {
    "id": sid, "breaks_property": P, "source": "independent sub-agent given only the property text and a scratch worktree",
    "needs_to_manifest": needs,
    "confirmed": "scratch worktree of /repo HEAD: demo.py exits 0 without and 1 with the patch; full test-suite (154 tests) passes with the patch (tools/eval_mutant.sh)",
    "detected_by": [d for d in det.split(",") if d and d != "none"],
    "notes": notes,
}
json.dump(meta, open(os.path.join(dst, "meta.json"), "w"), indent=1)
print("kept", dst)
