#!/bin/sh
# DESIGN.md = design/part1.md + generated Appendix D + design/part2_round0.md
cd /verif
{ cat design/part1.md; echo "## Appendix D — seeded changes and the checks that detect them"; echo; tools/seeded_table.py; echo; echo "============================================================================================="; echo; echo "# Part II — the design as written before the framework existed (round 0)"; echo; echo "Kept for its per-property reasoning, prototype listings and appendices. Its status lines (\"planned\")"; echo "and its list of defects (\"§6\") are superseded by Part I."; echo; tail -n +2 design/part2_round0.md; } > DESIGN.md
