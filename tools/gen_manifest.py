#!/venv/bin/python
"""Regenerates MANIFEST.json from the table below (kept valid at all times)."""
import json, os
HERE = os.path.dirname(os.path.dirname(os.path.abspath(__file__)))
props = [json.loads(l) for l in open(os.path.join(HERE, "properties.jsonl"))]

TRUSTED = "Trusted base: TLC 1.8, the TLA+ value parser (harness/vcore/tlaval.py), torch's built-in operators and autograd, and twins (uncached / float64 / state-dict copies) built from the same working tree."

CHECKS = {
 "C10": dict(
   technique="TLA+ state machine (spec/LinearCache.tla) model-checked by TLC; every edge of the permissive design's state graph replayed on the real classes against an uncached twin; recorded histories validated by TLC (TraceLinearCache.tla); histories of Linear objects recorded while the repository's own test-suite runs are validated by the same trace specification; the failing history TLC derives for each broken design (eight design switches) is replayed on every real class",
   text="TLC exhausts the abstract cache life-cycle (parameter versions abstracted to current/stale, so all history lengths are covered) for the three class shapes and proves transparency of the repaired design; it also derives the failing histories of designs without invalidation. Every transition of the permissive state graph is then executed on LULinear, QRLinear, SVDLinear, NaiveLinear and OneByOneConvolution and compared with a freshly built uncached twin (outputs, log-dets, input gradients); all recorded histories are accepted by the trace specification.",
   design_ref="DESIGN.md section 4, C10",
   note="Abstraction of parameter values to versions; oracle is the uncached twin of the same tree. " + TRUSTED),

 "C13": dict(
   technique="TLA+ session specification (spec/Session.tla) model-checked by TLC; every zoo model driven along edge-covering walks of its state graph; every recorded step judged by TLC trace validation (TraceSession.tla); the repository's own test-suite is a second driver (recorded by a pytest plugin, judged by the same trace specification); TLA+ specification of the conditioner networks as stage programs (spec/Nets.tla) model-checked by TLC, every finished pass replayed on the real ResidualNet / ConvResidualNet / MLP with the stage list interpreted over the real parameters",
   text="Session.tla states which state-dict categories each public call may write in which mode and when a repeated call must reproduce its result; TLC checks it over all model kinds. ~75 model configurations (every transform, distribution and flow class) are driven along walks covering every edge of that graph with plain, view, non-contiguous and requires-grad inputs, and TLC decides a verdict for each recorded step (argument modified / state written in eval / undocumented write / repeat differs).",
   design_ref="DESIGN.md section 4, C13",
   note="Side effects are observed via torch.equal, tensor version counters and the state dict; inputs are fixed per session. " + TRUSTED),
 "C14": dict(
   technique="TLA+ life-cycle specifications (spec/ActNormLife.tla, spec/BatchNormLife.tla with exact rational running statistics) model-checked by TLC; lock-step replay of every edge on the real layers; checkpoints saved from and loaded back into the live layer (Save / LoadSaved) are actions of the ActNorm specification; flow-level histories with individually frozen batch-norm positions",
   text="TLC exhausts the ActNorm initialisation life-cycle and the BatchNorm momentum recurrence (exact rationals, bounded number of updates) and proves init-exactly-once, eval/inverse never initialise, reload keeps state, momentum rule, eval uses running statistics, inverse only in eval. Every edge of both graphs is then executed on the real layers and the state dict, outputs, log-dets and exceptions are compared with the specification state after every step.",
   design_ref="DESIGN.md section 4, C14",
   note="Reference model = documented behaviour (the property's own quantifier); variance kind not fixed. " + TRUSTED),
 "C15": dict(
   technique="TLA+ session specification (spec/Session.tla) with SaveLoadFresh action; TLC-generated histories replayed on every zoo model, reload into a model built under another seed, steps judged by TLC trace validation; TLA+ specification of checkpoint protocols (spec/Reload.tla) model-checked by TLC with two design switches, every protocol TLC enumerates executed on the zoo models",
   text="Histories before saving (fresh, optimiser steps, data-dependent initialisation, batch-norm passes) are paths of the Session state graph; at every SaveLoadFresh a fresh model of the same configuration is built under a different seed, loaded, and compared bit for bit (forward, inverse, log_prob, transform_to_noise, fixed-seed sample). TLC judges the recorded traces.",
   design_ref="DESIGN.md section 4, C15",
   note="Function equality is sampled on probe inputs (bit-identical); configurations are those of the zoo. " + TRUSTED),

 "C06": dict(
   technique="TLA+ specification of MADE construction (spec/Made.tla) exhaustively model-checked by TLC over all architectures and random degree draws; final states rebuilt as real networks with injected draws; real-generator networks validated by TLC (TraceMade.tla); every network the repository's test-suite constructs is validated by TraceMade.tla; spec/Assembly.tla (construction loop of MaskedAutoregressiveFlow) replayed on the real constructor",
   text="The network's dependency relation is the boolean product of the masks, so TLC's exhaustive run over every architecture up to the bound and every draw torch.randint can make decides autoregressiveness for ALL weight values. Final states are rebuilt as real networks (both copies and the mixture subclass, draws injected through torch.randint) and degrees, masks and the measured dependency pattern are compared; generic weights / ReLU / batch-norm / dropout are checked by autograd Jacobians; networks drawn with the real generator are accepted step by step by the trace specification.",
   design_ref="DESIGN.md section 4, C06",
   note="Bounded architecture sizes; exact dependency measured with all-ones weights. " + TRUSTED),

 "C07": dict(
   technique="TLA+ specification of the coupling index book-keeping (spec/Coupling.tla) exhaustively model-checked by TLC over all masks; every enumerated state replayed on the seven real coupling classes (bit-level identity check, Jacobian pattern vs the specification's dependency relation, round trip); mask values are rationals (units of 1/2), box-bounded elementwise transforms with the outside-the-box outcome; spec/Assembly.tla (construction loop of SimpleRealNVP) replayed on the real constructor; TLA+ specification of the conditioner networks (spec/Nets.tla) model-checked by TLC and replayed on the real networks (a conditioner that mixes rows in evaluation mode)",
   text="TLC enumerates every mask with values in {-1,0,1,2} (both sides non-empty) x 2-D/image layout x unconditional transform x direction and proves the split / conditioner-input / write-back properties. Each state is replayed on the real classes with a conditioner that mixes all identity elements, so the measured Jacobian pattern must equal the specification's relation; identity features are compared bit for bit on inputs containing -0.0; library conditioners are checked for the subset relation.",
   design_ref="DESIGN.md section 4, C07",
   note="Feature counts 2..4 (5 thorough), images of 1x2 pixels; dependency measured by autograd (perturbation for UMNN). " + TRUSTED),

 "C08": dict(
   technique="TLA+ specifications of wrapper composition (spec/Compose.tla: denotation of every nesting; spec/Multiscale.tla over Tensor.tla views: shape book-keeping and coordinate routing) model-checked by TLC; every enumerated program / configuration replayed on the real wrappers; nesting depth 3 over two atoms with every nesting skeleton replayed; every program called repeatedly on the same object; CompositeCDFTransform replayed as the program Comp[A_s,A_c,Inv(A_s)] over a shared atom",
   text="TLC enumerates every nesting of Composite / Inverse up to depth 2 (atoms may repeat) and proves the algebraic laws of the denotation, and every multiscale configuration (rank <= 3, every split dimension, 1-3 stages, odd and even sizes) proving routing bijectivity, stage prefixes and that the inverse undoes the routing. Each state is replayed: real programs against hand-chained shared atoms (outputs and log-det sums, float64 1e-10), real multiscale transforms with prime-scaled affine stage tags against the exact value the specification's routing predicts for every coordinate, the log-det sum, the round trip and the inverse of an arbitrary flat vector.",
   design_ref="DESIGN.md section 4, C08",
   note="Bounded nesting depth / shape sizes. " + TRUSTED),

 "C18": dict(
   technique="TLA+ transcription of the Distribution / Flow interface over tensor views (spec/DistApi.tla, Tensor.tla) model-checked by TLC over all argument tokens; every enumerated call executed on the real classes (shape / exception class / context row behind every draw)",
   text="TLC enumerates sample / log_prob / sample_and_log_prob calls over count tokens (-1..5, float, str, None), batch sizes dividing or not, 0..3 context rows, and proves the shape, placement, error and pairing contracts for the repaired design (and derives the shape violation of the pinned design that concatenated batches on dim 0). Every call is executed on 13 real distributions and flows; outcome class and shape must be the specification's, and context-marker models must show every draw under the context row the specification's provenance map names.",
   design_ref="DESIGN.md section 4, C18",
   note="Bool counts are ints for Python and outside the token set; distributional equality of batched generation is reduced to per-draw provenance. " + TRUSTED),
 "C04": dict(
   technique="TLA+ pairing / placement properties of spec/DistApi.tla model-checked by TLC; every enumerated sampling call executed on real flows with the harness pairing draw (i,j) with context row i itself; context markers and a harness-controlled random stream (push-forward identity); each call preceded by the life-cycle words fresh / checkpoint loaded / sampled-trained-evaluated-again of spec/Session.tla",
   text="RowPairing / RowPlacement are proved on the specification for all draw counts and context rows. On 13 real flows and distributions (with / without embedding network, conditional bases, unconditional coupling transforms) the log-prob returned by sample_and_log_prob must equal log_prob of the returned sample under context row i, markers reveal the row behind each draw, and with torch.randn replaced by a known stream the sample must equal T^-1(mean_i + std_i z).",
   design_ref="DESIGN.md section 4, C04",
   note="The statistical clause (empirical distribution converges) is not decided by this technique; it is replaced by the push-forward identity under a controlled generator plus C03/C05; torch's generators are trusted. " + TRUSTED),

 "C20": dict(
   technique="TLA+ algebraic specification of the utils helpers over tensor provenance views (spec/Utils.tla, Tensor.tla) model-checked by TLC over all small shapes / arguments; every enumerated call executed on the real helpers with index-tagged tensors, arguments snapshotted",
   text="TLC enumerates 742 (quick) helper calls - tile, repeat_rows, merge/split leading dims, sum_except_batch for every num_batch_dims, searchsorted on four location vectors x 21 inputs, cbrt on cubes of both signs and 0, logabsdet on 256 integer matrices (all signs, singular), mask constructors for 1..7 features, type-check predicates on int/bool/float/str/None tokens - and proves the algebraic laws. The same calls run on the real helpers with arange / power-of-two tagged tensors so that placement and summation sets are compared exactly, in float32 and float64, with arguments compared before / after.",
   design_ref="DESIGN.md section 4, C20",
   note="Shapes of <= 3 dims with sizes <= 3 (4 thorough); gaussian_kde_log_eval is covered under C05. " + TRUSTED),

 "C09": dict(
   technique="Exact rational TLA+ transcription of the four spline families (spec/Spline.tla over Rat.tla) model-checked by TLC on a parameter x input lattice; every lattice case executed on the real spline functions with floating-point neighbours of all knots in float32 / float64",
   text="The four piecewise transformers are rational functions of their normalised parameters, so the specification is exact: TLC proves strict monotonicity, continuity across knots and at the tail bound, pinned end points, range within the box, identity tails and positive derivatives on every lattice case (bins 1..3, degenerate and non-uniform parameters, different width / height floors, unit / asymmetric / tail boxes incl. 64). Each case is executed on the real functions (parameters fed as pre-images) on the lattice points and their 1-ulp neighbours: monotone up to rounding noise, strictly increasing between lattice points, inside the box, end points pinned, tails bit-identical with zero log-det; values are compared with the exact model (agreement 1e-9 on the pinned tree).",
   design_ref="DESIGN.md section 4, C09",
   note="Lattice parameters and inputs only (measure-zero set the random tests never visit); bins <= 3. " + TRUSTED),
 "C17": dict(
   technique="TLA+ specifications of the bin search / domain checks (spec/Spline.tla incl. the float absorption fact) and of the scalar domains (spec/Scalar.tla) model-checked by TLC; every state executed on the real code in float32 / float64 with 1-ulp neighbours, denormals, large and non-representable bounds; the unit-box splines as built by the coupling and autoregressive layers probed at transformed positions in both modes, with and without autograd",
   text="TLC proves InDomainAccepted / OutOfDomainRejected on the exact bin search (and derives the out-of-range bin index of an unclamped search for bounds >= 32 in float32) and on the open / closed domains of the Exp, Tanh, Sigmoid, Logit and CauchyCDF inverses with the probed element anywhere in a batch. Every state runs on the real code: outcome must be finite values or InputOutsideDomain exactly as specified; both spline directions, end points, outside points, tail bounds 31, 32, 1e3, 1e4 and float32-unrepresentable bounds (0.7, 3.3, 17.3, 1000.1).",
   design_ref="DESIGN.md section 4, C17",
   note="Outcome classes only (values are C01/C02). " + TRUSTED),

 "C11": dict(
   technique="Exact rational TLA+ model of the LU / QR / SVD / naive / Householder parameterisations (spec/LinAlg.tla over RatLin.tla, Rat.tla) model-checked by TLC; every parameter state loaded into the real classes and all accessors compared with each other and with the exact matrices; accessors compared with the passes again after the failing histories TLC derives from spec/LinearCache.tla for broken cache designs",
   text="TLC proves W W^-1 = I, |det W| = product of the diagonal parameters, orthogonality of Householder products and usability / pairwise cancellation of the initial Householder vectors for feature counts 1..3 and counts up to 7 (9). Each state is loaded into the real class (pre-images of softplus / exp, integer Householder vectors also rescaled by 1e-4 and 1e3): weight(), weight_inverse(), logabsdet(), the two combined accessors, matrix(), forward and inverse must be mutually consistent (self-checking) and equal to the exact model; default and random initialisations for 1..4 features must be finite and invertible.",
   design_ref="DESIGN.md section 4, C11",
   note="Feature counts <= 3 on the lattice (cofactor determinant); float64. " + TRUSTED),

 "C01": dict(
   technique="Exact rational TLA+ models (spec/Spline.tla, LinAlg.tla) and the log-det aggregation model (spec/Xform.tla over Tensor.tla) model-checked by TLC; lattice cases replayed on the real code with the exact derivative as expected value (finite-difference adjudication); supplementary autograd sweep of the zoo",
   text="TLC proves on the exact models that the reported derivative IS the derivative of the reported map (exact secant / Simpson / quotient identities per spline family), that |det W| is the product of the diagonal parameters, and computes the multiplicity of every parameter term in a per-item log-det (h*w per channel, once per pixel, broadcast scale shapes, temperature per element). Replay: spline lattice logabsdet vs log of the exact derivative; linear states (cache off, and on after an inverse-first history) vs exact log|det W|; aggregation states on real layers with prime-valued parameters so the sum identifies each multiplicity; autograd Jacobians of every zoo transform at generic float64 points (supplementary, outside the family).",
   design_ref="DESIGN.md section 4, C01",
   note="Scalar derivatives of transcendental maps are stated facts; the autograd sweep uses torch autograd as oracle and skips UMNN (numerical quadrature); BatchNorm in evaluation mode only. " + TRUSTED),
 "C02": dict(
   technique="Exact rational TLA+ models (Spline.tla: injective on the lattice, inverse specified relationally; LinAlg.tla: W W^-1 = I) model-checked by TLC; exact images of lattice points fed to the real inverses; round trips of LinAlg states and of every zoo transform (perturbed, fresh, exactly-zero parameters); spec/Autoreg.tla (pass-by-pass inverse of autoregressive transforms) replayed with a spy on the conditioner",
   text="The specification gives, for every lattice point x of every parameter set (including degenerate ones: equal weights, equal knot heights, locally linear cubic segments, one bin), the exact image y = F(x); the real inverse on y must return x (error scaled by the exact local derivative), a finite negated log-det, and the round trip must close. LinAlg states are replayed on the real classes with Householder vectors of different and rescaled norms. Every invertible zoo transform is round-tripped in both orders in float64 with perturbed, freshly constructed and exactly-zero parameters.",
   design_ref="DESIGN.md section 4, C02",
   note="Tolerances are the implementation's declared constants on the paths that use them; off-lattice floating-point cancellation is only sampled by the zoo sweep. " + TRUSTED),

 "C19": dict(
   technique="Exact rational lattice of spec/Spline.tla (model-checked by TLC) as the common reference of both precisions; every lattice case and every zoo model evaluated as a float32 model and a float64 twin; the checkpoint protocols of spec/Reload.tla that end in a dtype conversion executed on the zoo models",
   text="Lattice cases (knots, end points, tail junctions - where discriminants vanish) run in float32 and float64 in both directions: no exception, finite, input dtype preserved, float32 within single-precision accuracy (scaled by the exact slope) of float64 and of the exact rational value. Every zoo transform / distribution / flow is evaluated as a float32 model and a float64 twin with the same state dict on generic, x4-scaled, offset and +-15 grid inputs (evaluation mode, both directions) and on offset narrow batches in training mode for batch-statistics layers.",
   design_ref="DESIGN.md section 4, C19",
   note="Off-lattice floating-point cancellation is sampled, not searched; UMNN skipped (float32 internals); ill-conditioned compositions (sigmoid -> CDF -> logit) only at generic points. " + TRUSTED),

 "C12": dict(
   technique="TLA+ specification of batch compositions and of the image reshape / permute pipelines as tensor provenance views (spec/BatchIndep.tla over Tensor.tla) model-checked by TLC; every composition evaluated on every zoo model (freshly built per evaluation) against single-row evaluation; TLA+ specification of the conditioner networks as stage programs (spec/Nets.tla) model-checked by TLC, every finished pass replayed on the real networks (rows coupled in an evaluation pass)",
   text="TLC proves RowLocal for the 1x1-convolution and piecewise-coupling image pipelines for all B,C,H,W up to the bound and enumerates every batch composition (every non-empty subset of a 4-row pool in every order, up to 3 rows, batch size one included). Each composition is evaluated on every zoo transform, distribution and flow in evaluation mode - on a model freshly built and loaded for every evaluation, initialised and pristine - and every row is compared with the same row evaluated alone (forward, inverse, log_prob, transform_to_noise; context rows follow their inputs; rows inside and outside the spline tail bounds are mixed).",
   design_ref="DESIGN.md section 4, C12",
   note="float64 1e-9 (BLAS may reorder); pool of 4 rows. " + TRUSTED),

 "C16": dict(
   technique="TLA+ enumeration of gradient-flow cases (spec/GradFlow.tla: model kind x mode x cache x preceding call x result x leaf; nothing detached by design) model-checked by TLC, plus the cache life-cycle of LinearCache.tla; every case executed on the zoo with central-difference checks of directional derivatives",
   text="TLC enumerates the cases and the statement that every influencing leaf must receive a gradient in training and evaluation mode, cache off or on, whatever inference call came before. Each case runs on the matching zoo models in float64: back-propagation succeeds, gradients are finite, every parameter that influences the result (decided by central differences) receives a gradient, and directional derivatives with respect to inputs, context and each parameter tensor equal central differences (2e-4). C10's replay additionally compares parameter gradients of cached calls with the uncached twin.",
   design_ref="DESIGN.md section 4, C16",
   note="One random direction per leaf; correctness of torch autograd for built-in operators is trusted; UMNN and discrete distributions skipped; kinks avoided except exact zeros for smooth elementwise maps. " + TRUSTED),

 "C05": dict(
   technique="TLA+ specification of the exactly decidable parts of the base distributions (spec/Dist.tla over RatLin / Rat: Bernoulli masses as rational sums, MG1 matrices, mixture weights, Gaussian / KDE normaliser units) model-checked by TLC; every case executed on the real classes with exact summation, the symbolic Gaussian density and Gauss-Legendre quadrature (the method the property prescribes)",
   text="TLC proves that the Bernoulli masses over {0,1}^D sum to one exactly for every lattice probability vector, that the MG1 change of variables is volume preserving, that mixture weights sum to one, and fixes the number of 1/2 log(2 pi) and log-sigma terms per event shape. On the real classes: exact summation and mean for the Bernoulli, the symbolic Gaussian log-density at random points for every event shape (1-D and multi-dimensional; standard, diagonal, conditional with several context rows), quadrature of exp(log_prob) in 1-2 dimensions for Gaussians, the MADE mixture per context row, the kernel-density evaluator, box priors and the 4-D truncated prior; mean() type / shape / value; samplers as deterministic functions of a controlled stream.",
   design_ref="DESIGN.md section 4, C05",
   note="Gaussian normalisation is a stated fact; quadrature tolerances 1e-5 (2e-4 in 4-D); convergence of empirical distributions is not decided by this technique (replaced by controlled-stream sampler identities). " + TRUSTED),

 "C03": dict(
   technique="TLA+ specification of flows as chains of transformer types over intervals (spec/FlowVal.tla) model-checked by TLC: which programs map the data space onto the base support, and log_prob's terms exactly once; every well-formed program built from real transforms and exp(log_prob) integrated by (adaptive) quadrature per context row, as the property prescribes",
   text="TLC enumerates every chain of up to 2 (3) transformer types x base distribution x context, decides onto-ness compositionally on intervals and checks the term structure of log_prob. Each onto program that starts on the real line is built from real library transforms (all four spline families with tails and on [0,1], LU / QR / SVD / naive linear with the cache on, coupling, autoregressive, ActNorm, LogTanh with non-default cut points, ...) in dimension 1 (and a sample in dimension 2) and exp(log_prob) is integrated with x = sinh(t) and adaptive Gauss-Legendre / Gauss-Lobatto panels (kinks and jumps are bisected): it must be 1 +- 3e-5 per context row, also with the weight cache on after an inverse-first history; programs the specification calls not onto must not integrate to one.",
   design_ref="DESIGN.md section 4, C03",
   note="Programs whose tails are too heavy for quadrature to 1e-5 (LogTanh followed by a compressing stage) are outside the property's own quantifier and excluded; per-transformer bijectivity is C09/C17, base normalisation C05. " + TRUSTED),
}
REASONS = {}

m = {
 "version": 1,
 "setup_cmd": "./check setup",
 "hooks": {"guard": "NFLOWS_VERIF", "enable": "No source hooks: the harness wraps public methods of nflows from outside when NFLOWS_VERIF=1 (set by ./check); /repo is imported from its working tree (sys.path), never from a cached copy.",
           "baseline_off_cmd": "cd /repo && env -u NFLOWS_VERIF /venv/bin/python -m pytest -ra -q -p no:cacheprovider --timeout=900 --continue-on-collection-errors",
           "source_commits": [], "add_only": True},
 "engines": [{"name": "tlc-replay", "path": "harness/", "serves_properties": sorted(CHECKS), "kind_free_text": "TLA+ specifications (spec/*.tla) checked by TLC; TLC-generated behaviours replayed into nflows; recorded traces validated by TLC"}],
 "checks": [],
 "notes": "Model-based verification with explicit TLA+ specifications (spec/*.tla) checked by TLC and bound to the code by replaying TLC-generated behaviours into nflows and validating recorded traces. See DESIGN.md. Known findings: known_findings.json.",
 "not_applicable": [],
}
for p in props:
    pid = p["id"]
    if pid in CHECKS:
        c = CHECKS[pid]
        m["checks"].append({
            "property_id": pid,
            "quick_cmd": "./check %s --tier quick" % pid,
            "thorough_cmd": "./check %s --tier thorough" % pid,
            "evidence_file": "evidence/%s.json" % pid,
            "replay_cmd_template": "./check %s --replay {path}" % pid,
            "engine": "tlc-replay",
            "level_claimed": {"category": "model_checking", "text": c["text"], "design_ref": c["design_ref"]},
            "level_note": c["note"],
            "technique": c["technique"],
        })
    else:
        m["not_applicable"].append({"property_id": pid, "reason": REASONS.get(pid, "check not built yet (work in progress; DESIGN.md section 10 gives the build order)")})
json.dump(m, open(os.path.join(HERE, "MANIFEST.json"), "w"), indent=1)
print("checks:", [c["property_id"] for c in m["checks"]])
