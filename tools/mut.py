#!/venv/bin/python
"""dev helper: tools/mut.py <file> <old> <new> -- <ID>...   apply a textual mutation to /repo, run checks, revert."""
import subprocess, sys
args = sys.argv[1:]
i = args.index("--")
file, old, new = args[:i]
ids = args[i + 1:]
p = "/repo/" + file
s = open(p).read()
assert subprocess.run(["git", "-C", "/repo", "diff", "--quiet"]).returncode == 0, "/repo dirty"
assert s.count(old) >= 1, "pattern not found"
open(p, "w").write(s.replace(old, new, 1))
try:
    for id_ in ids:
        r = subprocess.run(["/verif/check", id_], cwd="/verif", capture_output=True, text=True)
        lines = [l[:260] for l in r.stdout.splitlines() if l.startswith(("VIOLATION", "KNOWN", "DRIFT", "MACHINERY", id_ + " "))]
        print("\n".join(lines[:8]))
        print("--- %s exit=%d  (%d VIOLATION lines)" % (id_, r.returncode, sum(l.startswith("VIOLATION") for l in lines)))
finally:
    subprocess.run(["git", "-C", "/repo", "checkout", "--", "."])
