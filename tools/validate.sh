#!/bin/sh
# dev helper: validate MANIFEST.json and evidence files against the schemas
python3-vt - <<'PY'
import json, jsonschema, glob
jsonschema.validate(json.load(open('/verif/MANIFEST.json')), json.load(open('/root/.vp/MANIFEST.schema.json')))
es=json.load(open('/root/.vp/EVIDENCE.schema.json'))
for f in sorted(glob.glob('/verif/evidence/*.json')):
    jsonschema.validate(json.load(open(f)), es)
    print("ok", f)
print("manifest ok")
PY
