#!/bin/sh
# usage: MUT_ROOT=/tmp/mut_out2 tools/eval_round.sh C01 C02 ...   (evaluates a and b of each against its own check)
for P in "$@"; do
  for V in a b; do
    [ -f ${MUT_ROOT}/$P/$V/patch.diff ] || { echo "$P/$V: no patch yet"; continue; }
    extra=""
    case $P in C06) extra="C15";; C09) extra="C17 C02 C01";; esac
    tools/eval_mutant.sh $P $V $P $extra 2>&1 | grep -v Warn | grep -E "demo with|demo without|passed|failed|PATCH DOES|^C[0-9]+ (quick)|=== " | sed "s/^/[$P$V] /" | cut -c1-200
  done
done
