#!/bin/sh
# usage: tools/try_patch.sh <patch.diff> <ID> [ID...]  -- apply patch to /repo, run checks, always revert
P="$1"; shift
cd /repo || exit 2
git diff --quiet || { echo "/repo has uncommitted changes"; exit 2; }
git apply "$P" || { echo "patch does not apply"; exit 2; }
trap 'git -C /repo checkout -- . ' EXIT INT TERM
for id in "$@"; do
  ( cd /verif && ./check "$id" --tier "${TIER:-quick}" 2>&1 | grep -E "^(VIOLATION|KNOWN-FINDING|DRIFT|MACHINERY|C[0-9]+ )" | cut -c1-300 | head -${LINES_MAX:-12} )
  echo "--- $id exit=$?"
done
