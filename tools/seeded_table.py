#!/venv/bin/python
"""Prints the markdown table of seeded changes from seeded/*/meta.json (Appendix D of DESIGN.md)."""
import glob, json, os
rows = []
for d in sorted(glob.glob(os.path.join(os.path.dirname(os.path.dirname(os.path.abspath(__file__))), "seeded", "*", "meta.json"))):
    m = json.load(open(d))
    rows.append((m["id"], m["breaks_property"], m["needs_to_manifest"], ", ".join(m["detected_by"]) or "NOT DETECTED", m.get("notes", "")))
print("| seeded change | property | needs, in order to manifest | detected by (quick tier) | note |")
print("|---|---|---|---|---|")
for r in rows:
    print("| %s | %s | %s | %s | %s |" % r)
print("\n%d seeded changes, %d detected by at least one check." % (len(rows), sum(1 for r in rows if r[3] != "NOT DETECTED")))
