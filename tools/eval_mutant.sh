#!/bin/sh
# usage: tools/eval_mutant.sh <Cxx> <a|b> <check ids...>
# 1. confirm in a fresh scratch worktree: suite passes with the patch, demo fails with / passes without
# 2. apply to /repo, run the named checks, revert.
P=$1; V=$2; shift; shift
SRC=${MUT_ROOT:-/tmp/mut_out}/$P/$V
WT=/tmp/wt_eval_$P$V
export OMP_NUM_THREADS=1 MKL_NUM_THREADS=1
git -C /repo worktree add --detach $WT HEAD >/dev/null 2>&1 || { echo "cannot create worktree"; exit 2; }
cd $WT
PYTHONPATH=$WT timeout 300 /venv/bin/python $SRC/demo.py >/dev/null 2>&1; echo "demo without patch: exit $?"
if git apply $SRC/patch.diff; then
  PYTHONPATH=$WT timeout 300 /venv/bin/python $SRC/demo.py >/dev/null 2>&1; echo "demo with patch: exit $?"
  PYTHONPATH=$WT timeout 900 /venv/bin/python -m pytest -q -p no:cacheprovider tests/ 2>&1 | tail -1
else
  echo "PATCH DOES NOT APPLY to current HEAD"
fi
cd /; git -C /repo worktree remove --force $WT
cd /repo && git diff --quiet || { echo "/repo dirty"; exit 2; }
git apply $SRC/patch.diff || exit 2
trap 'git -C /repo checkout -- .' EXIT INT TERM
for id in "$@"; do
  cd /verif && ./check $id > /tmp/eval_$P$V_$id.log 2>&1; rc=$?
  grep -E "^(VIOLATION|DRIFT|MACHINERY)" /tmp/eval_$P$V_$id.log | cut -c1-330 | head -4
  grep -E "^C[0-9]+ (quick|thorough)" /tmp/eval_$P$V_$id.log
  echo "=== $P/$V check $id exit=$rc"
done
