------------------------------ MODULE Routing ------------------------------
(***************************************************************************)
(* The transforms that only move coordinates                               *)
(* (nflows/transforms/permutations.py, nflows/transforms/reshape.py):      *)
(*   Permutation(perm, dim)      forward  index_select(inputs, dim, perm)  *)
(*                               inverse  index_select(.., argsort(perm))  *)
(*   ReversePermutation(n, dim)  perm = n-1, ..., 0                        *)
(*   SqueezeTransform(factor)    forward  view(B,c,h/f,f,w/f,f)            *)
(*                                        .permute(0,1,3,5,2,4)            *)
(*                                        .view(B,c*f*f,h/f,w/f)           *)
(*                               inverse  view(B,c/f^2,f,f,h,w)            *)
(*                                        .permute(0,1,4,2,5,3)            *)
(*                                        .view(B,c/f^2,h*f,w*f)           *)
(* transcribed over Tensor.tla views (src = flat index of the input        *)
(* element an output element is a copy of), together with their argument   *)
(* checks.  Shapes include the batch dimension (position 1) so that        *)
(* "rows never mix" is a property of the route.                            *)
(***************************************************************************)
EXTENDS Tensor, TLC

CONSTANTS MaxSize, Batch

VARIABLES call, out
vars == <<call, out>>

Raise(e) == [o |-> e]
Val(t) == [o |-> "tensor", t |-> t]

Perms(n) == {p \in [1..n -> 0..(n - 1)] : \A i, j \in 1..n : p[i] = p[j] => i = j}
ArgSort(p) == [i \in 1..Len(p) |-> CHOOSE j \in 0..(Len(p) - 1) : p[j + 1] = i - 1]
ReversePerm(n) == [i \in 1..n |-> n - i]

\* Permutation._permute(inputs, permutation, dim): dim is the torch dimension (0 = batch)
PermResult(shape, dim, perm, dir) ==
  IF dim >= Len(shape) THEN Raise("ValueError")
  ELSE IF shape[dim + 1] # Len(perm) THEN Raise("ValueError")
  ELSE Val(IndexSelect(Ident(shape), dim + 1, IF dir = "fwd" THEN perm ELSE ArgSort(perm)))

SqueezeResult(shape, f, dir) ==
  IF Len(shape) # 4 THEN Raise("ValueError")
  ELSE LET B == shape[1]  c == shape[2]  h == shape[3]  w == shape[4] IN
       IF dir = "fwd" THEN
          IF h % f # 0 \/ w % f # 0 THEN Raise("ValueError")
          ELSE Val(Reshape(Permute(Reshape(Ident(shape), <<B, c, h \div f, f, w \div f, f>>), <<1, 2, 4, 6, 3, 5>>),
                           <<B, c * f * f, h \div f, w \div f>>))
       ELSE
          IF c < f * f \/ c % (f * f) # 0 THEN Raise("ValueError")
          ELSE Val(Reshape(Permute(Reshape(Ident(shape), <<B, c \div (f * f), f, f, h, w>>), <<1, 2, 5, 3, 6, 4>>),
                           <<B, c \div (f * f), h * f, w * f>>))

ItemShapes(r) == [1..r -> 1..MaxSize]
Shapes == UNION {{<<Batch>> \o s : s \in ItemShapes(r)} : r \in 1..3}

PermCalls ==
  {[op |-> "perm", shape |-> s, dim |-> d, perm |-> p, dir |-> dr] :
      s \in Shapes, d \in 1..3, p \in UNION {Perms(n) : n \in 1..MaxSize}, dr \in {"fwd", "inv"}}
SqueezeCalls ==
  {[op |-> "squeeze", shape |-> s, f |-> f, dir |-> dr] :
      s \in {<<Batch>> \o x : x \in ItemShapes(3)} \cup {<<Batch>> \o x : x \in ItemShapes(2)}
            \cup {<<Batch, 4, 1, 1>>, <<Batch, 4, 2, 1>>, <<Batch, 8, 1, 2>>, <<Batch, 9, 1, 1>>, <<Batch, 1, 4, 2>>, <<Batch, 2, 2, 4>>, <<Batch, 1, 4, 4>>, <<Batch, 2, 3, 6>>, <<Batch, 1, 6, 6>>, <<Batch, 18, 1, 2>>},
      f \in {2, 3}, dr \in {"fwd", "inv"}}

Init ==
  /\ call \in PermCalls \cup SqueezeCalls
  /\ out = IF call.op = "perm" THEN PermResult(call.shape, call.dim, call.perm, call.dir)
           ELSE SqueezeResult(call.shape, call.f, call.dir)
Next == UNCHANGED vars
Spec == Init /\ [][Next]_vars

-----------------------------------------------------------------------------
IsVal == out.o = "tensor"
N == Prod(call.shape)
\* every input element appears exactly once: a bijection of coordinates (log-abs-det 0)
Bijection == IsVal => /\ Numel(out.t) = N
                      /\ \A q \in 0..(N - 1) : Cardinality({p \in 0..(N - 1) : out.t.src[p] = q}) = 1
\* batch rows never mix: element p of row b comes from row b
RowLocal == IsVal => LET per == N \div Batch IN \A p \in 0..(N - 1) : out.t.src[p] \div per = p \div per
\* the other direction undoes the route
Other(c) == [c EXCEPT !.dir = IF c.dir = "fwd" THEN "inv" ELSE "fwd"]
InverseUndoes ==
  IsVal =>
    LET back == IF call.op = "perm"
                THEN PermResult(out.t.shape, call.dim, call.perm, Other(call).dir)
                ELSE SqueezeResult(out.t.shape, call.f, Other(call).dir)
    IN /\ back.o = "tensor"
       /\ back.t.shape = call.shape
       \* composing the two routes gives the identity
       /\ \A p \in 0..(N - 1) : out.t.src[back.t.src[p]] = p
\* squeeze: output channel (ch*f + i)*f + j at (y, x) is input channel ch at (y*f + i, x*f + j)
SqueezeSemantics ==
  (IsVal /\ call.op = "squeeze" /\ call.dir = "fwd") =>
     LET f == call.f  s == call.shape  s2 == out.t.shape IN
     \A p \in 0..(N - 1) :
        LET ix == Unflat(p, s2)
            ch == ix[2] \div (f * f)   i == (ix[2] % (f * f)) \div f   j == ix[2] % f
        IN out.t.src[p] = Flat(<<ix[1], ch, ix[3] * f + i, ix[4] * f + j>>, s)
\* argument checks
ErrorContract ==
  /\ (call.op = "perm" /\ (call.dim >= Len(call.shape) \/ (call.dim < Len(call.shape) /\ call.shape[call.dim + 1] # Len(call.perm)))) => out.o = "ValueError"
  /\ (call.op = "squeeze" /\ Len(call.shape) # 4) => out.o = "ValueError"
=============================================================================
