------------------------------ MODULE Tensor ------------------------------
(***************************************************************************)
(* Tensors as provenance-carrying views: a tensor is [shape, src] where    *)
(* src maps every row-major flat index 0..N-1 to the flat index of the     *)
(* element of the ORIGINAL tensor it is a copy of.  Reshape / permute /    *)
(* slice / cat / index_select / repeat compose these index maps, so the    *)
(* placement performed by torch's view operations is a first-class value   *)
(* that TLC can compare.  Dimensions are 1-based.                          *)
(***************************************************************************)
EXTENDS Integers, Sequences, FiniteSets

RECURSIVE Prod(_)
Prod(s) == IF s = <<>> THEN 1 ELSE Head(s) * Prod(Tail(s))

RECURSIVE Unflat(_, _)
Unflat(f, s) ==
  IF s = <<>> THEN <<>>
  ELSE LET rest == Prod(Tail(s)) IN <<f \div rest>> \o Unflat(f % rest, Tail(s))

RECURSIVE Flat(_, _)
Flat(ix, s) == IF s = <<>> THEN 0 ELSE ix[1] * Prod(Tail(s)) + Flat(Tail(ix), Tail(s))

Numel(t) == Prod(t.shape)
Ident(s) == [shape |-> s, src |-> [f \in 0..(Prod(s) - 1) |-> f]]

\* contiguous reshape / view keeps the flat order
Reshape(t, s2) == [shape |-> s2, src |-> t.src]

PermShape(s, p) == [i \in 1..Len(p) |-> s[p[i]]]
\* torch.permute: output dimension i is input dimension p[i]
Permute(t, p) ==
  LET s2 == PermShape(t.shape, p) IN
  [shape |-> s2,
   src |-> [f \in 0..(Prod(s2) - 1) |->
              LET ix2 == Unflat(f, s2)
                  ix1 == [d \in 1..Len(p) |-> ix2[CHOOSE k \in 1..Len(p) : p[k] = d]]
              IN t.src[Flat(ix1, t.shape)]]]

\* t[..., lo:hi, ...] along dimension d
Slice(t, d, lo, hi) ==
  LET s2 == [t.shape EXCEPT ![d] = hi - lo] IN
  [shape |-> s2,
   src |-> [f \in 0..(Prod(s2) - 1) |->
              LET ix == Unflat(f, s2) IN t.src[Flat([ix EXCEPT ![d] = ix[d] + lo], t.shape)]]]

Cat(a, b, d) ==
  LET s2 == [a.shape EXCEPT ![d] = a.shape[d] + b.shape[d]] IN
  [shape |-> s2,
   src |-> [f \in 0..(Prod(s2) - 1) |->
              LET ix == Unflat(f, s2) IN
              IF ix[d] < a.shape[d] THEN a.src[Flat(ix, a.shape)]
              ELSE b.src[Flat([ix EXCEPT ![d] = ix[d] - a.shape[d]], b.shape)]]]

\* torch.index_select(t, d, idx) with idx a sequence of 0-based indices
IndexSelect(t, d, idx) ==
  LET s2 == [t.shape EXCEPT ![d] = Len(idx)] IN
  [shape |-> s2,
   src |-> [f \in 0..(Prod(s2) - 1) |->
              LET ix == Unflat(f, s2) IN t.src[Flat([ix EXCEPT ![d] = idx[ix[d] + 1]], t.shape)]]]

\* x.unsqueeze(1).expand(n0, reps, ...) merged: every row repeated `reps` times consecutively
RepeatRows(t, reps) ==
  LET s2 == [t.shape EXCEPT ![1] = t.shape[1] * reps]
      rowsz == Prod(Tail(t.shape))
  IN [shape |-> s2,
      src |-> [f \in 0..(Prod(s2) - 1) |-> t.src[((f \div rowsz) \div reps) * rowsz + (f % rowsz)]]]

\* x.repeat(n) of a flat tensor: whole tensor tiled n times
TileFlat(t, n) ==
  LET N == Numel(t) IN [shape |-> <<N * n>>, src |-> [f \in 0..(N * n - 1) |-> t.src[f % N]]]

MergeLeading(t, k) ==
  Reshape(t, <<Prod(SubSeq(t.shape, 1, k))>> \o SubSeq(t.shape, k + 1, Len(t.shape)))
SplitLeading(t, lead) == Reshape(t, lead \o Tail(t.shape))

FlatSeq(t) == [i \in 1..Numel(t) |-> t.src[i - 1]]
=============================================================================
