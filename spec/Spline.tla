------------------------------ MODULE Spline ------------------------------
(***************************************************************************)
(* Exact rational model of the four piecewise transformers of              *)
(* nflows.transforms.splines (linear, quadratic, cubic, rational           *)
(* quadratic), forward direction, with their parameter normalisation, bin  *)
(* search, box maps, linear tails and domain checks.  All four are         *)
(* rational functions of their NORMALISED parameters, so on a lattice of   *)
(* parameters and inputs the transcription is exact:                       *)
(*   - softmax outputs are k_i / sum(k) for integer weights k_i            *)
(*   - softplus / sigmoid outputs are lattice rationals chosen directly    *)
(* (the harness feeds the corresponding pre-images to the real code).      *)
(* Inputs are laid out per bin (theta in {0, 1/4, 1/2, 3/4, 1} of every    *)
(* bin: every knot and both end points are hit exactly) plus one point on  *)
(* either side of the interval.  The inverse direction is specified        *)
(* relationally: Inverse(y) = x  iff  Forward(x) = y.                      *)
(* Anchors: splines/linear.py, quadratic.py, cubic.py,                     *)
(* rational_quadratic.py, utils/torchutils.py searchsorted.                *)
(***************************************************************************)
EXTENDS Rat, FiniteSets, TLC

CONSTANTS Families,      \* subset of {"linear", "quadratic", "cubic", "rq"}
          MaxBins,       \* 1..3
          Rich,          \* TRUE: larger parameter lattice (thorough tier)
          ClampBin       \* design: searchsorted clamps its result to the last bin (repaired design)

VARIABLES phase, par, obs
vars == <<phase, par, obs>>

\* ------------------------------------------------------------------ helpers
K(p) == Len(p.ws)
RECURSIVE ISum(_, _)
ISum(s, k) == IF k = 0 THEN 0 ELSE s[k] + ISum(s, k - 1)
Floor(a) == a[1] \div a[2]
Clamp01(a) == RMax(Zero, RMin(One, a))

\* softmax(log k_i) with the min-bin floor: mb + (1 - mb*K) * k_i / sum(k)
Normed(v, mb) ==
  LET n == Len(v)  S == ISum(v, n)
  IN [k \in 1..n |-> Add(mb, Mul(Sub(One, Mul(mb, R(n, 1))), R(v[k], S)))]
\* cumulative sums 0..K, last entry pinned to 1 (the code overwrites it)
Cum(w) == [k \in 0..Len(w) |-> IF k = 0 THEN Zero ELSE IF k = Len(w) THEN One ELSE PSum(w, k)]

\* the one fact about floating point the bin search depends on: is loc + 1e-6 = loc ?
Absorbed(loc, dt) == dt = "f32" /\ Ge(loc, R(32, 1))
\* torchutils.searchsorted: #{k : x >= loc_k} - 1 with the last location raised by eps
BinIdx(x, locs, n, dt) ==
  LET raw == Cardinality({k \in 0..n : IF k = n /\ ~Absorbed(locs[n], dt) THEN Gt(x, locs[n]) ELSE Ge(x, locs[k])}) - 1
  IN IF ClampBin /\ raw > n - 1 THEN n - 1 ELSE raw

BoxScale(p) == Div(Sub(p.top, p.bottom), Sub(p.right, p.left))
ToUnit(p, x) == Div(Sub(x, p.left), Sub(p.right, p.left))
FromUnit(p, u) == Add(Mul(u, Sub(p.top, p.bottom)), p.bottom)

Val(y, d, b) == [o |-> "Value", y |-> y, d |-> d, bin |-> b]

\* ------------------------------------------------------------------ linear spline
LinearBin(p, x) ==
  LET n == K(p)  b0 == Floor(Mul(ToUnit(p, x), R(n, 1)))
  IN IF b0 >= n THEN n - 1 ELSE b0                  \* bin_idx[bin_idx >= num_bins] = num_bins - 1
LinearAt(p, x, b) ==
  LET n == K(p)
      pdf == Normed(p.ws, Zero)
      cdf == Cum(pdf)
      alpha == Sub(Mul(ToUnit(p, x), R(n, 1)), R(b, 1))
      out == Clamp01(Add(cdf[b], Mul(alpha, pdf[b + 1])))
  IN Val(FromUnit(p, out), Mul(Mul(pdf[b + 1], R(n, 1)), BoxScale(p)), b)

\* ------------------------------------------------------------------ quadratic spline
\* unnormalised knot heights: K+1 given, or K-1 given plus the boundary constant of the tails
QuadRaw(p, w) ==
  IF ~p.tails THEN p.hq
  ELSE LET n == K(p)
           h == p.hq                     \* n - 1 interior values
           fw == Mul(Half, w[1])
           lw == Mul(Half, w[n])
           mid == RSum([k \in 1..(n - 2) |-> Mul(Mul(Half, Add(h[k], h[k + 1])), w[k + 1])])
           num == Add(Add(Mul(Mul(Half, fw), h[1]), Mul(Mul(Half, lw), h[n - 1])), mid)
           c == Div(num, Sub(Sub(One, Mul(Half, fw)), Mul(Half, lw)))
       IN <<c>> \o h \o <<c>>

QuadHeights(p, w) ==
  LET n == K(p)
      raw == QuadRaw(p, w)               \* n + 1 values, index 1..n+1 = knots 0..n
      area == RSum([k \in 1..n |-> Mul(Mul(Half, Add(raw[k], raw[k + 1])), w[k])])
  IN [k \in 0..n |-> Add(p.mbh, Mul(Sub(One, p.mbh), Div(raw[k + 1], area)))]

QuadraticBin(p, x) == BinIdx(ToUnit(p, x), Cum(Normed(p.ws, p.mbw)), K(p), "f64")
QuadraticAt(p, x, b) ==
  LET n == K(p)
      w == Normed(p.ws, p.mbw)
      locs == Cum(w)
      H == QuadHeights(p, w)
      areas == [k \in 1..n |-> Mul(Mul(Half, Add(H[k - 1], H[k])), w[k])]
      lcdf == Cum(areas)
      u == ToUnit(p, x)
      alpha == Div(Sub(u, locs[b]), w[b + 1])
      a == Mul(Mul(Half, Sub(H[b + 1], H[b])), w[b + 1])
      bb == Mul(H[b], w[b + 1])
      out == Clamp01(Add(Add(Mul(a, Sq(alpha)), Mul(bb, alpha)), lcdf[b]))
      du == Add(Mul(alpha, Sub(H[b + 1], H[b])), H[b])
  IN Val(FromUnit(p, out), Mul(du, BoxScale(p)), b)

\* ------------------------------------------------------------------ cubic spline
CubicKnotDerivs(p, w, s) ==
  LET n == K(p) IN
  [k \in 0..n |->
     IF k = 0 THEN Mul(Mul(p.dl, R(3, 1)), s[1])
     ELSE IF k = n THEN Mul(Mul(p.dr, R(3, 1)), s[n])
     ELSE LET m1 == RMin(s[k], s[k + 1])
              m2 == Div(Mul(Half, Add(Mul(w[k + 1], s[k]), Mul(w[k], s[k + 1]))), Add(w[k], w[k + 1]))
          IN Mul(Two, RMin(m1, m2))]      \* min_something * (sign + sign), slopes are positive

CubicBin(p, x) == BinIdx(ToUnit(p, x), Cum(Normed(p.ws, p.mbw)), K(p), "f64")
CubicAt(p, x, b) ==
  LET n == K(p)
      w == Normed(p.ws, p.mbw)
      h == Normed(p.hs, p.mbh)
      cw == Cum(w)
      ch == Cum(h)
      s == [k \in 1..n |-> Div(h[k], w[k])]
      D == CubicKnotDerivs(p, w, s)
      u == ToUnit(p, x)
      k == b + 1
      a == Div(Sub(Add(D[k - 1], D[k]), Mul(Two, s[k])), Sq(w[k]))
      bb == Div(Sub(Sub(Mul(R(3, 1), s[k]), Mul(Two, D[k - 1])), D[k]), w[k])
      c == D[k - 1]
      t == Sub(u, cw[b])
      out == Add(Add(Add(Mul(a, Mul(t, Sq(t))), Mul(bb, Sq(t))), Mul(c, t)), ch[b])
      du == Add(Add(Mul(Mul(R(3, 1), a), Sq(t)), Mul(Mul(Two, bb), t)), c)
  IN Val(FromUnit(p, out), Mul(du, BoxScale(p)), b)

\* ------------------------------------------------------------------ rational quadratic spline
\* knots in box coordinates, both ends pinned (cumwidths[..., 0] = left, [..., -1] = right)
RQKnots(v, lo, hi, mb) ==
  LET n == Len(v)  c == Cum(Normed(v, mb))
  IN [k \in 0..n |-> IF k = 0 THEN lo ELSE IF k = n THEN hi ELSE Add(Mul(Sub(hi, lo), c[k]), lo)]

RQNum(hh, dl, d0, th) == Mul(hh, Add(Mul(dl, Sq(th)), Mul(d0, Mul(th, Sub(One, th)))))
RQDen(dl, d0, d1, th) == Add(dl, Mul(Sub(Add(d0, d1), Mul(Two, dl)), Mul(th, Sub(One, th))))

RQBin(p, x) == BinIdx(x, RQKnots(p.ws, p.left, p.right, p.mbw), K(p), p.dt)
RQAt(p, x, b) ==
  LET cw == RQKnots(p.ws, p.left, p.right, p.mbw)
      ch == RQKnots(p.hs, p.bottom, p.top, p.mbh)
      ww == Sub(cw[b + 1], cw[b])
      hh == Sub(ch[b + 1], ch[b])
      dl == Div(hh, ww)
      d0 == p.ds[b + 1]
      d1 == p.ds[b + 2]
      th == Div(Sub(x, cw[b]), ww)
      den == RQDen(dl, d0, d1, th)
      omt == Sub(One, th)
      dnum == Mul(Sq(dl), Add(Add(Mul(d1, Sq(th)), Mul(Mul(Two, dl), Mul(th, omt))), Mul(d0, Sq(omt))))
  IN Val(Add(ch[b], Div(RQNum(hh, dl, d0, th), den)), Div(dnum, Sq(den)), b)

\* ------------------------------------------------------------------ dispatch, tails, domain
Inside(p, x) == Le(p.left, x) /\ Le(x, p.right)

BinOf(p, x) ==
  CASE p.fam = "linear" -> LinearBin(p, x)
    [] p.fam = "quadratic" -> QuadraticBin(p, x)
    [] p.fam = "cubic" -> CubicBin(p, x)
    [] p.fam = "rq" -> RQBin(p, x)
\* the piece of bin b evaluated at x (also outside that bin: used for continuity across knots)
At(p, x, b) ==
  CASE p.fam = "linear" -> LinearAt(p, x, b)
    [] p.fam = "quadratic" -> QuadraticAt(p, x, b)
    [] p.fam = "cubic" -> CubicAt(p, x, b)
    [] p.fam = "rq" -> RQAt(p, x, b)

Eval(p, x) ==
  IF ~Inside(p, x)
  THEN (IF p.tails THEN Val(x, One, -1) ELSE [o |-> "InputOutsideDomain"])
  ELSE LET b == BinOf(p, x) IN
       IF b >= K(p) THEN [o |-> "Crash"]       \* the gather index runs off the end
       ELSE At(p, x, b)

\* knots (input side) in box coordinates, for the input lattice
KnotsX(p) ==
  LET n == K(p) IN
  IF p.fam = "rq" THEN RQKnots(p.ws, p.left, p.right, p.mbw)
  ELSE LET c == IF p.fam = "linear" THEN [k \in 0..n |-> R(k, n)] ELSE Cum(Normed(p.ws, p.mbw))
       IN [k \in 0..n |-> IF k = 0 THEN p.left ELSE IF k = n THEN p.right
                          ELSE Add(Mul(c[k], Sub(p.right, p.left)), p.left)]

XLat(p) ==
  LET kn == KnotsX(p) IN
  {Add(kn[k], Mul(Sub(kn[k + 1], kn[k]), R(j, 4))) : k \in 0..(K(p) - 1), j \in 0..4}
    \cup {Sub(p.left, One), Add(p.right, One)}

\* ------------------------------------------------------------------ parameter lattice
WeightVecs(n) ==
  CASE n = 1 -> {<<1>>}
    [] n = 2 -> IF Rich THEN {<<1, 1>>, <<1, 3>>, <<3, 1>>} ELSE {<<1, 1>>, <<1, 3>>}
    [] n = 3 -> IF Rich THEN {<<1, 1, 1>>, <<1, 2, 3>>, <<2, 1, 1>>, <<1, 2, 1>>} ELSE {<<1, 1, 1>>, <<1, 2, 3>>}
DLat == {Half, One, Two}
\* derivative patterns of the rational-quadratic knots (K + 1 values)
DerivVecs(n) == {[i \in 1..(n + 1) |-> One],
                 [i \in 1..(n + 1) |-> IF i % 2 = 1 THEN Half ELSE Two]}
                \cup (IF Rich THEN {[i \in 1..(n + 1) |-> IF i % 2 = 1 THEN Two ELSE Half]} ELSE {})
\* unnormalised knot heights of the quadratic spline: all equal (a freshly initialised conditioner:
\* every piece degenerates to a straight line), rising, zig-zag
QuadVecs(m) == {[i \in 1..m |-> One],
                [i \in 1..m |-> IF i % 2 = 1 THEN Half ELSE Two],
                [i \in 1..m |-> R(i, 2)]}
SigLat == IF Rich THEN {Half, R(1, 4), R(3, 4)} ELSE {Half, R(1, 4)}
\* <<min_bin_width, min_bin_height>>: equal (the defaults are equal) and different
MinBins == {<<Zero, Zero>>, <<R(1, 8), R(1, 8)>>, <<Zero, R(1, 4)>>} \cup (IF Rich THEN {<<R(1, 8), Zero>>, <<Zero, R(1, 8)>>} ELSE {})

Boxes ==   \* [left, right, bottom, top, tails]
  { [left |-> Zero, right |-> One, bottom |-> Zero, top |-> One, tails |-> FALSE],
    [left |-> R(-3, 1), right |-> R(-1, 1), bottom |-> R(-1, 1), top |-> Zero, tails |-> FALSE],   \* ends at or below zero; wider than its image
    [left |-> R(-1, 1), right |-> One, bottom |-> R(-1, 1), top |-> One, tails |-> TRUE],
    [left |-> R(-11, 10), right |-> R(11, 10), bottom |-> R(-11, 10), top |-> R(11, 10), tails |-> TRUE] }   \* 11/10 is not a float: float32 rounds it up
BigBox == [left |-> R(-64, 1), right |-> R(64, 1), bottom |-> R(-64, 1), top |-> R(64, 1), tails |-> TRUE]
\* boxes narrower than one (where a floor given as a FRACTION of the box is smaller than the same number in box units)
SmallBox == [left |-> Zero, right |-> R(2, 5), bottom |-> Zero, top |-> R(2, 5), tails |-> FALSE]
\* a box of width three: its reciprocal is not a float, so "multiply by the reciprocal" and "divide" differ
WideBox == [left |-> R(-5, 2), right |-> R(1, 2), bottom |-> R(-5, 2), top |-> R(1, 2), tails |-> FALSE]
SmallTails == [left |-> R(-1, 4), right |-> R(1, 4), bottom |-> R(-1, 4), top |-> R(1, 4), tails |-> TRUE]

Base(fam, ws, box, dt) ==
  [fam |-> fam, ws |-> ws, left |-> box.left, right |-> box.right, bottom |-> box.bottom, top |-> box.top,
   tails |-> box.tails, dt |-> dt]

ParamSets(fam) ==
  CASE fam = "linear" ->
         \* (plus a peaked one: a bin that carries half a millionth of the mass, as a trained conditioner produces)
         {Base(fam, ws, box, "f64") : ws \in UNION {WeightVecs(n) : n \in 1..MaxBins} \cup {<<2000000, 1, 3>>}, box \in Boxes}
    [] fam = "quadratic" ->
         UNION {UNION {{[Base(fam, ws, box, "f64") EXCEPT !.tails = box.tails] @@ [hq |-> hq, mbw |-> mb[1], mbh |-> mb[2]] :
                          hq \in QuadVecs(IF box.tails THEN Len(ws) - 1 ELSE Len(ws) + 1), mb \in MinBins}
                       : ws \in UNION {WeightVecs(n) : n \in (IF box.tails THEN 2 ELSE 1)..MaxBins}}
                : box \in Boxes}
    [] fam = "cubic" ->
         UNION {{Base(fam, ws, box, "f64") @@ [hs |-> hs, dl |-> dl, dr |-> dr, mbw |-> mb[1], mbh |-> mb[2]] :
                    hs \in WeightVecs(Len(ws)), dl \in SigLat, dr \in SigLat, mb \in MinBins, box \in Boxes \cup {WideBox}}
                : ws \in UNION {WeightVecs(n) : n \in 1..MaxBins}}
    [] fam = "rq" ->
         UNION {{Base(fam, ws, bd[1], bd[2]) @@ [hs |-> hs, mbw |-> mb[1], mbh |-> mb[2],
                    ds |-> IF bd[1].tails THEN [i \in 1..(Len(ws) + 1) |-> IF i = 1 \/ i = Len(ws) + 1 THEN One ELSE dv[i]] ELSE dv] :
                    hs \in WeightVecs(Len(ws)), dv \in DerivVecs(Len(ws)), mb \in MinBins,
                    bd \in ({<<b, "f64">> : b \in Boxes} \cup {<<BigBox, "f32">>, <<BigBox, "f64">>, <<SmallBox, "f64">>, <<SmallTails, "f64">>})}
                : ws \in UNION {WeightVecs(n) : n \in 1..MaxBins}}

\* ------------------------------------------------------------------ behaviour
Init == phase = "choose" /\ par = <<>> /\ obs = <<>>

Choose ==
  /\ phase = "choose"
  /\ \E fam \in Families : \E p \in ParamSets(fam) : par' = p
  /\ phase' = "params" /\ obs' = <<>>

EvalAll ==
  /\ phase = "params"
  /\ obs' = [x \in XLat(par) |-> Eval(par, x)]
  /\ phase' = "done" /\ UNCHANGED par

Next == Choose \/ EvalAll
Spec == Init /\ [][Next]_vars

\* ------------------------------------------------------------------ properties
Done == phase = "done"
Xs == DOMAIN obs
Vals == {x \in Xs : obs[x].o = "Value"}
InBox == {x \in Vals : Inside(par, x)}

\* C17
InDomainAccepted == Done => \A x \in Xs : Inside(par, x) => obs[x].o = "Value"
OutOfDomainRejected == (Done /\ ~par.tails) => \A x \in Xs : ~Inside(par, x) => obs[x].o = "InputOutsideDomain"
\* C09
StrictlyIncreasing == Done => \A x1, x2 \in Vals : Lt(x1, x2) => Lt(obs[x1].y, obs[x2].y)
EndPointsPinned ==
  Done => \A x \in InBox : (x = par.left => obs[x].y = par.bottom) /\ (x = par.right => obs[x].y = par.top)
RangeWithinBox == Done => \A x \in InBox : Le(par.bottom, obs[x].y) /\ Le(obs[x].y, par.top)
TailIdentity == (Done /\ par.tails) => \A x \in Vals : ~Inside(par, x) => (obs[x].y = x /\ obs[x].d = One)
PositiveDerivative == Done => \A x \in Vals : Gt(obs[x].d, Zero)
\* continuity across bin boundaries: the piece to the left of knot k, evaluated at its right end,
\* gives exactly the value the piece to the right starts from
ContinuousAtKnots ==
  Done => LET kn == KnotsX(par) IN
          \A k \in 1..(K(par) - 1) : At(par, kn[k], k - 1).y = At(par, kn[k], k).y
\* ... and at the tail junction: the spline meets the identity at -B and +B
ContinuousAtTailBound ==
  (Done /\ par.tails) => (obs[par.left].y = par.left /\ obs[par.right].y = par.right)
\* C01 on the model: the reported derivative is the derivative of the reported map.  Between two
\* lattice points of one bin the mean value theorem bounds the secant slope by the derivative range;
\* for the polynomial pieces the exact identity is checked through the midpoint rule of the piece:
\*   quadratic piece:  (F(b) - F(a)) / (b - a) = F'((a + b) / 2)
\*   linear piece:     (F(b) - F(a)) / (b - a) = F'
SecantSlope(a, b) == Div(Sub(obs[b].y, obs[a].y), Sub(b, a))
BinPoints(k) ==
  LET kn == KnotsX(par) IN [j \in 0..4 |-> Add(kn[k], Mul(Sub(kn[k + 1], kn[k]), R(j, 4)))]
DerivativeIsSlope ==
  (Done /\ par.fam \in {"linear", "quadratic"}) =>
     \A k \in 0..(K(par) - 1) :
        LET q == BinPoints(k) IN
        \* interior points only (the clamp acts on the end points)
        /\ SecantSlope(q[1], q[3]) = obs[q[2]].d
\* cubic piece: Simpson's rule is exact, so the integral of the reported derivative over
\* [q0, q4] with nodes q0, q2, q4 equals the rise of the map
CubicSimpson ==
  (Done /\ par.fam = "cubic") =>
     \A k \in 0..(K(par) - 1) :
        LET q == BinPoints(k)
            hlen == Sub(q[4], q[0])
        IN Sub(obs[q[4]].y, obs[q[0]].y) =
             Mul(Div(hlen, R(6, 1)), Add(Add(obs[q[0]].d, Mul(R(4, 1), obs[q[2]].d)), obs[q[4]].d))
\* rational-quadratic piece y = c + N(theta)/D(theta): N, D are quadratics, so the identity
\* F' * D^2 * w = N'D - ND' is checked with exact central differences of N and D
RQDerivative ==
  (Done /\ par.fam = "rq") =>
     \A x \in InBox :
        LET b == obs[x].bin
            cw == RQKnots(par.ws, par.left, par.right, par.mbw)
            ch == RQKnots(par.hs, par.bottom, par.top, par.mbh)
            ww == Sub(cw[b + 1], cw[b])   hh == Sub(ch[b + 1], ch[b])   dl == Div(hh, ww)
            d0 == par.ds[b + 1]   d1 == par.ds[b + 2]
            th == Div(Sub(x, cw[b]), ww)   e == R(1, 16)
            Np == Div(Sub(RQNum(hh, dl, d0, Add(th, e)), RQNum(hh, dl, d0, Sub(th, e))), Mul(Two, e))
            Dp == Div(Sub(RQDen(dl, d0, d1, Add(th, e)), RQDen(dl, d0, d1, Sub(th, e))), Mul(Two, e))
            Dn == RQDen(dl, d0, d1, th)
        IN Mul(Mul(obs[x].d, Sq(Dn)), ww) = Sub(Mul(Np, Dn), Mul(RQNum(hh, dl, d0, th), Dp))
=============================================================================
