------------------------------ MODULE Autoreg ------------------------------
(***************************************************************************)
(* AutoregressiveTransform.inverse (nflows/transforms/autoregressive.py):  *)
(*                                                                         *)
(*     outputs = zeros_like(inputs)                                        *)
(*     for _ in range(num_inputs):                                         *)
(*         params  = autoregressive_net(outputs, context)                  *)
(*         outputs, logabsdet = elementwise_inverse(inputs, params)        *)
(*                                                                         *)
(* One action per loop iteration.  `good` is the set of features of        *)
(* `outputs` that already equal the pre-image x of the given y; the        *)
(* parameters of feature i are a function of outputs[j], j in Before(i)    *)
(* (the conditioner's dependency relation: Made.tla's strict triangle), so *)
(* a pass makes feature i right iff every feature it depends on was right  *)
(* when the pass started.  `calls` logs what the conditioner was fed.      *)
(*                                                                         *)
(* Passes is a design parameter: the pinned code uses D passes; any        *)
(* smaller count violates InverseFound (TLC derives the witness).          *)
(***************************************************************************)
EXTENDS Integers, Sequences, FiniteSets, TLC

CONSTANTS MaxD,
          PassesOffset     \* number of passes = D + PassesOffset (0 for the pinned code)

MinusOne == -1

VARIABLES D, pass, good, calls, phase
vars == <<D, pass, good, calls, phase>>

Before(i) == 1..(i - 1)           \* features the parameters of feature i may depend on

Init ==
  /\ D \in 1..MaxD /\ pass = 0 /\ good = {} /\ calls = <<>> /\ phase = "loop"

Passes == IF D + PassesOffset < 0 THEN 0 ELSE D + PassesOffset

\* one iteration: the conditioner sees the current outputs (right exactly on `good`), every feature
\* whose dependencies were right becomes right, the others are recomputed from wrong parameters
Pass ==
  /\ phase = "loop" /\ pass < Passes
  /\ calls' = Append(calls, good)
  /\ good' = {i \in 1..D : Before(i) \subseteq good}
  /\ pass' = pass + 1
  /\ UNCHANGED <<D, phase>>

Return ==
  /\ phase = "loop" /\ pass = Passes
  /\ phase' = "returned"
  /\ UNCHANGED <<D, pass, good, calls>>

Next == Pass \/ Return
Spec == Init /\ [][Next]_vars

-----------------------------------------------------------------------------
\* after k passes the first k features are right, and stay right
PrefixRight == 1..(IF pass < D THEN pass ELSE D) \subseteq good
Monotone == [][good \subseteq good']_vars
\* C02: what is returned is the pre-image, in every feature
InverseFound == phase = "returned" => good = 1..D
\* the conditioner is evaluated once per pass, first on zeros (nothing right yet)
CallLog == /\ Len(calls) = pass
           /\ \A k \in 1..Len(calls) : calls[k] = 1..(k - 1) \cap 1..D \/ (k - 1 >= D /\ calls[k] = 1..D)
=============================================================================
