------------------------- MODULE MC_BatchNormLife -------------------------
EXTENDS BatchNormLife
\* three 2-D batches with small integer entries (2 features)
MCBatches == << << <<0,1>>, <<2,1>>, <<4,4>> >>,
                << <<1,0>>, <<3,2>>, <<-1,5>>, <<1,1>> >>,
                << <<2,2>>, <<0,-2>> >> >>
MCHalf == <<1, 2>>
MCTenth == <<1, 10>>
=============================================================================
