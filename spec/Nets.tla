------------------------------- MODULE Nets -------------------------------
(***************************************************************************)
(* The conditioner networks every coupling / autoregressive layer and      *)
(* every conditional distribution is built from (nflows/nn/nets):          *)
(*   ResidualNet / ConvResidualNet (resnet.py): initial layer over         *)
(*     cat(inputs, context), num_blocks residual blocks                    *)
(*       [bn0] act lin0 [bn1] act dropout lin1 [glu with context] + skip   *)
(*     and a final layer;                                                  *)
(*   MLP (mlp.py): reshape, input layer, act, hidden layers with act,      *)
(*     output layer, [act], reshape.                                       *)
(* One action per stage of a forward pass (the stage program is a function *)
(* of the constructor arguments), mode switches between passes.  What a    *)
(* stage does to a value is tracked abstractly: which arguments reach it   *)
(* (inputs, context), whether rows of the batch have been mixed (a batch   *)
(* norm normalising with batch statistics), whether it depends on the      *)
(* random generator (an active dropout), and which running statistics the  *)
(* pass has written.  `trace` is the stage list of the current pass; the   *)
(* harness interprets it with the real network's parameters and compares   *)
(* the value, the four attributes and the written buffers with the real    *)
(* forward call.                                                           *)
(***************************************************************************)
EXTENDS Naturals, Sequences, FiniteSets, TLC

CONSTANTS MaxBlocks, MaxCalls

VARIABLES cfg, mode, pc, val, skip, writes, trace, modes
vars == <<cfg, mode, pc, val, skip, writes, trace, modes>>

Configs ==
  {[kind |-> k, blocks |-> n, bn |-> b, drop |-> d, ctx |-> c, actout |-> FALSE] :
      k \in {"residual", "conv"}, n \in 0..MaxBlocks, b \in BOOLEAN, d \in BOOLEAN, c \in BOOLEAN}
  \cup
  {[kind |-> "mlp", blocks |-> n, bn |-> FALSE, drop |-> FALSE, ctx |-> FALSE, actout |-> a] :
      n \in 0..MaxBlocks, a \in BOOLEAN}

St(op, b, i) == [op |-> op, b |-> b, i |-> i]

\* ResidualBlock.forward / ConvResidualBlock.forward
BlockProgram(c, b) ==
  <<St("save", b, 0)>>
  \o (IF c.bn THEN <<St("bn", b, 0)>> ELSE <<>>)
  \o <<St("act", b, 0), St("lin", b, 0)>>
  \o (IF c.bn THEN <<St("bn", b, 1)>> ELSE <<>>)
  \o <<St("act", b, 1), St("drop", b, 0), St("lin", b, 1)>>
  \o (IF c.ctx THEN <<St("glu", b, 0)>> ELSE <<>>)
  \o <<St("add", b, 0)>>

RECURSIVE Blocks(_, _)
Blocks(c, n) == IF n = 0 THEN <<>> ELSE Blocks(c, n - 1) \o BlockProgram(c, n - 1)

RECURSIVE Hidden(_)
Hidden(n) == IF n = 0 THEN <<>> ELSE Hidden(n - 1) \o <<St("hidden", n - 1, 0), St("act", n - 1, 0)>>

Program(c) ==
  IF c.kind = "mlp"
  THEN <<St("reshape", 0, 0), St("input", 0, 0), St("act", 0, 0)>> \o Hidden(c.blocks)
       \o <<St("output", 0, 0)>> \o (IF c.actout THEN <<St("act", 0, 1)>> ELSE <<>>) \o <<St("reshape", 0, 1)>>
  ELSE <<St("initial", 0, 0)>> \o Blocks(c, c.blocks) \o <<St("final", 0, 0)>>

Fresh == [in |-> FALSE, ctx |-> FALSE, coupled |-> FALSE, random |-> FALSE]
Join(a, b) == [in |-> a.in \/ b.in, ctx |-> a.ctx \/ b.ctx, coupled |-> a.coupled \/ b.coupled, random |-> a.random \/ b.random]

Idle == pc = 0
Done == pc = Len(Program(cfg)) + 1
Cur == Program(cfg)[pc]
Running == pc >= 1 /\ pc <= Len(Program(cfg))

Init ==
  /\ cfg \in Configs
  /\ mode = "train"                 \* a freshly constructed nn.Module
  /\ pc = 0 /\ val = Fresh /\ skip = Fresh /\ writes = {} /\ trace = <<>> /\ modes = <<>>

SetMode(m) ==
  /\ (Idle \/ Done) /\ mode # m /\ mode' = m
  /\ UNCHANGED <<cfg, pc, val, skip, writes, trace, modes>>
Train == SetMode("train")
Eval == SetMode("eval")

Begin ==
  /\ (Idle \/ Done) /\ Len(modes) < MaxCalls
  /\ pc' = 1 /\ val' = Fresh /\ skip' = Fresh /\ writes' = {} /\ trace' = <<>>
  /\ modes' = Append(modes, mode)
  /\ UNCHANGED <<cfg, mode>>

Step(v, s, w) ==
  /\ val' = v /\ skip' = s /\ writes' = w
  /\ trace' = Append(trace, Cur) /\ pc' = pc + 1
  /\ UNCHANGED <<cfg, mode, modes>>

\* initial_layer(cat(inputs, context)) / MLP's reshape + input layer: the arguments enter
Enter ==
  /\ Running /\ Cur.op \in {"initial", "reshape", "input"}
  /\ Step([val EXCEPT !.in = TRUE, !.ctx = cfg.ctx], skip, writes)

\* a row-wise stage: linear / convolution / activation / reshape keep every attribute
RowWise ==
  /\ Running /\ Cur.op \in {"act", "lin", "hidden", "output", "final"}
  /\ Step(val, skip, writes)

Save ==
  /\ Running /\ Cur.op = "save"
  /\ Step(val, val, writes)

\* nn.BatchNorm: batch statistics and a running-statistics update in training mode only
BatchNorm ==
  /\ Running /\ Cur.op = "bn"
  /\ IF mode = "train"
     THEN Step([val EXCEPT !.coupled = TRUE], skip, writes \cup {<<Cur.b, Cur.i>>})
     ELSE Step(val, skip, writes)

\* nn.Dropout(p): active only in training mode and only for p > 0
Dropout ==
  /\ Running /\ Cur.op = "drop"
  /\ Step([val EXCEPT !.random = @ \/ (mode = "train" /\ cfg.drop)], skip, writes)

\* F.glu(cat(temps, context_layer(context))): the context enters again
Glu ==
  /\ Running /\ Cur.op = "glu"
  /\ Step([val EXCEPT !.ctx = TRUE], skip, writes)

Add ==
  /\ Running /\ Cur.op = "add"
  /\ Step(Join(val, skip), skip, writes)

Next == Train \/ Eval \/ Begin \/ Enter \/ RowWise \/ Save \/ BatchNorm \/ Dropout \/ Glu \/ Add

Spec == Init /\ [][Next]_vars

----------------------------------------------------------------------------
PassMode == modes[Len(modes)]    \* the mode the finished pass ran in
AllBn == {<<b, i>> : b \in 0..(cfg.blocks - 1), i \in 0..1}

TypeOK ==
  /\ cfg \in Configs /\ mode \in {"train", "eval"} /\ pc \in 0..(Len(Program(cfg)) + 1)
  /\ writes \subseteq AllBn /\ Len(modes) <= MaxCalls

\* an evaluation-mode pass treats rows independently, is deterministic and writes nothing
EvalPure == Done /\ PassMode = "eval" => ~val.coupled /\ ~val.random /\ writes = {}
\* the inputs always reach the output; the context reaches it exactly when the network was built with one
InputsReach == Done => val.in
ContextIff == Done => (val.ctx <=> cfg.ctx)
\* a training-mode pass of a batch-normalised network mixes rows and updates every running statistic once
TrainCouples == Done /\ PassMode = "train" =>
                  /\ (val.coupled <=> cfg.bn /\ cfg.blocks > 0)
                  /\ writes = IF cfg.bn THEN AllBn ELSE {}
RandomIff == Done => (val.random <=> PassMode = "train" /\ cfg.drop /\ cfg.blocks > 0)
\* the skip connection is taken once per block and closes every block it opened
SkipBalanced == Done => Cardinality({k \in 1..Len(trace) : trace[k].op = "save"}) = Cardinality({k \in 1..Len(trace) : trace[k].op = "add"})
TraceIsProgram == Done => trace = Program(cfg)
\* the mode cannot change inside a pass
ModeStable == [][Running => mode' = mode]_vars
=============================================================================
