------------------------ MODULE TraceLinearCache ------------------------
(***************************************************************************)
(* Trace validation for LinearCache: a batch of histories recorded from    *)
(* the real Linear subclasses (JSON, one record per history) is accepted   *)
(* iff every history is a behaviour of LinearCache!Spec whose logged       *)
(* observations (outcome of each call relative to an uncached twin, slot   *)
(* occupancy after each step) match.  A rejected history deadlocks, and    *)
(* TLC's counterexample names the history (tid) and the position (l).      *)
(***************************************************************************)
EXTENDS LinearCache, Json, IOUtils, Sequences

Batch == JsonDeserialize(IOEnv.TRACE_FILE)
Traces == Batch.traces

VARIABLES tid, l
tvars == <<vars, tid, l>>

T == Traces[tid].ev

TInit ==
  /\ tid \in 1..Len(Traces)
  /\ l = 1
  /\ Init
  /\ usingCache = Traces[tid].uc

Step ==
  /\ l <= Len(T)
  /\ l' = l + 1 /\ tid' = tid
  /\ LET e == T[l] IN
       /\ \/ (e.a = "Train" /\ Train)
          \/ (e.a = "Eval" /\ Eval)
          \/ (e.a = "UseCache" /\ UseCache(e.b))
          \/ (e.a = "Call" /\ \E c \in BOOLEAN : Call(e.dir, e.bw, e.o, c))
          \/ (e.a = "OptStep" /\ OptStep)
          \/ (e.a = "Load" /\ Load)
          \/ (e.a = "ToDtype" /\ ToDtype(e.d))
          \/ (e.a = "Copy" /\ Copy /\ res'.o = e.o)
          \/ (e.a = "SetFrozen" /\ SetFrozen(e.b))
       \* logged projection of the real object's state after the step
       /\ <<cw'.filled, ci'.filled, cl'.filled>> = e.occ
       /\ training' = e.tr /\ usingCache' = e.uc /\ dt' = e.dt

Done == l = Len(T) + 1 /\ UNCHANGED tvars

TNext == Step \/ Done
TSpec == TInit /\ [][TNext]_tvars

\* every history consumed completely <=> one state per event plus the initial one, per history
\* (the expected total is computed by the harness and shipped with the batch)
AllAccepted == TLCGet("distinct") = Batch.total
=============================================================================
