------------------------------ MODULE GradFlow ------------------------------
(***************************************************************************)
(* Gradient flow (C16): which leaves (inputs, context, trainable           *)
(* parameters) must receive a gradient from which result, in which mode    *)
(* and after which history.  A model kind is described by the leaves it    *)
(* has; a step is one evaluation followed by back-propagation.  Nothing in *)
(* the library is detached by design except the running statistics of the  *)
(* normalisation layers (buffers, not parameters), so the specification    *)
(* says: every leaf that influences the result receives a finite gradient, *)
(* in training and in evaluation mode, with the weight cache off or on and *)
(* whatever call came before.  TLC enumerates the cases; the harness       *)
(* decides `influences` by finite differences on the real model and        *)
(* compares directional derivatives.                                       *)
(***************************************************************************)
EXTENDS Integers, FiniteSets, TLC

Kinds ==
  { [k |-> k, ctx |-> c, cache |-> ca] :
      k \in {"transform", "distribution", "flow"}, c \in BOOLEAN, ca \in BOOLEAN }

Results(kind) ==
  CASE kind.k = "transform" -> {"forward", "inverse"}
    \* sample_and_log_prob: reparameterised samplers (noise drawn, then mapped by differentiable
    \* operations) - the samples and their log-prob are functions of the parameters and the context
    [] kind.k = "distribution" -> {"log_prob", "sample_and_log_prob"}
    [] kind.k = "flow" -> {"log_prob", "transform_to_noise", "sample_and_log_prob"}

Leaves(kind) == {"inputs", "params"} \cup (IF kind.ctx THEN {"context"} ELSE {})

VARIABLES kind, mode, useCache, hist, result, wrt, mustFlow
vars == <<kind, mode, useCache, hist, result, wrt, mustFlow>>

Init ==
  /\ kind \in Kinds
  /\ mode \in {"train", "eval"}
  /\ useCache \in (IF kind.cache THEN BOOLEAN ELSE {FALSE})
  /\ hist \in {"fresh", "after_forward", "after_inverse"}     \* what was called before (fills caches)
  /\ result \in Results(kind)
  /\ wrt \in Leaves(kind)
  /\ (result = "sample_and_log_prob" => wrt # "inputs")       \* a sampling call has no data input
  \* no leaf is detached by design: the cache keeps its autograd graph, conditioners are not
  \* stopped, data-dependent initialisation happens under no_grad only for the statistics
  /\ mustFlow = TRUE
Next == UNCHANGED vars
Spec == Init /\ [][Next]_vars

EveryInfluencingLeafReachesLoss == mustFlow
\* the cache is only consulted in evaluation mode: training-mode gradients never go through it
CacheOnlyInEval == (useCache /\ mode = "train") => mustFlow
=============================================================================
