------------------------------- MODULE Rat -------------------------------
(***************************************************************************)
(* Exact rationals as normalised pairs <<num, den>> (den > 0, gcd 1).      *)
(* TLC integers are 32-bit and overflow is an error, so operands are       *)
(* cross-reduced before multiplying and comparison is multiplication-free. *)
(***************************************************************************)
EXTENDS Integers, Sequences

Abs(x) == IF x < 0 THEN -x ELSE x

RECURSIVE GCD(_, _)
GCD(a, b) == IF b = 0 THEN a ELSE GCD(b, a % b)

Norm(n, d) ==
  LET g == GCD(Abs(n), Abs(d))
      s == IF d < 0 THEN -1 ELSE 1
  IN <<s * (n \div g), s * (d \div g)>>

R(n, d) == Norm(n, d)
Zero == <<0, 1>>
One == <<1, 1>>
Two == <<2, 1>>
Half == <<1, 2>>

Add(a, b) ==
  LET g == GCD(a[2], b[2])
  IN Norm(a[1] * (b[2] \div g) + b[1] * (a[2] \div g), (a[2] \div g) * b[2])
Neg(a) == <<-a[1], a[2]>>
Sub(a, b) == Add(a, Neg(b))
Mul(a, b) ==
  IF a[1] = 0 \/ b[1] = 0 THEN <<0, 1>>
  ELSE LET g1 == GCD(Abs(a[1]), b[2])
           g2 == GCD(Abs(b[1]), a[2])
       IN <<(a[1] \div g1) * (b[1] \div g2), (a[2] \div g2) * (b[2] \div g1)>>
Inv(a) == IF a[1] < 0 THEN <<-a[2], -a[1]>> ELSE <<a[2], a[1]>>
Div(a, b) == Mul(a, Inv(b))
Sq(a) == Mul(a, a)

\* multiplication-free three-way comparison of p/q and r/s (q, s > 0), continued-fraction style
RECURSIVE CmpPos(_, _, _, _)
CmpPos(p, q, r, s) ==
  LET fp == p \div q
      fr == r \div s
  IN IF fp # fr THEN (IF fp < fr THEN -1 ELSE 1)
     ELSE LET rp == p - fp * q
              rr == r - fr * s
          IN IF rp = 0 /\ rr = 0 THEN 0
             ELSE IF rp = 0 THEN -1
             ELSE IF rr = 0 THEN 1
             ELSE -CmpPos(q, rp, s, rr)
\* \div rounds towards minus infinity in TLA+, so the floor-based recursion is valid for all signs
Cmp(a, b) == CmpPos(a[1], a[2], b[1], b[2])
Lt(a, b) == Cmp(a, b) < 0
Le(a, b) == Cmp(a, b) <= 0
Gt(a, b) == Cmp(a, b) > 0
Ge(a, b) == Cmp(a, b) >= 0
RMin(a, b) == IF Le(a, b) THEN a ELSE b
RMax(a, b) == IF Le(a, b) THEN b ELSE a
Sign(a) == IF a[1] > 0 THEN 1 ELSE IF a[1] < 0 THEN -1 ELSE 0
IsRat(a) == a \in Int \X Int /\ a[2] > 0 /\ GCD(Abs(a[1]), a[2]) = 1

\* sums / products over sequences of rationals
RECURSIVE RSum(_)
RSum(s) == IF s = <<>> THEN Zero ELSE Add(Head(s), RSum(Tail(s)))
RECURSIVE RProd(_)
RProd(s) == IF s = <<>> THEN One ELSE Mul(Head(s), RProd(Tail(s)))
\* partial sums: PSum(s, k) = s[1] + ... + s[k]
RECURSIVE PSum(_, _)
PSum(s, k) == IF k = 0 THEN Zero ELSE Add(PSum(s, k - 1), s[k])
FromInt(n) == <<n, 1>>
=============================================================================
