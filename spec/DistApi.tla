------------------------------ MODULE DistApi ------------------------------
(***************************************************************************)
(* The public interface of nflows.distributions.base.Distribution and      *)
(* nflows.flows.base.Flow, transcribed step by step over Tensor.tla views  *)
(* (C18: shapes and argument contract; C04: which context row every        *)
(* sample is generated and scored under).                                  *)
(*   Distribution.log_prob   : row check (ValueError), one value per row   *)
(*   Distribution.sample     : argument checks (TypeError), optional       *)
(*       batching: n div bs full blocks + remainder, concatenated          *)
(*   Distribution.sample_and_log_prob : sample, merge leading dims,        *)
(*       repeat_rows(context), log_prob, split                             *)
(*   Flow._sample / Flow.sample_and_log_prob : base noise [rows, n, ...],  *)
(*       merge, repeat_rows(embedded context), inverse transform, split    *)
(* A draw is tagged <<i, j>> = (context row it was generated under, index  *)
(* within that row's draws) so that placement and pairing are values.      *)
(***************************************************************************)
EXTENDS Tensor, TLC

CONSTANTS MaxN, MaxBS, MaxRows,
          CatDim     \* design: dimension along which batches are concatenated when a context
                     \* is given (1 = next to the draws of the same row; 0 = the pinned code)

\* argument tokens: TLC cannot mix integers and strings in one set, so counts are records
IntTok(v) == [k |-> "int", v |-> v]
Bad(s) == [k |-> s, v |-> 0]
CountTokens(max) == {IntTok(v) : v \in -1..max} \cup {Bad("float"), Bad("str"), Bad("none")}
IsPositiveInt(t) == t.k = "int" /\ t.v > 0      \* nflows.utils.typechecks.is_positive_int

VARIABLES call, out
vars == <<call, out>>

Shape(s) == [o |-> "shape", shape |-> s]
Raise(e) == [o |-> e]

\* one block of draws produced by _sample(num, context): [rows, num] of tags, or [num] without context
Block(rows, num, base) ==
  IF rows = 0 THEN [shape |-> <<num>>, src |-> [f \in 0..(num - 1) |-> <<0, base + f>>]]
  ELSE [shape |-> <<rows, num>>, src |-> [f \in 0..(rows * num - 1) |-> <<f \div num, base + (f % num)>>]]

RECURSIVE CatAll(_, _)
CatAll(blocks, d) == IF Len(blocks) = 1 THEN blocks[1] ELSE Cat(blocks[1], CatAll(Tail(blocks), d), d)

\* Distribution.sample(num_samples, context with `rows` rows (0 = no context), batch_size)
SampleResult(n, rows, bs) ==
  IF ~IsPositiveInt(n) THEN Raise("TypeError")
  ELSE IF bs.k = "none" THEN [o |-> "tensor", t |-> Block(rows, n.v, 0)]
  ELSE IF ~IsPositiveInt(bs) THEN Raise("TypeError")
  ELSE LET nb == n.v \div bs.v
           left == n.v % bs.v
           full == [b \in 1..nb |-> Block(rows, bs.v, (b - 1) * bs.v)]
           blocks == IF left > 0 THEN Append(full, Block(rows, left, nb * bs.v)) ELSE full
       IN [o |-> "tensor", t |-> CatAll(blocks, IF rows = 0 THEN 1 ELSE CatDim + 1)]

\* Distribution.log_prob(inputs with r1 rows, context with r2 rows (0 = none))
LogProbResult(r1, r2) == IF r2 > 0 /\ r1 # r2 THEN Raise("ValueError") ELSE Shape(<<r1>>)

\* Distribution.sample_and_log_prob(n, context): which context row every merged sample is scored
\* under: samples merged to [rows*n], context repeat_rows(n)
SLPResult(n, rows) ==
  IF ~IsPositiveInt(n) THEN Raise("TypeError")
  ELSE LET s == Block(rows, n.v, 0) IN
       IF rows = 0 THEN [o |-> "pairs", samples |-> s, lpshape |-> <<n.v>>, pairs |-> [k \in 1..n.v |-> <<0, 0>>]]
       ELSE LET merged == MergeLeading(s, 2)
                ctx == RepeatRows(Ident(<<rows>>), n.v)      \* source context row of every merged row
            IN [o |-> "pairs", samples |-> SplitLeading(merged, <<rows, n.v>>), lpshape |-> <<rows, n.v>>,
                \* <<row the draw was generated under, row it is scored / transformed under>>
                pairs |-> [k \in 1..(rows * n.v) |-> <<merged.src[k - 1][1], ctx.src[k - 1]>>]]

Init ==
  /\ call \in
       {[op |-> "sample", n |-> n, rows |-> r, bs |-> b] :
            n \in CountTokens(MaxN), r \in 0..MaxRows, b \in CountTokens(MaxBS)}
       \cup {[op |-> "log_prob", r1 |-> a, r2 |-> b] : a \in 1..MaxRows, b \in 0..MaxRows}
       \* an empty batch (an empty selection, an empty last chunk): one value per input row is no value at all;
       \* a conditional model is then given a context with no rows
       \cup {[op |-> "log_prob", r1 |-> 0, r2 |-> 0]}
       \cup {[op |-> "slp", n |-> n, rows |-> r] : n \in CountTokens(MaxN), r \in 0..MaxRows}
  /\ out = CASE call.op = "sample" -> SampleResult(call.n, call.rows, call.bs)
             [] call.op = "log_prob" -> LogProbResult(call.r1, call.r2)
             [] call.op = "slp" -> SLPResult(call.n, call.rows)

Next == UNCHANGED vars
Spec == Init /\ [][Next]_vars

-----------------------------------------------------------------------------
ExpectedShape(n, rows) == IF rows = 0 THEN <<n>> ELSE <<rows, n>>

\* C18: n draws, n draws per context row stacked [rows, n]; batching does not change the shape
ShapeContract ==
  (call.op = "sample" /\ out.o = "tensor") => out.t.shape = ExpectedShape(call.n.v, call.rows)
\* C18 / C04: block i holds the draws generated under context row i, each draw exactly once
RowPlacement ==
  (call.op = "sample" /\ out.o = "tensor" /\ out.t.shape = ExpectedShape(call.n.v, call.rows)) =>
     \A f \in 0..(Numel(out.t) - 1) :
        out.t.src[f] = <<(IF call.rows = 0 THEN 0 ELSE f \div call.n.v), f % call.n.v>>
ErrorContract ==
  /\ (call.op \in {"sample", "slp"} /\ ~IsPositiveInt(call.n)) => out.o = "TypeError"
  /\ (call.op = "sample" /\ IsPositiveInt(call.n) /\ call.bs.k # "none" /\ ~IsPositiveInt(call.bs)) => out.o = "TypeError"
  /\ (call.op = "log_prob" /\ call.r2 > 0 /\ call.r1 # call.r2) => out.o = "ValueError"
  /\ (call.op = "log_prob" /\ (call.r2 = 0 \/ call.r1 = call.r2)) => out = Shape(<<call.r1>>)
\* C04: every draw is scored / inverse-transformed under the context row it was generated under
RowPairing ==
  (call.op = "slp" /\ out.o = "pairs") =>
     /\ \A k \in DOMAIN out.pairs : out.pairs[k][1] = out.pairs[k][2]
     /\ out.samples.shape = ExpectedShape(call.n.v, call.rows)
     /\ out.lpshape = out.samples.shape
=============================================================================
