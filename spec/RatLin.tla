------------------------------ MODULE RatLin ------------------------------
(***************************************************************************)
(* Small dense linear algebra over exact rationals (Rat.tla): vectors are  *)
(* sequences, matrices sequences of rows.                                  *)
(***************************************************************************)
EXTENDS Rat

Dim(m) == Len(m)
Id(n) == [i \in 1..n |-> [j \in 1..n |-> IF i = j THEN One ELSE Zero]]
Dot(u, v) == RSum([i \in 1..Len(u) |-> Mul(u[i], v[i])])
Row(m, i) == m[i]
Col(m, j) == [i \in 1..Len(m) |-> m[i][j]]
Transpose(m) == [i \in 1..Len(m[1]) |-> Col(m, i)]
MatMul(a, b) == [i \in 1..Len(a) |-> [j \in 1..Len(b[1]) |-> Dot(a[i], Col(b, j))]]
MatVec(a, x) == [i \in 1..Len(a) |-> Dot(a[i], x)]
VecAdd(u, v) == [i \in 1..Len(u) |-> Add(u[i], v[i])]
Diag(d) == [i \in 1..Len(d) |-> [j \in 1..Len(d) |-> IF i = j THEN d[i] ELSE Zero]]
IntVec(v) == [i \in 1..Len(v) |-> FromInt(v[i])]
IntMat(m) == [i \in 1..Len(m) |-> IntVec(m[i])]

\* Householder reflection I - 2 v v^T / (v^T v) for v # 0
Householder(v) ==
  LET n == Len(v)  nn == Dot(v, v)
  IN [i \in 1..n |-> [j \in 1..n |-> Sub(IF i = j THEN One ELSE Zero, Div(Mul(Two, Mul(v[i], v[j])), nn))]]

\* product H(q_1) H(q_2) ... H(q_k) (what applying the sequence to the rows of X multiplies by)
RECURSIVE HProd(_, _, _)
HProd(qs, k, n) == IF k = 0 THEN Id(n) ELSE MatMul(HProd(qs, k - 1, n), Householder(qs[k]))

\* determinant by cofactor expansion, n <= 3
Det(m) ==
  CASE Len(m) = 1 -> m[1][1]
    [] Len(m) = 2 -> Sub(Mul(m[1][1], m[2][2]), Mul(m[1][2], m[2][1]))
    [] Len(m) = 3 ->
         Add(Sub(Mul(m[1][1], Sub(Mul(m[2][2], m[3][3]), Mul(m[2][3], m[3][2]))),
                 Mul(m[1][2], Sub(Mul(m[2][1], m[3][3]), Mul(m[2][3], m[3][1])))),
             Mul(m[1][3], Sub(Mul(m[2][1], m[3][2]), Mul(m[2][2], m[3][1]))))
RAbs(a) == IF a[1] < 0 THEN Neg(a) ELSE a

\* forward substitution L x = b (L lower triangular, any diagonal), back substitution U x = b
RECURSIVE FwdSolveTo(_, _, _)
FwdSolveTo(L, b, k) ==
  IF k = 0 THEN <<>>
  ELSE LET prev == FwdSolveTo(L, b, k - 1)
           s == RSum([j \in 1..(k - 1) |-> Mul(L[k][j], prev[j])])
       IN Append(prev, Div(Sub(b[k], s), L[k][k]))
FwdSolve(L, b) == FwdSolveTo(L, b, Len(b))
\* U x = b via the reversed system
Rev(s) == [i \in 1..Len(s) |-> s[Len(s) + 1 - i]]
BackSolve(U, b) ==
  LET n == Len(b)
      Lr == [i \in 1..n |-> [j \in 1..n |-> U[n + 1 - i][n + 1 - j]]]
  IN Rev(FwdSolve(Lr, Rev(b)))
\* inverse of a lower / upper triangular matrix, column by column
LowerInverse(L) == Transpose([j \in 1..Len(L) |-> FwdSolve(L, Id(Len(L))[j])])
UpperInverse(U) == Transpose([j \in 1..Len(U) |-> BackSolve(U, Id(Len(U))[j])])
=============================================================================
