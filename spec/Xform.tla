------------------------------- MODULE Xform -------------------------------
(***************************************************************************)
(* Aggregation of log-abs-det terms (C01, C12): the log-abs-det of one     *)
(* batch item is the SUM over all of its elements of the elementwise       *)
(* log-derivatives; a parameter shared by several elements (a per-channel  *)
(* scale on an image, a broadcast scale vector, a 1x1-convolution matrix   *)
(* applied at every pixel, a scalar temperature) therefore enters with a   *)
(* multiplicity.  A state is one layer applied to one per-item input       *)
(* shape; `mult` maps every parameter term to its multiplicity.            *)
(*   ActNorm            normalization.py: h * w * sum(log_scale)           *)
(*   OneByOneConvolution conv.py: logabsdet(W) summed over b, h, w         *)
(*   PointwiseAffineTransform standard.py: log|scale| broadcast to the     *)
(*                       item shape and summed                             *)
(*   Sigmoid            nonlinearities.py: log T counted once per element  *)
(*   elementwise layers (Exp, Tanh, LeakyReLU, ...): one term per element  *)
(*   CompositeTransform base.py: sum over the parts                        *)
(***************************************************************************)
EXTENDS Tensor, TLC

CONSTANTS MaxC, MaxH, MaxW

VARIABLES layer, shape, mult
vars == <<layer, shape, mult>>

ImageShapes == {<<c, h, w>> : c \in 1..MaxC, h \in 1..MaxH, w \in 1..MaxW}
FlatShapes == {<<d>> : d \in 1..MaxC} \cup {<<k, d>> : k \in 2..MaxH, d \in 1..MaxC}

\* right-aligned broadcasting of a scale of shape ss against an item of shape s: the scale element
\* every item element is multiplied by
BroadcastIndex(ix, s, ss) ==
  LET off == Len(s) - Len(ss)
      six == [k \in 1..Len(ss) |-> IF ss[k] = 1 THEN 0 ELSE ix[k + off]]
  IN Flat(six, ss)
Broadcastable(s, ss) ==
  /\ Len(ss) <= Len(s)
  /\ \A k \in 1..Len(ss) : ss[k] = 1 \/ ss[k] = s[k + Len(s) - Len(ss)]
ScaleShapes(s) ==
  {ss \in UNION {[1..r -> 1..(MaxC + MaxH)] : r \in 1..Len(s)} : Broadcastable(s, ss)}

Count(s, pred(_)) == Cardinality({f \in 0..(Prod(s) - 1) : pred(f)})

Layers(s) ==
  (IF Len(s) = 3 THEN {[kind |-> "ActNorm"], [kind |-> "OneByOneConvolution"]} ELSE {})
  \cup (IF Len(s) = 1 THEN {[kind |-> "ActNorm"]} ELSE {})
  \cup {[kind |-> "Sigmoid"], [kind |-> "Elementwise"]}
  \cup {[kind |-> "PointwiseAffine", ss |-> ss] : ss \in ScaleShapes(s)}

MultOf(l, s) ==
  CASE l.kind = "ActNorm" ->
         \* one term per channel / feature, applied to every pixel of that channel
         [c \in 0..(s[1] - 1) |-> Count(s, LAMBDA f : Unflat(f, s)[1] = c)]
    [] l.kind = "OneByOneConvolution" -> [t \in {0} |-> Prod(s) \div s[1]]      \* once per pixel
    [] l.kind = "Sigmoid" -> [t \in {0} |-> Prod(s)]                            \* log T once per element
    [] l.kind = "Elementwise" -> [t \in 0..(Prod(s) - 1) |-> 1]
    [] l.kind = "PointwiseAffine" ->
         [t \in 0..(Prod(l.ss) - 1) |-> Count(s, LAMBDA f : BroadcastIndex(Unflat(f, s), s, l.ss) = t)]

Init ==
  /\ shape \in ImageShapes \cup FlatShapes
  /\ layer \in Layers(shape)
  /\ mult = MultOf(layer, shape)
Next == UNCHANGED vars
Spec == Init /\ [][Next]_vars

\* every element of the item contributes exactly once
RECURSIVE SumF(_, _)
SumF(f, S) == IF S = {} THEN 0 ELSE LET x == CHOOSE x \in S : TRUE IN f[x] + SumF(f, S \ {x})
EveryElementOnce ==
  layer.kind \in {"ActNorm", "Sigmoid", "Elementwise", "PointwiseAffine"} => SumF(mult, DOMAIN mult) = Prod(shape)
PerPixel == layer.kind = "OneByOneConvolution" => mult[0] = shape[2] * shape[3]
ChannelTimesPixels ==
  (layer.kind = "ActNorm" /\ Len(shape) = 3) => \A c \in DOMAIN mult : mult[c] = shape[2] * shape[3]
=============================================================================
