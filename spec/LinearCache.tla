--------------------------- MODULE LinearCache ---------------------------
(***************************************************************************)
(* Life-cycle of the weight cache of nflows.transforms.linear.Linear and   *)
(* its concrete subclasses (LULinear, QRLinear, SVDLinear, NaiveLinear,    *)
(* OneByOneConvolution).  Anchors: nflows/transforms/linear.py             *)
(*   forward / _check_forward_cache, inverse / _check_inverse_cache,       *)
(*   train, use_cache, _apply, _load_from_state_dict, LinearCache.         *)
(*                                                                         *)
(* One action per public call of the property's alphabet (C10):            *)
(*   train(), eval(), use_cache(b), forward / inverse (optionally followed *)
(*   by a backward pass to the inputs), optimiser step in training mode,   *)
(*   load_state_dict, dtype conversion - and copy.deepcopy of the          *)
(*   transform (snapshots of the best model, EMA copies), an operation    *)
(*   the uncached transform supports in every state.                      *)
(*                                                                         *)
(* Parameter versions are abstracted to {cur, stale} relative to the       *)
(* current parameters, so the state space is finite without a constraint   *)
(* and TLC's verdict covers histories of every length.                     *)
(***************************************************************************)
EXTENDS Integers, TLC

CONSTANTS
  WeightAliasesParam, \* TRUE for NaiveLinear: weight() returns the Parameter itself
  LadSaves,           \* TRUE iff the autograd graph of logabsdet() saves tensors
                      \* (FALSE for QRLinear: sum(log_upper_diag) saves nothing)
  \* design switches, each a non-empty subset of BOOLEAN: {TRUE} = the step drops the cache (the
  \* repaired design), {FALSE} = it never does, {TRUE, FALSE} = either (permissive model: the
  \* over-approximation of all designs that the conformance walk follows on the real code)
  LoadInvalidates,    \* _load_from_state_dict
  ApplyInvalidates,   \* _apply (dtype / device conversion)
  TrainInvalidates,   \* train(True) while using_cache is on
  TrainInvalidatesOff,\* train(True) while using_cache is off (use_cache(False) does not empty the cache)
  CachedWhenFrozen,   \* TRUE = the cached path is also taken in training mode while the parameters are frozen
  CopyDrops,          \* copy.deepcopy: TRUE = the copy starts with an empty cache, FALSE = the cached
                      \* tensors are deep-copied with the module (which autograd refuses for non-leaves)
  WithInplace         \* extend the alphabet by in-place parameter edits in eval mode

\* frozenP: the parameters were frozen with requires_grad_(False) (fine-tuning practice); it changes neither
\* when the cache is consulted nor what invalidates it
VARIABLES training, usingCache, dt, cw, ci, cl, frozenP, res
vars == <<training, usingCache, dt, cw, ci, cl, frozenP, res>>

DTypes == {"f32", "f64"}
None == [filled |-> FALSE]
\* v: value version relative to the current parameters; d: dtype; g: state of the autograd
\* graph behind the cached tensor (leaf = the parameter itself, no graph)
Slot(v, d, g) == [filled |-> TRUE, v |-> v, d |-> d, g |-> g]

Fresh(alias, saves) ==
  Slot("cur", dt, IF alias THEN "leaf" ELSE IF saves THEN "live" ELSE "nosave")

TypeOK ==
  /\ training \in BOOLEAN /\ usingCache \in BOOLEAN /\ dt \in DTypes /\ frozenP \in BOOLEAN
  /\ \A s \in {cw, ci, cl} :
        s = None \/ (s.filled /\ s.v \in {"cur", "stale"} /\ s.d \in DTypes
                     /\ s.g \in {"leaf", "live", "freed", "nosave", "poisoned"})

Init ==
  /\ training = TRUE            \* nn.Module default
  /\ usingCache \in BOOLEAN     \* constructor argument using_cache
  /\ dt = "f32"
  /\ cw = None /\ ci = None /\ cl = None
  /\ frozenP = FALSE
  /\ res = [k |-> "init"]

Invalidate == cw' = None /\ ci' = None /\ cl' = None

Train ==
  /\ training' = TRUE
  /\ \E inv \in (IF usingCache THEN TrainInvalidates ELSE TrainInvalidatesOff) : IF inv THEN Invalidate ELSE UNCHANGED <<cw, ci, cl>>
  /\ res' = [k |-> "train"]
  /\ UNCHANGED <<usingCache, dt, frozenP>>

\* eval() is train(False): no invalidation
Eval ==
  /\ ~frozenP
  /\ training' = FALSE
  /\ res' = [k |-> "eval"]
  /\ UNCHANGED <<usingCache, dt, cw, ci, cl, frozenP>>

UseCache(b) ==
  /\ usingCache' = b
  /\ res' = [k |-> "use"]
  /\ UNCHANGED <<training, dt, cw, ci, cl, frozenP>>

\* outcome of a cached call through matrix slot m and log-det slot l
Outcome(m, l, bw) ==
  IF (m.d # dt) \/ (l.d # dt) THEN "raise_dtype"
  ELSE IF bw /\ (m.g = "poisoned" \/ l.g = "poisoned") THEN "raise_inplace"
  ELSE IF bw /\ (m.g = "freed" \/ l.g = "freed") THEN "raise_graph"
  ELSE IF m.v = "cur" /\ l.v = "cur" THEN "fresh" ELSE "stale"

\* a successful backward frees the saved tensors of the graphs it walked through
AfterBw(s, bw, ok) == IF bw /\ ok /\ s.g = "live" THEN [s EXCEPT !.g = "freed"] ELSE s

\* "param_grad_differs": outputs agree but the parameters receive other gradients than without the
\* cache (e.g. a detached cache); never produced by a design in which cached tensors keep their graph
Outcomes == {"fresh", "stale", "raise_dtype", "raise_graph", "raise_inplace", "param_grad_differs"}

\* o (the outcome relative to recomputing without the cache) and `cached` are parameters of
\* the action so that they appear in the labels of the dumped state graph
Call(dir, bw, o, cached) ==
  /\ \E fz \in CachedWhenFrozen : cached = (usingCache /\ (~training \/ (fz /\ frozenP)))
  /\ IF cached
     THEN \* _check_forward_cache / _check_inverse_cache: fill what is missing (three-way if/elif)
          LET m0 == IF dir = "fwd" THEN cw ELSE ci
              m1 == IF m0.filled THEN m0 ELSE Fresh(dir = "fwd" /\ WeightAliasesParam, TRUE)
              l1 == IF cl.filled THEN cl ELSE Fresh(FALSE, LadSaves)
              ok == o \in {"fresh", "stale"}
          IN /\ o = Outcome(m1, l1, bw)
             /\ IF dir = "fwd"
                THEN cw' = AfterBw(m1, bw, ok) /\ ci' = ci
                ELSE ci' = AfterBw(m1, bw, ok) /\ cw' = cw
             /\ cl' = AfterBw(l1, bw, ok)
     ELSE \* forward_no_cache / inverse_no_cache: recomputed from the parameters, fresh graph
          /\ o = "fresh"
          /\ UNCHANGED <<cw, ci, cl>>
  /\ res' = [k |-> "call", dir |-> dir, bw |-> bw, o |-> o, cached |-> cached]
  /\ UNCHANGED <<training, usingCache, dt, frozenP>>

Stale(s) == IF s.filled /\ s.g # "leaf" THEN [s EXCEPT !.v = "stale"] ELSE s
\* an in-place write to a parameter invalidates live graphs that saved it
Poison(s) == IF s.filled /\ s.g = "live" THEN [s EXCEPT !.v = "stale", !.g = "poisoned"] ELSE Stale(s)

\* optimiser step: only in training mode (the property's alphabet)
OptStep ==
  /\ training /\ ~frozenP
  /\ cw' = Poison(cw) /\ ci' = Poison(ci) /\ cl' = Poison(cl)
  /\ res' = [k |-> "opt"]
  /\ UNCHANGED <<training, usingCache, dt, frozenP>>

\* load_state_dict with different parameter values (copy_ into the parameters)
Load ==
  /\ \E inv \in LoadInvalidates :
       IF inv THEN Invalidate
       ELSE cw' = Poison(cw) /\ ci' = Poison(ci) /\ cl' = Poison(cl)
  /\ res' = [k |-> "load"]
  /\ UNCHANGED <<training, usingCache, dt, frozenP>>

\* outside the property's alphabet, only explored when WithInplace
InplaceEdit ==
  /\ WithInplace /\ ~training
  /\ cw' = Poison(cw) /\ ci' = Poison(ci) /\ cl' = Poison(cl)
  /\ res' = [k |-> "inplace"]
  /\ UNCHANGED <<training, usingCache, dt, frozenP>>

\* module.double() / module.float(): nn.Module._apply converts parameters in place
ToDtype(d) ==
  /\ dt' = d
  /\ \E inv \in ApplyInvalidates :
       IF inv THEN Invalidate
       ELSE /\ cw' = (IF cw.filled /\ cw.g = "leaf" THEN [cw EXCEPT !.d = d] ELSE cw)
            /\ UNCHANGED <<ci, cl>>
  /\ res' = [k |-> "to"]
  /\ UNCHANGED <<training, usingCache, frozenP>>

\* requires_grad_(False) / requires_grad_(True) on every parameter, during training (a layer is frozen for some
\* epochs and released again).  Freezing in evaluation mode is kept out of the alphabet: what a cache filled from
\* frozen parameters does to later parameter gradients is the recorded finding about graph state in the cache.
SetFrozen(b) ==
  /\ training
  /\ frozenP' = b
  /\ res' = [k |-> "freeze"]
  /\ UNCHANGED <<training, usingCache, dt, cw, ci, cl>>

\* copy.deepcopy(transform); the session continues with the copy (with the original if copying raised).
\* Tensors that hang on an autograd graph cannot be deep-copied.
Attached(s) == s.filled /\ s.g # "leaf"
Copy ==
  /\ \E drop \in CopyDrops :
       IF drop THEN res' = [k |-> "copy", o |-> "ok"] /\ Invalidate
       ELSE /\ res' = [k |-> "copy", o |-> (IF Attached(cw) \/ Attached(ci) \/ Attached(cl) THEN "raise_copy" ELSE "ok")]
            /\ UNCHANGED <<cw, ci, cl>>
  /\ UNCHANGED <<training, usingCache, dt, frozenP>>

Next ==
  \/ Train \/ Eval
  \/ Copy
  \/ \E b \in BOOLEAN : SetFrozen(b)
  \/ \E b \in BOOLEAN : UseCache(b)
  \/ \E dir \in {"fwd", "inv"}, bw \in BOOLEAN, o \in Outcomes, c \in BOOLEAN : Call(dir, bw, o, c)
  \/ OptStep \/ Load \/ InplaceEdit
  \/ \E d \in DTypes : ToDtype(d)

Spec == Init /\ [][Next]_vars

-----------------------------------------------------------------------------
\* Properties (C10).  Results of calls are constrained by action properties only; `res` is
\* an observation and is hidden from the state graph by the VIEW.

IsCall(r) == r.k = "call"

\* same outputs and log-abs-dets as recomputing from the current parameters
Transparent == [][IsCall(res') => res'.o # "stale"]_vars

\* known finding C10-graph-freed: a second backward through a cached tensor raises
Known_GraphFreed(r) == r.o = "raise_graph"

\* the cached transform supports the same operations as the uncached one
CopyWorks == [][res'.k = "copy" => res'.o = "ok"]_vars
SameOperations == [][(IsCall(res') => res'.o \in {"fresh", "stale"}) /\ (res'.k = "copy" => res'.o = "ok")]_vars
SameOperationsModuloKnown ==
  [][(IsCall(res') => (res'.o \in {"fresh", "stale"} \/ Known_GraphFreed(res'))) /\ (res'.k = "copy" => res'.o = "ok")]_vars

\* the cache is only ever consulted in evaluation mode with caching enabled
CacheOnlyInEval == [][IsCall(res') /\ res'.cached => (~training /\ usingCache)]_vars

\* invariants of the repaired design
TrainingHasNoCache == training => (cw = None /\ ci = None /\ cl = None)
CacheIsCurrent == \A s \in {cw, ci, cl} : s.filled => (s.v = "cur" /\ s.d = dt)
\* cached matrix never present without cached log-det after a call
CallFillsBoth == [][(IsCall(res') /\ res'.cached) =>
                     (cl'.filled /\ IF res'.dir = "fwd" THEN cw'.filled ELSE ci'.filled)]_vars

View == <<training, usingCache, dt, cw, ci, cl, frozenP>>
=============================================================================
