------------------------------ MODULE Assembly ------------------------------
(***************************************************************************)
(* How the ready-made flows are put together                               *)
(* (nflows/flows/realnvp.py SimpleRealNVP.__init__,                        *)
(*  nflows/flows/autoregressive.py MaskedAutoregressiveFlow.__init__):     *)
(* one action per statement of the construction loops.                     *)
(*                                                                         *)
(*   SimpleRealNVP: mask = ones; mask[::2] = -1; per layer: a coupling     *)
(*     transform built from the CURRENT mask, then mask *= -1 (in place -  *)
(*     a layer that kept a reference instead of deriving its index lists   *)
(*     would see its mask flip), then optionally a BatchNorm.              *)
(*   MaskedAutoregressiveFlow: per layer a permutation (reverse, or a      *)
(*     random one), a masked affine autoregressive transform, optionally   *)
(*     a BatchNorm.                                                        *)
(*                                                                         *)
(* `dep[o]` is the set of input features output feature o of the whole     *)
(* transform (data -> noise direction, evaluation mode) may depend on: the *)
(* relational composition of the layers' own dependency relations          *)
(* (coupling: Coupling.tla; autoregressive: Made.tla's triangle;           *)
(* permutation: one source; batch norm in evaluation mode: elementwise).   *)
(***************************************************************************)
EXTENDS Integers, Sequences, FiniteSets, TLC

CONSTANTS MaxF, MaxL

VARIABLES phase, cfg, layers, mask, it, dep
vars == <<phase, cfg, layers, mask, it, dep>>

Perms(n) == {p \in [1..n -> 1..n] : \A i, j \in 1..n : p[i] = p[j] => i = j}
ReversePerm(n) == [i \in 1..n |-> n + 1 - i]          \* torch.arange(features - 1, -1, -1)
InitMask(n) == [i \in 1..n |-> IF i % 2 = 1 THEN -1 ELSE 1]   \* mask[::2] = -1 (0-based even positions)
Neg(m) == [i \in DOMAIN m |-> -m[i]]
IdDep(n) == [o \in 1..n |-> {o}]

Layer(kind, v) == [kind |-> kind, v |-> v]

\* which inputs of a layer its output o depends on
LDep(l, n) ==
  [o \in 1..n |->
     CASE l.kind = "coupling" -> (IF l.v[o] > 0 THEN {o} \cup {i \in 1..n : l.v[i] <= 0} ELSE {o})
       [] l.kind = "bn" -> {o}
       [] l.kind = "perm" -> {l.v[o]}                   \* index_select: out[o] = in[perm[o]]
       [] l.kind = "ar" -> 1..o]

\* the layer is applied after everything built so far
Then(d, l, n) == LET ld == LDep(l, n) IN [o \in 1..n |-> UNION {d[m] : m \in ld[o]}]

Configs ==
  {[flow |-> "realnvp", F |-> f, L |-> l, bn |-> b, rp |-> FALSE] : f \in 2..MaxF, l \in 1..MaxL, b \in BOOLEAN}
  \cup {[flow |-> "maf", F |-> f, L |-> l, bn |-> b, rp |-> r] : f \in 1..MaxF, l \in 1..MaxL, b \in BOOLEAN, r \in BOOLEAN}

Init ==
  /\ phase = "configure" /\ cfg = [flow |-> "none"] /\ layers = <<>> /\ mask = <<>> /\ it = 0 /\ dep = <<>>

Configure(c) ==
  /\ phase = "configure"
  /\ cfg' = c /\ it' = 0 /\ layers' = <<>> /\ dep' = IdDep(c.F)
  /\ mask' = IF c.flow = "realnvp" THEN InitMask(c.F) ELSE <<>>
  /\ phase' = IF c.flow = "realnvp" THEN "coupling" ELSE "perm"

Add(l) == layers' = Append(layers, l) /\ dep' = Then(dep, l, cfg.F)
AfterMain == IF cfg.bn THEN "bn" ELSE IF it + 1 = cfg.L THEN "done" ELSE IF cfg.flow = "realnvp" THEN "coupling" ELSE "perm"

\* coupling_constructor(mask=mask, ...); mask *= -1
AddCoupling ==
  /\ phase = "coupling"
  /\ Add(Layer("coupling", mask))       \* the layer's index lists are derived now, from this value
  /\ mask' = Neg(mask)
  /\ phase' = AfterMain /\ it' = IF cfg.bn THEN it ELSE it + 1
  /\ UNCHANGED cfg

AddPerm(p) ==
  /\ phase = "perm"
  /\ Add(Layer("perm", p))
  /\ phase' = "ar" /\ UNCHANGED <<cfg, mask, it>>

AddAR ==
  /\ phase = "ar"
  /\ Add(Layer("ar", <<>>))
  /\ phase' = AfterMain /\ it' = IF cfg.bn THEN it ELSE it + 1
  /\ UNCHANGED <<cfg, mask>>

AddBN ==
  /\ phase = "bn"
  /\ Add(Layer("bn", <<>>))
  /\ it' = it + 1
  /\ phase' = IF it + 1 = cfg.L THEN "done" ELSE IF cfg.flow = "realnvp" THEN "coupling" ELSE "perm"
  /\ UNCHANGED <<cfg, mask>>

DoConfigure == phase = "configure" /\ \E c \in Configs : Configure(c)
DoPerm == phase = "perm" /\ \E p \in (IF cfg.rp THEN Perms(cfg.F) ELSE {ReversePerm(cfg.F)}) : AddPerm(p)

Next == DoConfigure \/ AddCoupling \/ DoPerm \/ AddAR \/ AddBN
Spec == Init /\ [][Next]_vars

-----------------------------------------------------------------------------
Done == phase = "done"
Couplings == {k \in 1..Len(layers) : layers[k].kind = "coupling"}
TransSet(l) == {i \in DOMAIN l.v : l.v[i] > 0}
IdentSet(l) == {i \in DOMAIN l.v : l.v[i] <= 0}

LayerCount == Done => Len(layers) = cfg.L * ((IF cfg.flow = "realnvp" THEN 1 ELSE 2) + (IF cfg.bn THEN 1 ELSE 0))
\* consecutive coupling layers transform complementary halves; every layer has both halves
Alternating ==
  \A k1, k2 \in Couplings :
     (k2 > k1 /\ ~\E k \in Couplings : k1 < k /\ k < k2) => TransSet(layers[k2]) = IdentSet(layers[k1])
BothHalves == \A k \in Couplings : TransSet(layers[k]) # {} /\ IdentSet(layers[k]) # {}
\* the first layer leaves the 0-based even positions alone
FirstMask == (Couplings # {}) => IdentSet(layers[1]) = {i \in 1..cfg.F : i % 2 = 1}
\* with two or more layers every feature is transformed somewhere
EveryFeatureTransformed ==
  (Done /\ cfg.flow = "realnvp" /\ cfg.L >= 2) => UNION {TransSet(layers[k]) : k \in Couplings} = 1..cfg.F
\* mixing: three coupling layers (two autoregressive layers with reversal) connect everything
Full == \A o \in 1..cfg.F : dep[o] = 1..cfg.F
RealNVPMixes == (Done /\ cfg.flow = "realnvp" /\ cfg.L >= 3) => Full
MAFMixes == (Done /\ cfg.flow = "maf" /\ ~cfg.rp /\ cfg.L >= 2) => Full
\* a single autoregressive layer behind the reversal is anti-triangular
OneLayerMAF == (Done /\ cfg.flow = "maf" /\ ~cfg.rp /\ cfg.L = 1) => \A o \in 1..cfg.F : dep[o] = {cfg.F + 1 - i : i \in 1..o}
\* every output always depends on its own history: no layer forgets its input
NoFeatureLost == Done => \A i \in 1..cfg.F : \E o \in 1..cfg.F : i \in dep[o]
=============================================================================
