------------------------------ MODULE Session ------------------------------
(***************************************************************************)
(* A user session with one nflows model (transform, distribution or flow): *)
(* mode switches, calls of the public API with caller-owned tensors,       *)
(* optimiser steps, and saving + reloading into a freshly constructed      *)
(* model.  The specification states which part of the persistent state    *)
(* each step may write (C13), when a repeated call must reproduce its      *)
(* earlier result (C13), and that a reload preserves the function (C15).   *)
(*                                                                         *)
(* Documented writers (normalization.py): BatchNorm.forward in training    *)
(* mode (running_mean, running_var); ActNorm.forward on its first          *)
(* training-mode pass (log_scale, shift, initialized).  Linear caches are  *)
(* not part of the state dict.  Nothing else writes.                       *)
(***************************************************************************)
EXTENDS Integers, FiniteSets, TLC

\* a model kind: which operations it offers and which stateful layers it contains
Kinds ==
  { [ops |-> o, bn |-> b, an |-> a] :
      o \in { {"forward"}, {"forward", "inverse"},
              {"log_prob"}, {"log_prob", "sample", "sample_and_log_prob"},
              {"log_prob", "sample", "sample_and_log_prob", "transform_to_noise"} },
      b \in BOOLEAN, a \in BOOLEAN }

\* "nograd": a plain input, the call made under torch.no_grad() (inference)
\* "shape2": the same values with another event shape (for elementwise transforms that take any shape)
\* "wide": the same values in a wider floating-point type than the model's (float64 data, float32 model)
InputKinds == {"plain", "view", "noncontig", "grad", "nograd", "shape2", "wide"}
\* operations that run the transform in the data -> noise direction
ForwardLike == {"forward", "log_prob", "transform_to_noise"}

VARIABLES kind, mode, anInit, seen, frozen, res
vars == <<kind, mode, anInit, seen, frozen, res>>

Init ==
  /\ kind \in Kinds
  /\ mode = "train"                \* nn.Module default
  /\ anInit \in (IF kind.an THEN BOOLEAN ELSE {TRUE})   \* sessions may start before or after the data-dependent init
  /\ seen = {}
  /\ frozen = FALSE
  /\ res = [a |-> "init"]

\* nn.Module.train(mode) is recursive: it also ends a freeze
Train == /\ mode' = "train" /\ seen' = {} /\ frozen' = FALSE /\ res' = [a |-> "Train"] /\ UNCHANGED <<kind, anInit>>
Eval == /\ mode' = "eval" /\ seen' = {} /\ frozen' = FALSE /\ res' = [a |-> "Eval"] /\ UNCHANGED <<kind, anInit>>
\* fine-tuning practice: the batch-norm style sub-modules are put in evaluation mode (their running
\* statistics are frozen) while the model as a whole stays in training mode
Freeze == /\ kind.bn /\ mode = "train"
          /\ frozen' = TRUE /\ seen' = {} /\ res' = [a |-> "Freeze"] /\ UNCHANGED <<kind, mode, anInit>>

\* state-dict categories a call may write in the current state.  Running statistics of batch-norm
\* style layers (also those inside conditioner networks, which every operation runs) may move in
\* training mode; the data-dependent initialisation only on a data -> noise pass.
\* The mode flag of a (sub-)module ("mode_flag") is state too: no call may change it.
AllowedWrites(op) ==
  (IF mode = "train" /\ kind.bn /\ ~frozen THEN {"bn_running"} ELSE {})
  \cup
  (IF mode = "train" /\ kind.an /\ ~anInit /\ op \in ForwardLike THEN {"an_init"} ELSE {})

\* a repeated call must be bit-identical iff nothing the function depends on changed since
MustRepeat(op) == mode = "eval" /\ op \in seen

Call(op, ik) ==
  /\ op \in kind.ops
  /\ LET w == AllowedWrites(op) IN
       /\ res' = [a |-> "Call", op |-> op, ik |-> ik, mayWrite |-> w, mustRepeat |-> MustRepeat(op)]
       /\ anInit' = (anInit \/ "an_init" \in w)
       /\ seen' = IF w = {} THEN seen \cup {op} ELSE {}
  /\ UNCHANGED <<kind, mode, frozen>>

\* optimiser step: writes parameters, only meaningful in training mode
TrainStep ==
  /\ mode = "train"
  /\ seen' = {} /\ res' = [a |-> "TrainStep"]
  /\ UNCHANGED <<kind, mode, anInit, frozen>>

\* state dict saved and loaded into a freshly constructed model of the same configuration
\* built under a different random seed; the fresh model starts in training mode
SaveLoadFresh ==
  /\ mode' = "train" /\ seen' = {} /\ frozen' = FALSE
  /\ res' = [a |-> "SaveLoadFresh", mustBeSameFunction |-> TRUE]
  /\ UNCHANGED <<kind, anInit>>

\* the session continues with a copy of the model (copy.deepcopy, or torch.save / torch.load of the whole
\* module): modes, freezes, the initialisation flag and the function all travel with the object; no
\* repetition is owed across the two objects
Clone(how) ==
  /\ how \in {"deepcopy", "pickle"}
  /\ seen' = {} /\ res' = [a |-> "Clone", how |-> how, mustBeSameFunction |-> TRUE]
  /\ UNCHANGED <<kind, mode, anInit, frozen>>

Next ==
  \/ Train \/ Eval \/ Freeze \/ TrainStep \/ SaveLoadFresh
  \/ \E how \in {"deepcopy", "pickle"} : Clone(how)
  \/ \E op \in {"forward", "inverse", "log_prob", "sample", "sample_and_log_prob", "transform_to_noise"},
        ik \in InputKinds : Call(op, ik)

Spec == Init /\ [][Next]_vars

-----------------------------------------------------------------------------
TypeOK ==
  /\ kind \in Kinds /\ mode \in {"train", "eval"} /\ anInit \in BOOLEAN /\ seen \subseteq kind.ops
  /\ frozen \in BOOLEAN /\ (frozen => mode = "train" /\ kind.bn)

\* C13: evaluation mode never writes; training mode writes only the documented statistics
EvalIsPure == [][(res'.a = "Call" /\ mode = "eval") => res'.mayWrite = {}]_vars
OnlyDocumentedWriters ==
  [][res'.a = "Call" => res'.mayWrite \subseteq {"bn_running", "an_init"}]_vars
\* frozen statistics stay frozen; no call flips a mode flag
FrozenIsPure == [][(res'.a = "Call" /\ frozen) => "bn_running" \notin res'.mayWrite]_vars
ModesArePreserved == [][res'.a = "Call" => "mode_flag" \notin res'.mayWrite]_vars
InverseNeverInitialises ==
  [][(res'.a = "Call" /\ res'.op \in {"inverse", "sample", "sample_and_log_prob"}) => "an_init" \notin res'.mayWrite]_vars
\* data-dependent initialisation is permitted at most once per session (C14 link)
InitOnce == [][(res'.a = "Call" /\ "an_init" \in res'.mayWrite) => (~anInit /\ anInit')]_vars
\* C15: the initialisation flag survives a reload
ReloadKeepsInit == [][res'.a = "SaveLoadFresh" => anInit' = anInit]_vars
\* a copy is in the state its original is in
CloneKeepsState == [][res'.a = "Clone" => (mode' = mode /\ anInit' = anInit /\ frozen' = frozen)]_vars

View == <<kind, mode, anInit, seen, frozen>>
=============================================================================
