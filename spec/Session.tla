------------------------------ MODULE Session ------------------------------
(***************************************************************************)
(* A user session with one nflows model (transform, distribution or flow): *)
(* mode switches, calls of the public API with caller-owned tensors,       *)
(* optimiser steps, and saving + reloading into a freshly constructed      *)
(* model.  The specification states which part of the persistent state    *)
(* each step may write (C13), when a repeated call must reproduce its      *)
(* earlier result (C13), and that a reload preserves the function (C15).   *)
(*                                                                         *)
(* Documented writers (normalization.py): BatchNorm.forward in training    *)
(* mode (running_mean, running_var); ActNorm.forward on its first          *)
(* training-mode pass (log_scale, shift, initialized).  Linear caches are  *)
(* not part of the state dict.  Nothing else writes.                       *)
(***************************************************************************)
EXTENDS Integers, FiniteSets, TLC

\* a model kind: which operations it offers and which stateful layers it contains
Kinds ==
  { [ops |-> o, bn |-> b, an |-> a] :
      o \in { {"forward"}, {"forward", "inverse"},
              {"log_prob"}, {"log_prob", "sample", "sample_and_log_prob"},
              {"log_prob", "sample", "sample_and_log_prob", "transform_to_noise"} },
      b \in BOOLEAN, a \in BOOLEAN }

InputKinds == {"plain", "view", "noncontig", "grad"}
\* operations that run the transform in the data -> noise direction
ForwardLike == {"forward", "log_prob", "transform_to_noise"}

VARIABLES kind, mode, anInit, seen, res
vars == <<kind, mode, anInit, seen, res>>

Init ==
  /\ kind \in Kinds
  /\ mode = "train"                \* nn.Module default
  /\ anInit \in (IF kind.an THEN BOOLEAN ELSE {TRUE})   \* sessions may start before or after the data-dependent init
  /\ seen = {}
  /\ res = [a |-> "init"]

Train == /\ mode' = "train" /\ seen' = {} /\ res' = [a |-> "Train"] /\ UNCHANGED <<kind, anInit>>
Eval == /\ mode' = "eval" /\ seen' = {} /\ res' = [a |-> "Eval"] /\ UNCHANGED <<kind, anInit>>

\* state-dict categories a call may write in the current state.  Running statistics of batch-norm
\* style layers (also those inside conditioner networks, which every operation runs) may move in
\* training mode; the data-dependent initialisation only on a data -> noise pass.
AllowedWrites(op) ==
  (IF mode = "train" /\ kind.bn THEN {"bn_running"} ELSE {})
  \cup
  (IF mode = "train" /\ kind.an /\ ~anInit /\ op \in ForwardLike THEN {"an_init"} ELSE {})

\* a repeated call must be bit-identical iff nothing the function depends on changed since
MustRepeat(op) == mode = "eval" /\ op \in seen

Call(op, ik) ==
  /\ op \in kind.ops
  /\ LET w == AllowedWrites(op) IN
       /\ res' = [a |-> "Call", op |-> op, ik |-> ik, mayWrite |-> w, mustRepeat |-> MustRepeat(op)]
       /\ anInit' = (anInit \/ "an_init" \in w)
       /\ seen' = IF w = {} THEN seen \cup {op} ELSE {}
  /\ UNCHANGED <<kind, mode>>

\* optimiser step: writes parameters, only meaningful in training mode
TrainStep ==
  /\ mode = "train"
  /\ seen' = {} /\ res' = [a |-> "TrainStep"]
  /\ UNCHANGED <<kind, mode, anInit>>

\* state dict saved and loaded into a freshly constructed model of the same configuration
\* built under a different random seed; the fresh model starts in training mode
SaveLoadFresh ==
  /\ mode' = "train" /\ seen' = {}
  /\ res' = [a |-> "SaveLoadFresh", mustBeSameFunction |-> TRUE]
  /\ UNCHANGED <<kind, anInit>>

Next ==
  \/ Train \/ Eval \/ TrainStep \/ SaveLoadFresh
  \/ \E op \in {"forward", "inverse", "log_prob", "sample", "sample_and_log_prob", "transform_to_noise"},
        ik \in InputKinds : Call(op, ik)

Spec == Init /\ [][Next]_vars

-----------------------------------------------------------------------------
TypeOK ==
  /\ kind \in Kinds /\ mode \in {"train", "eval"} /\ anInit \in BOOLEAN /\ seen \subseteq kind.ops

\* C13: evaluation mode never writes; training mode writes only the documented statistics
EvalIsPure == [][(res'.a = "Call" /\ mode = "eval") => res'.mayWrite = {}]_vars
OnlyDocumentedWriters ==
  [][res'.a = "Call" => res'.mayWrite \subseteq {"bn_running", "an_init"}]_vars
InverseNeverInitialises ==
  [][(res'.a = "Call" /\ res'.op \in {"inverse", "sample", "sample_and_log_prob"}) => "an_init" \notin res'.mayWrite]_vars
\* data-dependent initialisation is permitted at most once per session (C14 link)
InitOnce == [][(res'.a = "Call" /\ "an_init" \in res'.mayWrite) => (~anInit /\ anInit')]_vars
\* C15: the initialisation flag survives a reload
ReloadKeepsInit == [][res'.a = "SaveLoadFresh" => anInit' = anInit]_vars

View == <<kind, mode, anInit, seen>>
=============================================================================
