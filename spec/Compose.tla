------------------------------ MODULE Compose ------------------------------
(***************************************************************************)
(* Denotation of nestings of CompositeTransform / InverseTransform over    *)
(* atoms (nflows/transforms/base.py): a program denotes, per direction,    *)
(* the sequence of <<atom, direction>> applications it performs; its       *)
(* log-abs-det is the sum over that sequence.                              *)
(*   CompositeTransform.forward : parts in the order given                 *)
(*   CompositeTransform.inverse : parts' inverses in reverse order         *)
(*   InverseTransform           : swaps the two directions                 *)
(* Programs are enumerated up to a nesting depth; an atom may occur more   *)
(* than once in a program (the same transform object used twice).          *)
(***************************************************************************)
EXTENDS Integers, Sequences, FiniteSets, TLC

CONSTANTS NumAtoms, Depth, MaxParts

Atom(k) == [t |-> "atom", k |-> k]
Inv(p) == [t |-> "inv", p |-> p]
Comp(ps) == [t |-> "comp", ps |-> ps]

RECURSIVE Terms(_)
Terms(d) ==
  IF d = 0 THEN {Atom(k) : k \in 1..NumAtoms}
  ELSE LET S == Terms(d - 1) IN
       S \cup {Inv(p) : p \in S}
         \cup UNION {{Comp(ps) : ps \in [1..n -> S]} : n \in 1..MaxParts}

Flip(dir) == IF dir = "fwd" THEN "inv" ELSE "fwd"

RECURSIVE Concat(_, _)
Concat(f, n) == IF n = 0 THEN <<>> ELSE Concat(f, n - 1) \o f[n]

Reverse(s) == [i \in 1..Len(s) |-> s[Len(s) + 1 - i]]

\* the sequence of atom applications performed by program p run in direction dir
RECURSIVE Den(_, _)
Den(p, dir) ==
  CASE p.t = "atom" -> << <<p.k, dir>> >>
    [] p.t = "inv"  -> Den(p.p, Flip(dir))
    [] p.t = "comp" ->
         LET n == Len(p.ps) IN
         IF dir = "fwd"
         THEN Concat([i \in 1..n |-> Den(p.ps[i], "fwd")], n)
         ELSE Concat([i \in 1..n |-> Den(p.ps[n + 1 - i], "inv")], n)

VARIABLES prog, fwd, inv
vars == <<prog, fwd, inv>>

Init == prog \in Terms(Depth) /\ fwd = Den(prog, "fwd") /\ inv = Den(prog, "inv")
Next == UNCHANGED vars
Spec == Init /\ [][Next]_vars

FlipAll(s) == [i \in 1..Len(s) |-> <<s[i][1], Flip(s[i][2])>>]

\* the inverse applies the parts' inverses in the reverse order
InverseReverses == inv = Reverse(FlipAll(fwd))
\* wrapping as an inverse swaps the two directions exactly
InvSwaps == Den(Inv(prog), "fwd") = inv /\ Den(Inv(prog), "inv") = fwd
\* a composite of one program is that program; composition is associative on denotations
CompOfOne == Den(Comp(<<prog>>), "fwd") = fwd /\ Den(Comp(<<prog>>), "inv") = inv
OrderPreserved == prog.t = "comp" =>
   fwd = Concat([i \in 1..Len(prog.ps) |-> Den(prog.ps[i], "fwd")], Len(prog.ps))
\* running a program and then its inverse cancels pairwise from the middle outwards
RoundTripCancels ==
   LET s == fwd \o inv IN
   \A i \in 1..Len(fwd) : s[Len(fwd) + 1 - i][1] = s[Len(fwd) + i][1] /\ s[Len(fwd) + 1 - i][2] # s[Len(fwd) + i][2]
\* every atom occurrence is applied exactly once per direction (log-det sum has one term each)
Occurrences(p) == Len(Den(p, "fwd"))
LogDetTermsOnce == Len(fwd) = Len(inv)
=============================================================================
