----------------------------- MODULE TraceMade -----------------------------
(***************************************************************************)
(* Trace validation for Made: every MADE network built by the real code    *)
(* (both copies, sequential and random masks) is logged as its sequence of *)
(* MaskedLinear layers (kind, degrees buffer, mask buffer) plus the        *)
(* dependency pattern measured on the real function with all-ones weights. *)
(* A network is accepted iff its construction is a behaviour of Made!Spec  *)
(* - for random masks: the observed draw is one the specification allows - *)
(* and the logged masks and dependency pattern are the specification's.    *)
(* `verdict` records the first clause that fails.                          *)
(***************************************************************************)
EXTENDS Made, Json, IOUtils

Batch == JsonDeserialize(IOEnv.TRACE_FILE)
Nets == Batch.nets

VARIABLES tid, l, verdict
tvars == <<vars, tid, l, verdict>>

N == Nets[tid]
L == N.layers

TInit ==
  /\ tid \in 1..Len(Nets)
  /\ l = 0 /\ verdict = "ok"
  /\ Init

\* l = 0: configuration; 1..Len(L): layers; Len(L)+1: dependency pattern
StepCfg ==
  /\ l = 0 /\ Configure(N.cfg)
  /\ l' = 1 /\ UNCHANGED <<tid, verdict>>

Bad(v) == verdict' = (IF verdict = "ok" THEN v ELSE verdict)

StepLayer ==
  /\ l >= 1 /\ l <= Len(L) /\ verdict = "ok"
  /\ LET e == L[l] IN
       \/ /\ e.kind = "initial" /\ Initial(e.degs)
          /\ (IF layers'[Len(layers')].mask = e.mask THEN UNCHANGED verdict ELSE Bad("mask_differs"))
       \/ /\ e.kind = "ff" /\ BlockFF(e.degs)
          /\ (IF layers'[Len(layers')].mask = e.mask THEN UNCHANGED verdict ELSE Bad("mask_differs"))
       \/ /\ e.kind = "res0" /\ BlockRes     \* consumes the two layers of a residual block
          /\ (IF /\ l + 1 <= Len(L) /\ L[l + 1].kind = "res1"
                 /\ layers'[Len(layers') - 1].degs = e.degs /\ layers'[Len(layers') - 1].mask = e.mask
                 /\ layers'[Len(layers')].degs = L[l + 1].degs /\ layers'[Len(layers')].mask = L[l + 1].mask
              THEN UNCHANGED verdict ELSE Bad("residual_block_differs"))
       \/ /\ e.kind = "final" /\ Final
          /\ (IF layers'[Len(layers')].degs = e.degs /\ layers'[Len(layers')].mask = e.mask
              THEN UNCHANGED verdict ELSE Bad("final_layer_differs"))
  /\ l' = (IF L[l].kind = "res0" THEN l + 2 ELSE l + 1)
  /\ tid' = tid

\* a logged layer that is not an enabled step of the specification (e.g. a degree draw outside the
\* allowed range)
StepRejected ==
  /\ l >= 1 /\ l <= Len(L) /\ verdict = "ok"
  /\ ~ENABLED StepLayer
  /\ verdict' = "layer_not_allowed" /\ UNCHANGED <<vars, tid, l>>

Pattern == [o \in DOMAIN reach |-> [j \in 1..cfg.D |-> IF j \in reach[o] THEN 1 ELSE 0]]

StepDeps ==
  /\ l = Len(L) + 1 /\ phase = "done" /\ verdict = "ok"
  /\ verdict' = (IF N.deps = Pattern THEN "ok" ELSE "dependency_pattern_differs")
  /\ l' = l + 1 /\ UNCHANGED <<vars, tid>>

Finished == (l = Len(L) + 2 \/ verdict # "ok") /\ UNCHANGED tvars

TNext == StepCfg \/ StepLayer \/ StepRejected \/ StepDeps \/ Finished
TSpec == TInit /\ [][TNext]_tvars

\* the property on every network that was accepted step by step
TAutoregressive == Autoregressive
=============================================================================
