---------------------------- MODULE BatchIndep ----------------------------
(***************************************************************************)
(* Batch independence (C12).  Two parts:                                   *)
(* (1) batch compositions: a batch is a sequence of distinct rows drawn    *)
(*     from a pool; a row-local function evaluated on any composition      *)
(*     returns, at position k, the result of its k-th row alone.  TLC      *)
(*     enumerates every composition (every subset in every order) - the    *)
(*     harness evaluates each on the real code.                            *)
(* (2) the reshape / permute pipelines of the image code paths as          *)
(*     Tensor.tla views: provenance of every output element stays inside   *)
(*     its own batch item.                                                 *)
(*       conv.py OneByOneConvolution._lu_forward_inverse                   *)
(*         x.permute(0,2,3,1).reshape(b*h*w, c) -> rows mixed over c only  *)
(*         -> reshape(b,h,w,c).permute(0,3,1,2); logabsdet.reshape(b,h,w)  *)
(*       coupling.py PiecewiseCouplingTransform._coupling_transform        *)
(*         params.reshape(b, c, -1, h, w).permute(0,1,3,4,2)               *)
(*       normalization.py ActNorm._initialize (training only)              *)
(***************************************************************************)
EXTENDS Tensor, TLC

CONSTANTS PoolSize, MaxB, MaxC, MaxH, MaxW, MaxM

VARIABLES kind, comp, dims, ok
vars == <<kind, comp, dims, ok>>

RECURSIVE Perms(_)
Perms(S) == IF S = {} THEN {<<>>} ELSE UNION {{<<x>> \o p : p \in Perms(S \ {x})} : x \in S}
Compositions == UNION {Perms(S) : S \in {S \in SUBSET (1..PoolSize) : S # {} /\ Cardinality(S) <= MaxB}}

BatchOf(f, s) == Unflat(f, s)[1]      \* batch index of a flat element of a tensor of shape s

\* 1x1 convolution path: which input elements each output element is computed from
ConvRowLocal(b, c, h, w) ==
  LET s == <<b, c, h, w>>
      x == Ident(s)
      rows == Reshape(Permute(x, <<1, 3, 4, 2>>), <<b * h * w, c>>)    \* [b*h*w, c]
      \* the linear map mixes the c entries of one row: output (r, j) depends on row r
      back == Permute(Reshape(rows, <<b, h, w, c>>), <<1, 4, 2, 3>>)   \* position of (r, j) in the output
  IN \A f \in 0..(Prod(s) - 1) :
        \* output element f took the place of source element back.src[f]; its row is r = position in rows
        LET r == (CHOOSE k \in 0..(Prod(s) - 1) : rows.src[k] = back.src[f]) \div c
            deps == {rows.src[r * c + j] : j \in 0..(c - 1)}
        IN \A d \in deps : BatchOf(d, s) = BatchOf(f, s)
\* ... and the per-row log-det of row r belongs to batch item r div (h*w)
ConvLogdetLocal(b, c, h, w) ==
  LET s == <<b, c, h, w>>
      rows == Reshape(Permute(Ident(s), <<1, 3, 4, 2>>), <<b * h * w, c>>)
  IN \A r \in 0..(b * h * w - 1) : BatchOf(rows.src[r * c], s) = r \div (h * w)

\* piecewise coupling on images: parameters of element (b, c, h, w) are conditioner outputs
\* (b, c*m .. c*m + m - 1, h, w)
CouplingParamsLocal(b, c, h, w, m) ==
  LET ps == <<b, c * m, h, w>>
      p == Permute(Reshape(Ident(ps), <<b, c, m, h, w>>), <<1, 2, 4, 5, 3>>)     \* [b, c, h, w, m]
  IN \A f \in 0..(Prod(ps) - 1) :
        LET ix == Unflat(f, p.shape)
            src == Unflat(p.src[f], ps)
        IN /\ src[1] = ix[1] /\ src[3] = ix[3] /\ src[4] = ix[4]
           /\ src[2] = ix[2] * m + ix[5]

Init ==
  \/ /\ kind = "composition" /\ comp \in Compositions /\ dims = <<>> /\ ok = TRUE
  \/ /\ kind = "conv" /\ comp = <<>>
     /\ dims \in {<<b, c, h, w>> : b \in 1..MaxB, c \in 1..MaxC, h \in 1..MaxH, w \in 1..MaxW}
     /\ ok = (ConvRowLocal(dims[1], dims[2], dims[3], dims[4]) /\ ConvLogdetLocal(dims[1], dims[2], dims[3], dims[4]))
  \/ /\ kind = "coupling_params" /\ comp = <<>>
     /\ dims \in {<<b, c, h, w, m>> : b \in 1..MaxB, c \in 1..2, h \in 1..MaxH, w \in 1..MaxW, m \in 1..MaxM}
     /\ ok = CouplingParamsLocal(dims[1], dims[2], dims[3], dims[4], dims[5])
Next == UNCHANGED vars
Spec == Init /\ [][Next]_vars

RowLocal == ok
\* a composition never repeats a row and never is empty (the batch-size-one case is included)
CompositionsWellFormed ==
  kind = "composition" => (Len(comp) >= 1 /\ \A i, j \in 1..Len(comp) : i # j => comp[i] # comp[j])
=============================================================================
