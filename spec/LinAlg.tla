------------------------------ MODULE LinAlg ------------------------------
(***************************************************************************)
(* Exact model of the linear-family parameterisations (C11):               *)
(*   LULinear   W = L U, L unit lower triangular, U upper with diagonal    *)
(*              d_i = softplus(.) + eps > 0      (lu.py)                   *)
(*   QRLinear   W = Q R, R upper with diagonal exp(.) > 0,                 *)
(*              Q = H(q_K) ... H(q_1)            (qr.py, orthogonal.py)    *)
(*   SVDLinear  W = P1^T diag(s) P2^T, P = H(q_1) ... H(q_K)  (svd.py)     *)
(*   NaiveLinear W itself                        (linear.py)               *)
(*   HouseholderSequence: forward multiplies rows by P = H(q_1)...H(q_K),  *)
(*              matrix() is P^T, initial vectors are pairs of unit vectors *)
(* On a lattice of integer / rational parameters the accessors weight(),   *)
(* weight_inverse(), logabsdet() and forward / inverse have exact values.  *)
(***************************************************************************)
EXTENDS RatLin, TLC

CONSTANTS MaxD, MaxK, Rich

VARIABLES par, W, Winv, absdet, ortho
vars == <<par, W, Winv, absdet, ortho>>

\* ---- parameter lattices
LowerEntries(n) ==   \* tril_indices(k=-1) order: (2,1), (3,1), (3,2)
  CASE n = 1 -> {<<>>} [] n = 2 -> {<<0>>, <<2>>, <<-1>>}
    [] n = 3 -> IF Rich THEN {<<0, 0, 0>>, <<1, -1, 2>>, <<2, 0, -1>>} ELSE {<<0, 0, 0>>, <<1, -1, 2>>}
Diags(n) ==
  \* (2000 and 1/500: diagonal entries whose logarithm (7.6, -6.2) is beyond any "safe" range a
  \* parameterisation might clamp to; one feature only - products stay inside TLC's integers)
  CASE n = 1 -> {<<One>>, <<Half>>, <<R(2000, 1)>>, <<R(1, 500)>>} [] n = 2 -> {<<One, One>>, <<Two, Half>>}
    [] n = 3 -> {<<One, One, One>>, <<Two, Half, R(3, 1)>>}
QVecs(n) ==          \* Householder vectors (non-zero, different norms)
  CASE n = 1 -> {<<1>>, <<-2>>}
    [] n = 2 -> {<<1, 0>>, <<1, 1>>, <<2, -1>>}
    [] n = 3 -> {<<1, 0, 0>>, <<1, 1, 0>>, <<1, -2, 2>>}
QSeqs(n, k) == [1..k -> QVecs(n)]
Biases(n) == {[i \in 1..n |-> R(i - 2, 2)]}

Lower(n, e) ==
  [i \in 1..n |-> [j \in 1..n |-> IF i = j THEN One ELSE IF j > i THEN Zero
                                   ELSE FromInt(e[((i - 1) * (i - 2)) \div 2 + j])]]
Upper(n, e, d) ==    \* triu_indices(k=1) order: (1,2), (1,3), (2,3)
  [i \in 1..n |-> [j \in 1..n |-> IF i = j THEN d[i] ELSE IF j < i THEN Zero
                                   ELSE FromInt(e[(i - 1) * n - ((i - 1) * i) \div 2 + (j - i)])]]
QOf(n, qs) == HProd([k \in 1..Len(qs) |-> IntVec(qs[k])], Len(qs), n)    \* P = H(q_1) ... H(q_K)

\* HouseholderSequence.__init__: pairs of unit vectors (each pair cancels), one extra for odd K
InitQ(n, k) ==
  [r \in 1..k |-> [c \in 1..n |->
      LET idx == IF r <= 2 * (k \div 2) THEN (r - 1) \div 2 ELSE k \div 2   \* 0-based unit vector index
      IN IF c - 1 = idx % n THEN 1 ELSE 0]]

Params ==
  UNION {
       {[cls |-> "LU", n |-> n, lo |-> lo, up |-> up, d |-> d, b |-> b] :
           lo \in LowerEntries(n), up \in LowerEntries(n), d \in Diags(n), b \in Biases(n)}
  \cup {[cls |-> "QR", n |-> n, up |-> up, d |-> d, qs |-> qs, b |-> b] :
           up \in LowerEntries(n), d \in Diags(n), b \in Biases(n), qs \in UNION {QSeqs(n, k) : k \in 1..(IF Rich THEN 3 ELSE 2)}}
  \cup {[cls |-> "SVD", n |-> n, d |-> d, q1 |-> q1, q2 |-> q2, b |-> b] :
           d \in Diags(n), b \in Biases(n), q1 \in QSeqs(n, 2), q2 \in QSeqs(n, 2)}
  \cup {[cls |-> "Naive", n |-> n, lo |-> lo, up |-> up, d |-> d, b |-> b] :
           lo \in LowerEntries(n), up \in LowerEntries(n), d \in Diags(n), b \in Biases(n)}
  \* (in two dimensions also four reflections: more reflections than features, and a product - a rotation -
  \* that is not symmetric, so P and its transpose differ)
  \cup {[cls |-> "Householder", n |-> n, qs |-> qs] : qs \in UNION {QSeqs(n, k) : k \in (1..(IF Rich THEN 3 ELSE 2)) \cup (IF n = 2 THEN {4} ELSE {})}}
  \cup {[cls |-> "HouseholderInit", n |-> n, qs |-> InitQ(n, k)] : k \in 1..MaxK}
     : n \in 1..MaxD}

WeightOf(p) ==
  CASE p.cls \in {"LU", "Naive"} -> MatMul(Lower(p.n, p.lo), Upper(p.n, p.up, p.d))
    [] p.cls = "QR" -> MatMul(Transpose(QOf(p.n, p.qs)), Upper(p.n, p.up, p.d))
    [] p.cls = "SVD" -> MatMul(MatMul(Transpose(QOf(p.n, p.q1)), Diag(p.d)), Transpose(QOf(p.n, p.q2)))
    [] p.cls \in {"Householder", "HouseholderInit"} -> Transpose(QOf(p.n, p.qs))   \* matrix()
InverseOf(p) ==
  CASE p.cls \in {"LU", "Naive"} -> MatMul(UpperInverse(Upper(p.n, p.up, p.d)), LowerInverse(Lower(p.n, p.lo)))
    [] p.cls = "QR" -> MatMul(UpperInverse(Upper(p.n, p.up, p.d)), QOf(p.n, p.qs))
    [] p.cls = "SVD" -> MatMul(MatMul(QOf(p.n, p.q2), Diag([i \in 1..p.n |-> Inv(p.d[i])])), QOf(p.n, p.q1))
    [] p.cls \in {"Householder", "HouseholderInit"} -> QOf(p.n, p.qs)
AbsDetOf(p) == IF p.cls \in {"Householder", "HouseholderInit"} THEN One ELSE RProd(p.d)

Init ==
  /\ par \in Params
  /\ W = WeightOf(par) /\ Winv = InverseOf(par) /\ absdet = AbsDetOf(par)
  /\ ortho = (par.cls \in {"Householder", "HouseholderInit"})
Next == UNCHANGED vars
Spec == Init /\ [][Next]_vars

\* ---- C11 on the model
InverseIsInverse == MatMul(W, Winv) = Id(par.n) /\ MatMul(Winv, W) = Id(par.n)
LogAbsDetIsDet == RAbs(Det(W)) = absdet
Orthogonal == ortho => MatMul(W, Transpose(W)) = Id(par.n)
\* the pairs of the initial Householder vectors cancel: identity for even K, one reflection for odd K
InitIsIdentityOrReflection ==
  par.cls = "HouseholderInit" =>
     IF Len(par.qs) % 2 = 0 THEN W = Id(par.n) ELSE MatMul(W, W) = Id(par.n)
Usable == \A k \in 1..Len(IF "qs" \in DOMAIN par THEN par.qs ELSE <<>>) : \E c \in 1..par.n : par.qs[k][c] # 0
=============================================================================
