------------------------------- MODULE Dist -------------------------------
(***************************************************************************)
(* Base distributions of nflows.distributions (C05): what can be decided   *)
(* exactly is decided here - Bernoulli masses as exact rational sums over  *)
(* {0,1}^D, the integer matrices of the MG1 prior, mixture weights, the    *)
(* number of (1/2) log 2 pi units and log-sigma terms of the Gaussian      *)
(* family for every event shape, the kernel-density normaliser - and the   *)
(* cases (class x event shape x parameter lattice x context rows) whose    *)
(* densities the harness integrates by quadrature, as the property itself  *)
(* prescribes.  Gaussian normalisation (integral of exp(-x^2/2) = sqrt(2   *)
(* pi)) is a stated fact.                                                  *)
(***************************************************************************)
EXTENDS RatLin, FiniteSets, TLC

VARIABLES cls, par, facts
vars == <<cls, par, facts>>

CONSTANT Deep      \* thorough tier: more probabilities, shapes, sizes
PLat == IF Deep THEN {R(1, 8), R(1, 4), Half, R(3, 4), R(7, 8)} ELSE {R(1, 4), Half, R(3, 4)}
\* all 0/1 vectors of length n
Bits(n) == [1..n -> {0, 1}]
BernoulliMass(p, x) == RProd([i \in 1..Len(p) |-> IF x[i] = 1 THEN p[i] ELSE Sub(One, p[i])])
RECURSIVE BernTotal(_, _)
BernTotal(p, S) ==
  IF S = {} THEN Zero
  ELSE LET x == CHOOSE x \in S : TRUE IN Add(BernoulliMass(p, x), BernTotal(p, S \ {x}))

RECURSIVE ProdShapeR(_)
ProdShapeR(s) == IF s = <<>> THEN 1 ELSE Head(s) * ProdShapeR(Tail(s))

\* MG1Uniform (uniform.py): parameters = noise @ A_inv, noise = parameters @ A
MG1A == IntMat(<< <<1, -1, 0>>, <<0, 1, 0>>, <<0, 0, 1>> >>)
MG1Ainv == IntMat(<< <<1, 1, 0>>, <<0, 1, 0>>, <<0, 0, 1>> >>)

EventShapes == {<<1>>, <<2>>, <<3>>, <<2, 2>>, <<2, 3>>} \cup (IF Deep THEN {<<4>>, <<1, 1>>, <<3, 2>>, <<2, 2, 2>>, <<1, 2, 1>>} ELSE {})

Cases ==
       {[c |-> "Bernoulli", p |-> p] : p \in UNION {[1..n -> PLat] : n \in 1..(IF Deep THEN 4 ELSE 3)}}
  \cup {[c |-> "Gaussian", shape |-> s, conditional |-> b, rows |-> r] : s \in EventShapes, b \in BOOLEAN, r \in 1..(IF Deep THEN 3 ELSE 2)}
  \cup {[c |-> "MG1"]}
  \cup {[c |-> "Mixture", w |-> w] : w \in {<<1>>, <<1, 1>>, <<1, 3>>, <<2, 1, 1>>}}
  \cup {[c |-> "KDE", n |-> n, d |-> d] : n \in (IF Deep THEN {1, 2, 3, 5, 9} ELSE {1, 2, 5}), d \in 1..2}
  \cup {[c |-> "MoG", d |-> d, k |-> k, rows |-> r] : d \in 1..2, k \in 1..3, r \in 0..(IF Deep THEN 3 ELSE 2)}
  \* three features, where the hidden degrees of a feed-forward network with random masks differ from layer to layer
  \* (the density is a product of conditionals only if every layer respects them)
  \cup {[c |-> "MoG3", k |-> k, arch |-> a, draw |-> w] : k \in 1..2, a \in {"residual", "feedforward", "feedforward_random"}, w \in 1..(IF Deep THEN 4 ELSE 2)}
  \cup {[c |-> "Box"], [c |-> "LotkaVolterra"]}

FactsOf(x) ==
  CASE x.c = "Bernoulli" ->
         [total |-> BernTotal(x.p, Bits(Len(x.p))), mean |-> x.p]
    [] x.c = "Gaussian" ->
         \* log p = -1/2 |z|^2 - sum(log sigma) - units * 1/2 log(2 pi), one unit and one log-sigma
         \* term per element of the event
         [units |-> ProdShapeR(x.shape), sigmaTerms |-> ProdShapeR(x.shape), meanShape |-> x.shape]
    [] x.c = "MG1" -> [ainv |-> MatMul(MG1A, MG1Ainv), det |-> Det(MG1A)]
    [] x.c = "Mixture" ->
         LET S == RSum([i \in 1..Len(x.w) |-> FromInt(x.w[i])])
         IN [total |-> RSum([i \in 1..Len(x.w) |-> Div(FromInt(x.w[i]), S)])]
    [] x.c = "KDE" -> [units |-> x.d, logStdTerms |-> x.d, weights |-> R(1, x.n)]
    [] OTHER -> [numeric |-> TRUE]

Init == \E x \in Cases : cls = x.c /\ par = x /\ facts = FactsOf(x)
Next == UNCHANGED vars
Spec == Init /\ [][Next]_vars

BernoulliNormalised == cls = "Bernoulli" => facts.total = One
MixtureWeightsSumToOne == cls = "Mixture" => facts.total = One
MG1VolumePreserving == cls = "MG1" => (facts.ainv = Id(3) /\ RAbs(facts.det) = One)
GaussianUnits == cls = "Gaussian" => (facts.units = facts.sigmaTerms /\ facts.units >= 1)
KDEUnits == cls = "KDE" => (facts.units = par.d /\ facts.logStdTerms = par.d)
=============================================================================
