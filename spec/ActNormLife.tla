---------------------------- MODULE ActNormLife ----------------------------
(***************************************************************************)
(* Life-cycle of nflows.transforms.normalization.ActNorm (C14, C13, C15):  *)
(* data-dependent initialisation happens exactly once, on the first        *)
(* training-mode forward pass, and never again - whatever mode switches,   *)
(* evaluation calls, inverses and state-dict save/loads surround it.       *)
(* Anchors: normalization.py ActNorm.__init__ (buffer `initialized`),      *)
(* forward (`if self.training and not self.initialized`), _initialize.     *)
(***************************************************************************)
EXTENDS Integers, TLC

CONSTANT NumBatches   \* batch ids 1..NumBatches (2-D and image batches; values live in the harness)

VARIABLES training, initialized, params, res, saved
vars == <<training, initialized, params, res, saved>>

Default == [kind |-> "default"]          \* log_scale = 0, shift = 0
FromBatch(b) == [kind |-> "batch", b |-> b]  \* log_scale = -log std(b), shift = -mean(b / std(b))

Init ==
  /\ training = TRUE /\ initialized = FALSE /\ params = Default
  /\ res = [k |-> "init"]
  /\ saved = [k |-> "none"]

Train == training' = TRUE /\ res' = [k |-> "train"] /\ UNCHANGED <<initialized, params, saved>>
Eval == training' = FALSE /\ res' = [k |-> "eval"] /\ UNCHANGED <<initialized, params, saved>>

Forward(b) ==
  /\ IF training /\ ~initialized
     THEN /\ initialized' = TRUE
          /\ params' = FromBatch(b)
          /\ res' = [k |-> "fwd", b |-> b, didInit |-> TRUE, used |-> FromBatch(b)]
     ELSE /\ res' = [k |-> "fwd", b |-> b, didInit |-> FALSE, used |-> params]
          /\ UNCHANGED <<initialized, params>>
  /\ UNCHANGED <<training, saved>>

Inverse(b) ==
  /\ res' = [k |-> "inv", b |-> b, used |-> params]
  /\ UNCHANGED <<training, initialized, params, saved>>

\* state dict (flag + parameters) saved and loaded into a freshly constructed layer, which
\* starts in training mode with initialized = FALSE before the load
SaveLoadFresh ==
  /\ training' = TRUE
  /\ res' = [k |-> "saveload"]
  /\ UNCHANGED <<initialized, params, saved>>

\* a checkpoint of the live layer (one per history: a restart / cross-validation reset) ...
Save ==
  /\ saved.k = "none"
  /\ saved' = [k |-> "ckpt", initialized |-> initialized, params |-> params]
  /\ res' = [k |-> "save"]
  /\ UNCHANGED <<training, initialized, params>>

\* ... loaded back into the SAME object later on: flag and parameters are those of the checkpoint, the
\* mode is untouched.  Rolling back to an un-initialised checkpoint makes the next training-mode forward
\* initialise again; rolling forward to an initialised one means it never initialises.
LoadSaved ==
  /\ saved.k = "ckpt"
  /\ initialized' = saved.initialized /\ params' = saved.params
  /\ res' = [k |-> "load"]
  /\ UNCHANGED <<training, saved>>

Next ==
  \/ Train \/ Eval \/ SaveLoadFresh \/ Save \/ LoadSaved
  \/ \E b \in 1..NumBatches : Forward(b) \/ Inverse(b)

Spec == Init /\ [][Next]_vars

-----------------------------------------------------------------------------
TypeOK ==
  /\ training \in BOOLEAN /\ initialized \in BOOLEAN
  /\ params \in {Default} \cup {FromBatch(b) : b \in 1..NumBatches}

InitializedIffFromBatch == initialized <=> params # Default

\* (a deliberate roll-back to a checkpoint is the only way out of the initialised state)
InitExactlyOnce == [][(initialized /\ res'.k # "load") => (initialized' /\ params' = params)]_vars

LoadRestoresCheckpoint == [][res'.k = "load" => (initialized' = saved.initialized /\ params' = saved.params /\ training' = training)]_vars

InitOnlyByTrainingForward ==
  [][(~initialized /\ initialized') => (training /\ res'.k = "fwd" /\ res'.didInit)]_vars

\* the batch that triggers initialisation is transformed with its own statistics
FirstBatchNormalised ==
  [][(res'.k = "fwd" /\ res'.didInit) => (res'.used = FromBatch(res'.b) /\ params' = FromBatch(res'.b))]_vars

EvalAndInverseNeverInit ==
  [][(res'.k = "inv" \/ (res'.k = "fwd" /\ ~training)) => (initialized' = initialized /\ params' = params)]_vars

ReloadKeepsState == [][res'.k = "saveload" => (initialized' = initialized /\ params' = params)]_vars
=============================================================================
