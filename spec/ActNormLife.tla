---------------------------- MODULE ActNormLife ----------------------------
(***************************************************************************)
(* Life-cycle of nflows.transforms.normalization.ActNorm (C14, C13, C15):  *)
(* data-dependent initialisation happens exactly once, on the first        *)
(* training-mode forward pass, and never again - whatever mode switches,   *)
(* evaluation calls, inverses and state-dict save/loads surround it.       *)
(* Anchors: normalization.py ActNorm.__init__ (buffer `initialized`),      *)
(* forward (`if self.training and not self.initialized`), _initialize.     *)
(***************************************************************************)
EXTENDS Integers, TLC

CONSTANT NumBatches   \* batch ids 1..NumBatches (2-D and image batches; values live in the harness)

VARIABLES training, initialized, params, res
vars == <<training, initialized, params, res>>

Default == [kind |-> "default"]          \* log_scale = 0, shift = 0
FromBatch(b) == [kind |-> "batch", b |-> b]  \* log_scale = -log std(b), shift = -mean(b / std(b))

Init ==
  /\ training = TRUE /\ initialized = FALSE /\ params = Default
  /\ res = [k |-> "init"]

Train == training' = TRUE /\ res' = [k |-> "train"] /\ UNCHANGED <<initialized, params>>
Eval == training' = FALSE /\ res' = [k |-> "eval"] /\ UNCHANGED <<initialized, params>>

Forward(b) ==
  /\ IF training /\ ~initialized
     THEN /\ initialized' = TRUE
          /\ params' = FromBatch(b)
          /\ res' = [k |-> "fwd", b |-> b, didInit |-> TRUE, used |-> FromBatch(b)]
     ELSE /\ res' = [k |-> "fwd", b |-> b, didInit |-> FALSE, used |-> params]
          /\ UNCHANGED <<initialized, params>>
  /\ UNCHANGED training

Inverse(b) ==
  /\ res' = [k |-> "inv", b |-> b, used |-> params]
  /\ UNCHANGED <<training, initialized, params>>

\* state dict (flag + parameters) saved and loaded into a freshly constructed layer, which
\* starts in training mode with initialized = FALSE before the load
SaveLoadFresh ==
  /\ training' = TRUE
  /\ res' = [k |-> "saveload"]
  /\ UNCHANGED <<initialized, params>>

Next ==
  \/ Train \/ Eval \/ SaveLoadFresh
  \/ \E b \in 1..NumBatches : Forward(b) \/ Inverse(b)

Spec == Init /\ [][Next]_vars

-----------------------------------------------------------------------------
TypeOK ==
  /\ training \in BOOLEAN /\ initialized \in BOOLEAN
  /\ params \in {Default} \cup {FromBatch(b) : b \in 1..NumBatches}

InitializedIffFromBatch == initialized <=> params # Default

InitExactlyOnce == [][initialized => (initialized' /\ params' = params)]_vars

InitOnlyByTrainingForward ==
  [][(~initialized /\ initialized') => (training /\ res'.k = "fwd" /\ res'.didInit)]_vars

\* the batch that triggers initialisation is transformed with its own statistics
FirstBatchNormalised ==
  [][(res'.k = "fwd" /\ res'.didInit) => (res'.used = FromBatch(res'.b) /\ params' = FromBatch(res'.b))]_vars

EvalAndInverseNeverInit ==
  [][(res'.k = "inv" \/ (res'.k = "fwd" /\ ~training)) => (initialized' = initialized /\ params' = params)]_vars

ReloadKeepsState == [][res'.k = "saveload" => (initialized' = initialized /\ params' = params)]_vars
=============================================================================
