------------------------------- MODULE Reload -------------------------------
(***************************************************************************)
(* Checkpoint protocols (C15): every way a state dict travels from a       *)
(* source model into a destination model of the same configuration that    *)
(* was built under another seed.  The function a model computes is a       *)
(* function of its state dict alone - not of what either model did before  *)
(* (cached, memoised or lazily derived quantities), of the mode in which   *)
(* the destination received it, or of the route the state dict took.       *)
(*                                                                         *)
(* One action per user-visible step:                                       *)
(*   source:  Train (optimiser steps / data-dependent initialisation /     *)
(*            statistics), UseSrc (evaluation-mode calls fill caches)      *)
(*   destination, BEFORE the load: EvalFirst (switched to evaluation mode),*)
(*            UseDst(k) (a smoke run: forward-like, inverse-like, under    *)
(*            no_grad) - whatever it derives then is derived from ITS OWN  *)
(*            random parameters                                            *)
(*   Load(route): load_state_dict on the model, through an enclosing       *)
(*            container, or via a plain dict without _metadata             *)
(*   AFTER the load: optionally Train -> Eval again; evaluation-mode use;  *)
(*            conversion to double precision; then Compare (against the    *)
(*            source converted the same way)                               *)
(* `stale` is what a careless implementation would still hold: the set of  *)
(* derived quantities computed from the destination's pre-load parameters. *)
(* The specification (the intended design) drops them at Load.             *)
(***************************************************************************)
EXTENDS Integers, FiniteSets, TLC

Uses == {"fwd", "inv", "nograd"}
Routes == {"direct", "container", "plain_dict"}

CONSTANTS LoadDrops,     \* design switch: TRUE = loading drops what was derived before (the intended design)
          ConvertDrops   \* design switch: TRUE = a dtype conversion drops (or converts) derived tensors

\* usedAfter: evaluation-mode calls made after the load (they derive things from the LOADED parameters, in
\* the precision the model then has); converted: the model was then converted to double precision
VARIABLES phase, srcHist, dstMode, evalFirst, dstUsed, route, retrained, stale, usedAfter, converted, oldDtype, verdict
vars == <<phase, srcHist, dstMode, evalFirst, dstUsed, route, retrained, stale, usedAfter, converted, oldDtype, verdict>>

Init ==
  /\ phase = "source" /\ srcHist = {} /\ dstMode = "train" /\ evalFirst = FALSE /\ dstUsed = {}
  /\ route = "none" /\ retrained = FALSE /\ stale = {} /\ verdict = "none"
  /\ usedAfter = {} /\ converted = FALSE /\ oldDtype = {}

Train == /\ phase = "source" /\ "trained" \notin srcHist /\ srcHist' = srcHist \cup {"trained"}
         /\ UNCHANGED <<phase, dstMode, evalFirst, dstUsed, route, retrained, stale, verdict, usedAfter, converted, oldDtype>>
UseSrc == /\ phase = "source" /\ "used" \notin srcHist /\ srcHist' = srcHist \cup {"used"}
          /\ UNCHANGED <<phase, dstMode, evalFirst, dstUsed, route, retrained, stale, verdict, usedAfter, converted, oldDtype>>
\* fine-tuning practice on the source, before anything else: its parameters are frozen (requires_grad_(False)) while it
\* is used in TRAINING mode, then released again (what it derived while frozen must not outlive the release)
FrozenPhase == /\ phase = "source" /\ srcHist = {} /\ srcHist' = {"frozen_phase"}
               /\ UNCHANGED <<phase, dstMode, evalFirst, dstUsed, route, retrained, stale, verdict, usedAfter, converted, oldDtype>>
BuildDst == /\ phase = "source" /\ phase' = "destination"
            /\ UNCHANGED <<srcHist, dstMode, evalFirst, dstUsed, route, retrained, stale, verdict, usedAfter, converted, oldDtype>>

EvalFirst == /\ phase = "destination" /\ dstMode = "train" /\ dstUsed = {} /\ dstMode' = "eval" /\ evalFirst' = TRUE
             /\ UNCHANGED <<phase, srcHist, dstUsed, route, retrained, stale, verdict, usedAfter, converted, oldDtype>>
\* a smoke run derives things from the destination's own parameters
UseDst(k) == /\ phase = "destination" /\ k \notin dstUsed
             /\ (k = "nograd" => dstMode = "eval")
             /\ dstUsed' = dstUsed \cup {k}
             /\ stale' = stale \cup {k}
             /\ UNCHANGED <<phase, srcHist, dstMode, evalFirst, route, retrained, verdict, usedAfter, converted, oldDtype>>

\* the intended design: loading invalidates everything derived from the old parameters
Load(r) == /\ phase = "destination" /\ route' = r /\ phase' = "loaded"
           /\ stale' = (IF LoadDrops THEN {} ELSE stale)
           /\ UNCHANGED <<srcHist, dstMode, evalFirst, dstUsed, retrained, verdict, usedAfter, converted, oldDtype>>

\* train() then eval() after the load (train() is a documented invalidation point of the weight caches)
Retrain == /\ phase = "loaded" /\ ~retrained /\ usedAfter = {} /\ ~converted /\ retrained' = TRUE /\ dstMode' = "eval"
           /\ UNCHANGED <<phase, srcHist, evalFirst, dstUsed, route, stale, verdict, usedAfter, converted, oldDtype>>
\* evaluation-mode use after the load: derived tensors of the loaded parameters, in the current precision
UseLoaded(k) == /\ phase = "loaded" /\ ~converted /\ k \notin usedAfter
                /\ usedAfter' = usedAfter \cup {k}
                /\ UNCHANGED <<phase, srcHist, dstMode, evalFirst, dstUsed, route, retrained, stale, converted, oldDtype, verdict>>
\* model.double(): parameters and buffers are converted; derived tensors must follow (or go)
Convert == /\ phase = "loaded" /\ ~converted /\ converted' = TRUE
           /\ oldDtype' = (IF ConvertDrops THEN {} ELSE usedAfter)
           /\ UNCHANGED <<phase, srcHist, dstMode, evalFirst, dstUsed, route, retrained, stale, usedAfter, verdict>>
Compare == /\ phase = "loaded" /\ phase' = "compared"
           /\ verdict' = IF stale # {} THEN "differs" ELSE IF oldDtype # {} THEN "dtype_error" ELSE "same_function"
           /\ UNCHANGED <<srcHist, dstMode, evalFirst, dstUsed, route, retrained, stale, usedAfter, converted, oldDtype>>

DoUseDst == phase = "destination" /\ \E k \in Uses : UseDst(k)
DoLoad == phase = "destination" /\ \E r \in Routes : Load(r)
DoUseLoaded == phase = "loaded" /\ \E k \in {"fwd", "inv"} : UseLoaded(k)
Next == Train \/ UseSrc \/ FrozenPhase \/ BuildDst \/ EvalFirst \/ DoUseDst \/ DoLoad \/ Retrain \/ DoUseLoaded \/ Convert \/ Compare
Spec == Init /\ [][Next]_vars

-----------------------------------------------------------------------------
TypeOK == /\ phase \in {"source", "destination", "loaded", "compared"}
          /\ srcHist \subseteq {"trained", "used", "frozen_phase"} /\ dstUsed \subseteq Uses /\ stale \subseteq Uses
          /\ route \in Routes \cup {"none"} /\ dstMode \in {"train", "eval"}
          /\ usedAfter \subseteq Uses /\ oldDtype \subseteq Uses /\ converted \in BOOLEAN
\* C15: whatever happened before, the reloaded model computes the saved function
ReloadPreservesFunction == phase = "compared" => verdict = "same_function"
\* nothing derived before the load survives it
LoadInvalidates == phase \in {"loaded", "compared"} => stale = {}
=============================================================================
