------------------------------- MODULE Reload -------------------------------
(***************************************************************************)
(* Checkpoint protocols (C15): every way a state dict travels from a       *)
(* source model into a destination model of the same configuration that    *)
(* was built under another seed.  The function a model computes is a       *)
(* function of its state dict alone - not of what either model did before  *)
(* (cached, memoised or lazily derived quantities), of the mode in which   *)
(* the destination received it, or of the route the state dict took.       *)
(*                                                                         *)
(* One action per user-visible step:                                       *)
(*   source:  Train (optimiser steps / data-dependent initialisation /     *)
(*            statistics), UseSrc (evaluation-mode calls fill caches)      *)
(*   destination, BEFORE the load: EvalFirst (switched to evaluation mode),*)
(*            UseDst(k) (a smoke run: forward-like, inverse-like, under    *)
(*            no_grad) - whatever it derives then is derived from ITS OWN  *)
(*            random parameters                                            *)
(*   Load(route): load_state_dict on the model, through an enclosing       *)
(*            container, or via a plain dict without _metadata             *)
(*   AFTER the load: optionally Train -> Eval again, then Compare          *)
(* `stale` is what a careless implementation would still hold: the set of  *)
(* derived quantities computed from the destination's pre-load parameters. *)
(* The specification (the intended design) drops them at Load.             *)
(***************************************************************************)
EXTENDS Integers, FiniteSets, TLC

Uses == {"fwd", "inv", "nograd"}
Routes == {"direct", "container", "plain_dict"}

CONSTANT LoadDrops     \* design switch: TRUE = loading drops what was derived before (the intended design)

VARIABLES phase, srcHist, dstMode, evalFirst, dstUsed, route, retrained, stale, verdict
vars == <<phase, srcHist, dstMode, evalFirst, dstUsed, route, retrained, stale, verdict>>

Init ==
  /\ phase = "source" /\ srcHist = {} /\ dstMode = "train" /\ evalFirst = FALSE /\ dstUsed = {}
  /\ route = "none" /\ retrained = FALSE /\ stale = {} /\ verdict = "none"

Train == /\ phase = "source" /\ "trained" \notin srcHist /\ srcHist' = srcHist \cup {"trained"}
         /\ UNCHANGED <<phase, dstMode, evalFirst, dstUsed, route, retrained, stale, verdict>>
UseSrc == /\ phase = "source" /\ "used" \notin srcHist /\ srcHist' = srcHist \cup {"used"}
          /\ UNCHANGED <<phase, dstMode, evalFirst, dstUsed, route, retrained, stale, verdict>>
BuildDst == /\ phase = "source" /\ phase' = "destination"
            /\ UNCHANGED <<srcHist, dstMode, evalFirst, dstUsed, route, retrained, stale, verdict>>

EvalFirst == /\ phase = "destination" /\ dstMode = "train" /\ dstUsed = {} /\ dstMode' = "eval" /\ evalFirst' = TRUE
             /\ UNCHANGED <<phase, srcHist, dstUsed, route, retrained, stale, verdict>>
\* a smoke run derives things from the destination's own parameters
UseDst(k) == /\ phase = "destination" /\ k \notin dstUsed
             /\ (k = "nograd" => dstMode = "eval")
             /\ dstUsed' = dstUsed \cup {k}
             /\ stale' = stale \cup {k}
             /\ UNCHANGED <<phase, srcHist, dstMode, evalFirst, route, retrained, verdict>>

\* the intended design: loading invalidates everything derived from the old parameters
Load(r) == /\ phase = "destination" /\ route' = r /\ phase' = "loaded"
           /\ stale' = (IF LoadDrops THEN {} ELSE stale)
           /\ UNCHANGED <<srcHist, dstMode, evalFirst, dstUsed, retrained, verdict>>

\* train() then eval() after the load (train() is a documented invalidation point of the weight caches)
Retrain == /\ phase = "loaded" /\ ~retrained /\ retrained' = TRUE /\ dstMode' = "eval"
           /\ UNCHANGED <<phase, srcHist, evalFirst, dstUsed, route, stale, verdict>>
Compare == /\ phase = "loaded" /\ phase' = "compared"
           /\ verdict' = IF stale = {} THEN "same_function" ELSE "differs"
           /\ UNCHANGED <<srcHist, dstMode, evalFirst, dstUsed, route, retrained, stale>>

DoUseDst == phase = "destination" /\ \E k \in Uses : UseDst(k)
DoLoad == phase = "destination" /\ \E r \in Routes : Load(r)
Next == Train \/ UseSrc \/ BuildDst \/ EvalFirst \/ DoUseDst \/ DoLoad \/ Retrain \/ Compare
Spec == Init /\ [][Next]_vars

-----------------------------------------------------------------------------
TypeOK == /\ phase \in {"source", "destination", "loaded", "compared"}
          /\ srcHist \subseteq {"trained", "used"} /\ dstUsed \subseteq Uses /\ stale \subseteq Uses
          /\ route \in Routes \cup {"none"} /\ dstMode \in {"train", "eval"}
\* C15: whatever happened before, the reloaded model computes the saved function
ReloadPreservesFunction == phase = "compared" => verdict = "same_function"
\* nothing derived before the load survives it
LoadInvalidates == phase \in {"loaded", "compared"} => stale = {}
=============================================================================
