---------------------------- MODULE Multiscale ----------------------------
(***************************************************************************)
(* Shape book-keeping and coordinate routing of                             *)
(* nflows.transforms.base.MultiscaleCompositeTransform (C08):              *)
(*  add_transform: every stage needs size >= 2 on the split dimension;     *)
(*    the emitted half is the ceiling half ((s+1) div 2), the hidden half  *)
(*    s div 2; no split after the last stage;                              *)
(*  forward: torch.chunk(2) after every stage but the last, emitted halves *)
(*    flattened and concatenated;                                          *)
(*  inverse: slices by cumulative products of the recorded output shapes,  *)
(*    views them, concatenates back along the split dimension.             *)
(* Dimensions here exclude the batch dimension (split_dim d = tensor       *)
(* dimension d of one item).                                               *)
(***************************************************************************)
EXTENDS Tensor, TLC

CONSTANTS MaxRank, MaxSize, MaxStages

VARIABLES cfg, route, stages, back
vars == <<cfg, route, stages, back>>

RECURSIVE Accepts(_, _, _, _)
Accepts(shape, d, i, n) ==
  /\ shape[d] >= 2
  /\ (i < n => Accepts([shape EXCEPT ![d] = shape[d] \div 2], d, i + 1, n))

RECURSIVE OutShapes(_, _, _, _)
OutShapes(shape, d, i, n) ==
  IF i = n THEN <<shape>>
  ELSE <<[shape EXCEPT ![d] = (shape[d] + 1) \div 2]>>
       \o OutShapes([shape EXCEPT ![d] = shape[d] \div 2], d, i + 1, n)

\* forward: provenance of every slot of the flattened output
RECURSIVE Route(_, _, _, _)
Route(t, d, i, n) ==
  IF i = n THEN FlatSeq(t)
  ELSE LET s == t.shape[d]
           h == (s + 1) \div 2           \* torch.chunk(2): the first chunk is the ceiling half
       IN FlatSeq(Slice(t, d, 0, h)) \o Route(Slice(t, d, h, s), d, i + 1, n)

\* number of stages every output slot went through
RECURSIVE Stages(_, _, _, _)
Stages(shape, d, i, n) ==
  IF i = n THEN [k \in 1..Prod(shape) |-> i]
  ELSE [k \in 1..Prod([shape EXCEPT ![d] = (shape[d] + 1) \div 2]) |-> i]
       \o Stages([shape EXCEPT ![d] = shape[d] \div 2], d, i + 1, n)

RECURSIVE Offsets(_)
Offsets(shapes) ==
  IF shapes = <<>> THEN <<0>>
  ELSE <<0>> \o [k \in 1..Len(Offsets(Tail(shapes))) |-> Offsets(Tail(shapes))[k] + Prod(Head(shapes))]

Chunk(all, shapes, k) == Reshape(Slice(all, 1, Offsets(shapes)[k], Offsets(shapes)[k + 1]), shapes[k])

\* inverse: deepest stage first, each level concatenates its own chunk in front of the rebuilt rest
RECURSIVE Rebuild(_, _, _, _)
Rebuild(all, shapes, d, k) ==
  IF k = Len(shapes) THEN Chunk(all, shapes, k)
  ELSE Cat(Chunk(all, shapes, k), Rebuild(all, shapes, d, k + 1), d)

Shapes == UNION {[1..r -> 1..MaxSize] : r \in 1..MaxRank}

Init ==
  \E sh \in Shapes, n \in 1..MaxStages : \E d \in 1..Len(sh) :
     /\ Accepts(sh, d, 1, n)
     /\ cfg = [shape |-> sh, d |-> d, n |-> n]
     /\ route = Route(Ident(sh), d, 1, n)
     /\ stages = Stages(sh, d, 1, n)
     /\ back = Rebuild(Ident(<<Prod(sh)>>), OutShapes(sh, d, 1, n), d, 1)

Next == UNCHANGED vars
Spec == Init /\ [][Next]_vars

N == Prod(cfg.shape)
\* every input coordinate lands in exactly one output slot
RoutingIsBijection == Len(route) = N /\ \A q \in 0..(N - 1) : Cardinality({p \in 1..N : route[p] = q}) = 1
\* a coordinate goes through stages 1..k for some k (the documented prefix)
PrefixOfStages == Len(stages) = N /\ \A p \in 1..N : stages[p] \in 1..cfg.n
\* emitted earlier <=> fewer stages: slots are ordered by stage
StagesMonotone == \A p1, p2 \in 1..N : p1 <= p2 => stages[p1] <= stages[p2]
\* the inverse undoes the routing
InverseUndoesRouting == back.shape = cfg.shape /\ \A q \in 0..(N - 1) : route[back.src[q] + 1] = q
\* sizes: the first half is never smaller than the second
OutputSizes ==
  LET os == OutShapes(cfg.shape, cfg.d, 1, cfg.n)
  IN /\ Len(os) = cfg.n
     /\ \A k \in 1..(cfg.n - 1) : os[k][cfg.d] >= 1
=============================================================================
