------------------------------- MODULE Made -------------------------------
(***************************************************************************)
(* Construction of a MADE network (nflows/transforms/made.py and its copy  *)
(* nflows/nn/nde/made.py): one action per constructor step                 *)
(*   MADE.__init__: initial MaskedLinear, num_blocks x (feed-forward block *)
(*   | residual block = two masked layers + identity skip), final          *)
(*   MaskedLinear with tiled output degrees.                               *)
(* MaskedLinear._get_mask_and_degrees: hidden degrees sequential           *)
(*   (arange(H) % max(1, D-1) + min(1, D-1)) or random (every draw that    *)
(*   torch.randint(low=min(min(in_degrees), D-1), high=D) can make);       *)
(*   hidden mask: out_degree >= in_degree, output mask: out_degree >       *)
(*   in_degree.                                                            *)
(* `reach[u]` is the set of input features unit u of the current last      *)
(* layer is path-connected to: the boolean product of the masks (plus the  *)
(* identity for residual skips).  Weights do not occur, so Autoregressive  *)
(* holds for all weight values.                                            *)
(***************************************************************************)
EXTENDS Integers, Sequences, FiniteSets, TLC

CONSTANTS MaxD, MaxH, MaxBlocks, MaxMult

VARIABLES phase, cfg, degs, reach, nblocks, layers
vars == <<phase, cfg, degs, reach, nblocks, layers>>

Min(a, b) == IF a < b THEN a ELSE b
Max(a, b) == IF a > b THEN a ELSE b
SetMin(S) == CHOOSE x \in S : \A y \in S : x <= y
Range(f) == {f[i] : i \in DOMAIN f}

InDegs(D) == [i \in 1..D |-> i]
SeqDegs(H, D) == [i \in 1..H |-> ((i - 1) % Max(1, D - 1)) + Min(1, D - 1)]
RandDegs(H, D, prev) == [1..H -> Min(SetMin(Range(prev)), D - 1)..(D - 1)]
\* output degrees: tile(1..D, m) puts the m outputs of a feature next to each other
OutDegs(D, m) == [o \in 1..(D * m) |-> ((o - 1) \div m) + 1]

Connected(outdeg, indeg, strict) == IF strict THEN outdeg > indeg ELSE outdeg >= indeg
Mask(newdegs, prevdegs, strict) ==
  [o \in DOMAIN newdegs |-> [i \in DOMAIN prevdegs |-> IF Connected(newdegs[o], prevdegs[i], strict) THEN 1 ELSE 0]]
Layer(newdegs, prevdegs, prevreach, strict) ==
  [o \in DOMAIN newdegs |->
     UNION {prevreach[i] : i \in {i \in DOMAIN prevdegs : Connected(newdegs[o], prevdegs[i], strict)}}]

Init ==
  /\ phase = "cfg" /\ cfg = <<>> /\ degs = <<>> /\ reach = <<>> /\ nblocks = 0 /\ layers = <<>>

Configure(c) ==
  /\ phase = "cfg"
  /\ c.D \in 1..MaxD /\ c.H \in 1..MaxH /\ c.B \in 0..MaxBlocks /\ c.m \in 1..MaxMult
  /\ c.res \in BOOLEAN /\ c.rnd \in BOOLEAN
  /\ ~(c.res /\ c.rnd)               \* ValueError in MADE.__init__
  /\ cfg' = c /\ phase' = "initial"
  /\ UNCHANGED <<degs, reach, nblocks, layers>>

AllowedDegs(prev) == IF cfg.rnd THEN RandDegs(cfg.H, cfg.D, prev) ELSE {SeqDegs(cfg.H, cfg.D)}

Initial(nd) ==
  /\ phase = "initial"
  /\ nd \in AllowedDegs(InDegs(cfg.D))
  /\ degs' = nd
  /\ reach' = Layer(nd, InDegs(cfg.D), [i \in 1..cfg.D |-> {i}], FALSE)
  /\ layers' = <<[kind |-> "initial", degs |-> nd, mask |-> Mask(nd, InDegs(cfg.D), FALSE)]>>
  /\ phase' = "blocks" /\ UNCHANGED <<cfg, nblocks>>

BlockFF(nd) ==
  /\ phase = "blocks" /\ nblocks < cfg.B /\ ~cfg.res
  /\ nd \in AllowedDegs(degs)
  /\ degs' = nd
  /\ reach' = Layer(nd, degs, reach, FALSE)
  /\ layers' = Append(layers, [kind |-> "ff", degs |-> nd, mask |-> Mask(nd, degs, FALSE)])
  /\ nblocks' = nblocks + 1 /\ UNCHANGED <<phase, cfg>>

\* residual block: two sequential masked layers and the identity skip; the constructor raises
\* unless the block's output degrees dominate its input degrees
BlockRes ==
  /\ phase = "blocks" /\ cfg.res /\ nblocks < cfg.B
  /\ LET d0 == SeqDegs(cfg.H, cfg.D)
         r0 == Layer(d0, degs, reach, FALSE)
         d1 == SeqDegs(cfg.H, cfg.D)
         r1 == Layer(d1, d0, r0, FALSE)
     IN /\ \A i \in 1..cfg.H : d1[i] >= degs[i]
        /\ degs' = d1
        /\ reach' = [i \in 1..cfg.H |-> reach[i] \cup r1[i]]
        /\ layers' = layers \o <<[kind |-> "res0", degs |-> d0, mask |-> Mask(d0, degs, FALSE)],
                                 [kind |-> "res1", degs |-> d1, mask |-> Mask(d1, d0, FALSE)]>>
  /\ nblocks' = nblocks + 1 /\ UNCHANGED <<phase, cfg>>

Final ==
  /\ phase = "blocks"
  /\ nblocks = cfg.B
  /\ LET od == OutDegs(cfg.D, cfg.m)
     IN /\ degs' = od
        /\ reach' = Layer(od, degs, reach, TRUE)
        /\ layers' = Append(layers, [kind |-> "final", degs |-> od, mask |-> Mask(od, degs, TRUE)])
  /\ phase' = "done" /\ UNCHANGED <<cfg, nblocks>>

Configs ==
  [D : 1..MaxD, H : 1..MaxH, B : 0..MaxBlocks, m : 1..MaxMult, res : BOOLEAN, rnd : BOOLEAN]

DoConfigure == \E c \in Configs : Configure(c)
DoInitial == phase = "initial" /\ \E nd \in AllowedDegs(InDegs(cfg.D)) : Initial(nd)
DoBlockFF == phase = "blocks" /\ \E nd \in AllowedDegs(degs) : BlockFF(nd)

Next == DoConfigure \/ DoInitial \/ DoBlockFF \/ BlockRes \/ Final

Spec == Init /\ [][Next]_vars

-----------------------------------------------------------------------------
Done == phase = "done"
Feature(o) == degs[o]            \* in phase done: the feature an output unit belongs to

\* C06: the outputs of feature i do not depend on inputs i, i+1, ...
Autoregressive == Done => \A o \in DOMAIN reach : \A j \in reach[o] : j < Feature(o)
FirstFeatureConstant == Done => \A o \in DOMAIN reach : Feature(o) = 1 => reach[o] = {}
\* hidden units never see input D (degrees stay below D), whatever the draw
HiddenBelowD == phase = "blocks" => \A u \in DOMAIN degs : degs[u] <= Max(1, cfg.D - 1) /\ \A j \in reach[u] : j <= degs[u]
\* completeness for sequential masks wide enough to carry every degree: nothing is masked away
Complete == (Done /\ ~cfg.rnd /\ cfg.H >= cfg.D - 1) =>
               \A o \in DOMAIN reach : reach[o] = 1..(Feature(o) - 1)
\* the block of outputs of one feature is contiguous (tile, not repeat)
OutputsContiguous == Done => \A o1, o2 \in DOMAIN degs : o1 <= o2 => degs[o1] <= degs[o2]
\* the residual guard never fires for sequential degrees (so every accepted config is buildable)
ResidualAlwaysBuildable == (phase = "blocks" /\ cfg.res /\ nblocks < cfg.B) => ENABLED BlockRes

\* `layers` is a history variable (what was built); the exhaustive runs hide it
View == <<phase, cfg, degs, reach, nblocks>>
=============================================================================
