--------------------------- MODULE BatchNormLife ---------------------------
(***************************************************************************)
(* Life-cycle of nflows.transforms.normalization.BatchNorm (C14, C13):     *)
(* training-mode forward passes use batch statistics and update the        *)
(* running statistics by the momentum rule; evaluation-mode passes use the *)
(* running statistics and change nothing; the inverse exists only in       *)
(* evaluation mode.  Running statistics are exact rationals.               *)
(* Anchors: normalization.py BatchNorm.__init__ / forward / inverse.       *)
(***************************************************************************)
EXTENDS Rat, TLC

CONSTANTS
  Batches,     \* sequence of batches; a batch is a sequence of rows of integers
  Momentum,    \* rational <<n, d>>
  MaxUpdates,  \* bound on training-mode forward passes (denominators grow)
  Unbiased,    \* variance kind the implementation uses (torch.var default: unbiased)
  WithLoad     \* include LoadDonor (multiplies the reachable statistics: used with a small MaxUpdates)

VARIABLES training, rm, rv, updates, res
vars == <<training, rm, rv, updates, res>>

F == Len(Batches[1][1])        \* number of features
NB == Len(Batches)

Col(b, f) == [i \in 1..Len(Batches[b]) |-> FromInt(Batches[b][i][f])]
Mean(b, f) == Div(RSum(Col(b, f)), FromInt(Len(Batches[b])))
Var(b, f) ==
  LET n == Len(Batches[b])
      mu == Mean(b, f)
      dev == [i \in 1..n |-> Sq(Sub(Col(b, f)[i], mu))]
  IN Div(RSum(dev), FromInt(IF Unbiased THEN n - 1 ELSE n))

BMean(b) == [f \in 1..F |-> Mean(b, f)]
BVar(b) == [f \in 1..F |-> Var(b, f)]

Init ==
  /\ training = TRUE
  /\ rm = [f \in 1..F |-> Zero]
  /\ rv = [f \in 1..F |-> Zero]      \* the implementation starts the running variance at 0
  /\ updates = 0
  /\ res = [k |-> "init"]

Train == training' = TRUE /\ res' = [k |-> "train"] /\ UNCHANGED <<rm, rv, updates>>
Eval == training' = FALSE /\ res' = [k |-> "eval"] /\ UNCHANGED <<rm, rv, updates>>

Blend(old, new) == Add(Mul(Sub(One, Momentum), old), Mul(Momentum, new))

Forward(b) ==
  IF training
  THEN /\ updates < MaxUpdates
       /\ rm' = [f \in 1..F |-> Blend(rm[f], Mean(b, f))]
       /\ rv' = [f \in 1..F |-> Blend(rv[f], Var(b, f))]
       /\ updates' = updates + 1
       \* normalised with the statistics of this very batch
       /\ res' = [k |-> "fwd", b |-> b, stats |-> "batch", mean |-> BMean(b), var |-> BVar(b)]
       /\ UNCHANGED training
  ELSE /\ res' = [k |-> "fwd", b |-> b, stats |-> "running", mean |-> rm, var |-> rv]
       /\ UNCHANGED <<training, rm, rv, updates>>

Inverse(b) ==
  /\ IF training
     THEN res' = [k |-> "inv", b |-> b, o |-> "InverseNotAvailable"]
     ELSE res' = [k |-> "inv", b |-> b, o |-> "value", mean |-> rm, var |-> rv]
  /\ UNCHANGED <<training, rm, rv, updates>>

\* state dict saved and loaded into a freshly constructed layer (which starts in training mode)
SaveLoadFresh ==
  /\ training' = TRUE
  /\ res' = [k |-> "saveload"]
  /\ UNCHANGED <<rm, rv, updates>>

\* load_state_dict INTO THIS layer, in whatever mode it is: the checkpoint of a donor layer that saw
\* batch b once in training mode.  Everything computed afterwards uses the loaded statistics (a layer
\* that memoised something derived from the old ones would not).
LoadDonor(b) ==
  /\ WithLoad
  /\ rm' = [f \in 1..F |-> Blend(Zero, Mean(b, f))]
  /\ rv' = [f \in 1..F |-> Blend(Zero, Var(b, f))]
  /\ res' = [k |-> "load", b |-> b]
  /\ UNCHANGED <<training, updates>>

Next ==
  \/ Train \/ Eval \/ SaveLoadFresh
  \/ \E b \in 1..NB : Forward(b) \/ Inverse(b) \/ LoadDonor(b)

Spec == Init /\ [][Next]_vars

-----------------------------------------------------------------------------
TypeOK == /\ training \in BOOLEAN /\ updates \in 0..MaxUpdates
          /\ \A f \in 1..F : IsRat(rm[f]) /\ IsRat(rv[f]) /\ Ge(rv[f], Zero)

\* running statistics change only in training-mode forward passes, and then by the momentum rule
MomentumRule ==
  [][\/ (rm' = rm /\ rv' = rv)
     \/ res'.k = "load"
     \/ (training /\ res'.k = "fwd" /\ res'.stats = "batch"
         /\ \A f \in 1..F : /\ rm'[f] = Blend(rm[f], res'.mean[f])
                            /\ rv'[f] = Blend(rv[f], res'.var[f]))]_vars

EvalUsesRunning ==
  [][(res'.k = "fwd" /\ ~training) => (res'.stats = "running" /\ res'.mean = rm /\ res'.var = rv /\ rm' = rm /\ rv' = rv)]_vars

TrainUsesBatch ==
  [][(res'.k = "fwd" /\ training) => (res'.stats = "batch" /\ res'.mean = BMean(res'.b) /\ res'.var = BVar(res'.b))]_vars

InverseOnlyInEval ==
  [][res'.k = "inv" => (res'.o = "value" <=> ~training)]_vars

\* running statistics stay inside the convex hull of {0} and the batch statistics
RunningBounded ==
  \A f \in 1..F : \E lo \in 1..NB, hi \in 1..NB :
     /\ Le(RMin(Zero, Mean(lo, f)), rm[f]) /\ Le(rm[f], RMax(Zero, Mean(hi, f)))
=============================================================================
