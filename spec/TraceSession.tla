---------------------------- MODULE TraceSession ----------------------------
(***************************************************************************)
(* Trace validation for Session: histories recorded from real nflows       *)
(* models are replayed against the specification; for every recorded step  *)
(* the specification decides a verdict from the logged observations        *)
(* (which state-dict categories changed, whether an argument changed,      *)
(* whether a repeated call reproduced its result, whether the reloaded     *)
(* model computes the same function).  Verdicts are read from the dump.    *)
(***************************************************************************)
EXTENDS Session, Json, IOUtils, Sequences

Batch == JsonDeserialize(IOEnv.TRACE_FILE)
Traces == Batch.traces

VARIABLES tid, l, verdict, reloaded
tvars == <<vars, tid, l, verdict, reloaded>>

T == Traces[tid].ev
SetOf(s) == {s[i] : i \in 1..Len(s)}
KindOf(t) == [ops |-> SetOf(t.ops), bn |-> t.bn, an |-> t.an]

TInit ==
  /\ tid \in 1..Len(Traces)
  /\ l = 1 /\ verdict = "ok" /\ reloaded = FALSE
  /\ Init
  /\ kind = KindOf(Traces[tid])
  /\ anInit = Traces[tid].anInit

Judge(e) ==
  IF e.a = "Call" THEN
      IF e.argsChanged THEN "argument_modified"
      ELSE IF ~(SetOf(e.writes) \subseteq AllowedWrites(e.op)) THEN
              (IF "an_init" \in SetOf(e.writes) /\ anInit
               THEN (IF reloaded THEN "reinitialised_after_reload" ELSE "reinitialised")
               ELSE IF "mode_flag" \in SetOf(e.writes) THEN "mode_changed"
               ELSE IF mode = "eval" THEN "state_written_in_eval"
               ELSE IF frozen /\ "bn_running" \in SetOf(e.writes) THEN "frozen_statistics_written"
               ELSE "undocumented_state_write")
      ELSE IF MustRepeat(e.op) /\ e.repeat = "neq" THEN "repeat_differs"
      \* evaluation mode: what a call returns is what a freshly built model with the same state dict
      \* returns for the same arguments - it does not depend on the calls made before
      ELSE IF mode = "eval" /\ e.twin = "neq" THEN "depends_on_history"
      ELSE "ok"
  \* the comparison probes of a reload / copy are evaluation-mode calls: they may write nothing
  ELSE IF e.a \in {"SaveLoadFresh", "Clone"} /\ e.probeWrites # <<>> THEN "state_written_in_eval"
  ELSE IF e.a = "SaveLoadFresh" THEN
      (IF ~e.same THEN "reload_differs" ELSE "ok")
  ELSE IF e.a = "Clone" THEN
      (IF e.error # "" THEN "ok"          \* the harness could not copy this model (unpicklable closure): no verdict
       ELSE IF ~e.modesSame THEN "clone_mode_changed"
       ELSE IF ~e.stateSame THEN "clone_state_differs"
       ELSE IF ~e.same THEN "clone_differs" ELSE "ok")
  ELSE "ok"

Step ==
  /\ l <= Len(T)
  /\ l' = l + 1 /\ tid' = tid
  /\ LET e == T[l] IN
       /\ verdict' = Judge(e)
       /\ reloaded' = (reloaded \/ e.a = "SaveLoadFresh")
       /\ \/ (e.a = "Train" /\ Train)
          \/ (e.a = "Eval" /\ Eval)
          \/ (e.a = "Freeze" /\ Freeze)
          \/ (e.a = "TrainStep" /\ TrainStep)
          \/ (e.a = "SaveLoadFresh" /\ SaveLoadFresh)
          \/ (e.a = "Clone" /\ Clone(e.how))
          \/ (e.a = "Call" /\ Call(e.op, e.ik))

Done == l = Len(T) + 1 /\ UNCHANGED tvars
TNext == Step \/ Done
TSpec == TInit /\ [][TNext]_tvars
AllConsumed == TLCGet("distinct") = Batch.total
=============================================================================
