------------------------------- MODULE Utils -------------------------------
(***************************************************************************)
(* Algebraic specifications of the exported helpers of nflows.utils        *)
(* (torchutils.py, typechecks.py), over Tensor.tla provenance views.  A    *)
(* state is one call with its documented result; TLC enumerates every call *)
(* over small shapes and argument values and checks the algebraic laws;    *)
(* the harness executes the same calls on the real helpers with            *)
(* index-tagged tensors and compares element placement exactly.  No helper *)
(* may modify its arguments (checked on the implementation).               *)
(***************************************************************************)
EXTENDS Tensor, TLC

CONSTANTS MaxDims, MaxSize, MaxReps

VARIABLES call, out
vars == <<call, out>>

Shapes == UNION {[1..r -> 1..MaxSize] : r \in 1..MaxDims}
\* shapes with an empty dimension (an empty batch, an empty event): sums over nothing are 0
ZeroShapes == {s \in UNION {[1..r -> 0..2] : r \in 1..MaxDims} : \E i \in DOMAIN s : s[i] = 0}
\* |det(c * P)| = c^n for a signed permutation matrix P: log|det| = n log c, whatever n (the
\* determinant itself leaves the floating-point range long before its logarithm does)
ScaledPerms == {[n |-> n, num |-> c[1], den |-> c[2]] : n \in {3, 48, 64}, c \in {<<1, 20>>, <<1, 2>>, <<2, 1>>, <<20, 1>>}}
Ceil2(f) == (f + 1) \div 2

\* ---- tile(x, n): every element repeated n times consecutively (x flattened)
Tile(L, n) == [shape |-> <<L * n>>, src |-> [f \in 0..(L * n - 1) |-> f \div n]]

\* ---- sum_except_batch(x, nb): result has the first nb dims; element = sum over the rest
SumExceptBatch(s, nb) ==
  LET bshape == SubSeq(s, 1, nb)
      rest == Prod(SubSeq(s, nb + 1, Len(s)))
  IN [shape |-> bshape,
      terms |-> [b \in 0..(Prod(bshape) - 1) |-> {b * rest + r : r \in 0..(rest - 1)}]]

\* ---- searchsorted(bin_locations, x): index of the half-open bin containing x; the last location
\* is raised by eps, so x = last location still falls into the last bin
SearchSorted(locs, x) == Cardinality({k \in 1..Len(locs) : IF k = Len(locs) THEN x > locs[k] ELSE x >= locs[k]}) - 1

\* ---- mask constructors (1 = transformed by convention of the callers)
Alternating(f, even) == [i \in 1..f |-> IF ((i - 1) % 2 = 0) = even THEN 1 ELSE 0]
MidSplit(f) == [i \in 1..f |-> IF i <= Ceil2(f) THEN 1 ELSE 0]
SumSeq(m) == Cardinality({i \in DOMAIN m : m[i] = 1})

\* ---- type-check predicates on argument tokens <<kind, value>>
\* <<"big", k, off>> stands for the Python integer 2^k + off (Python's integers are unbounded; TLC's are not):
\* for k >= 2 it is a power of two iff off = 0
Tokens == {<<"int", v>> : v \in -2..4} \cup {<<"bool", 0>>, <<"bool", 1>>, <<"float", 2>>, <<"float", 0>>, <<"float", 1>>, <<"str", 3>>, <<"none", 0>>}
          \cup {<<"big", k, off>> : k \in {5, 10, 24, 31, 32, 49, 53, 63, 64, 100, 1000}, off \in {-1, 0, 1, 3}}
IsBool(t) == t[1] = "bool"
IsInt(t) == t[1] \in {"int", "bool", "big"}      \* Python: bool is a subclass of int
IsPositiveInt(t) == IsInt(t) /\ (t[1] = "big" \/ t[2] > 0)
IsNonnegativeInt(t) == IsInt(t) /\ (t[1] = "big" \/ t[2] >= 0)
IsPowerOfTwo(t) == IF t[1] = "big" THEN t[3] = 0 ELSE IsPositiveInt(t) /\ t[2] \in {1, 2, 4, 8, 16}

\* ---- integer determinant (exact) for logabsdet on small integer matrices
Det2(m) == m[1][1] * m[2][2] - m[1][2] * m[2][1]
Det3(m) == m[1][1] * (m[2][2] * m[3][3] - m[2][3] * m[3][2])
         - m[1][2] * (m[2][1] * m[3][3] - m[2][3] * m[3][1])
         + m[1][3] * (m[2][1] * m[3][2] - m[2][2] * m[3][1])
Mats2 == [1..2 -> [1..2 -> -1..2]]
Cubes == {-27, -8, -1, 0, 1, 8, 27, 64}
CubeRoot(c) == CHOOSE r \in -4..4 : r * r * r = c
Locs == {<<0, 2, 5, 10>>, <<-3, -1, 0>>, <<0, 10>>, <<-10, -4, 3, 4, 10>>}

Calls ==
       {[f |-> "tile", L |-> L, n |-> n] : L \in 1..MaxSize, n \in 1..MaxReps}
  \cup {[f |-> "repeat_rows", s |-> s, n |-> n] : s \in Shapes, n \in 1..MaxReps}
  \cup {[f |-> "merge_split", s |-> s, k |-> k] : s \in {s \in Shapes : Len(s) >= 2}, k \in 1..2}
  \cup {[f |-> "sum_except_batch", s |-> s, nb |-> nb] : s \in Shapes \cup ZeroShapes, nb \in 0..MaxDims}
  \cup {[f |-> "logabsdet_scaled", m |-> m] : m \in ScaledPerms}
  \cup {[f |-> "searchsorted", locs |-> l, x |-> x] : l \in Locs, x \in -10..10}
  \cup {[f |-> "cbrt", c |-> c] : c \in Cubes}
  \cup {[f |-> "logabsdet", m |-> m] : m \in Mats2}
  \cup {[f |-> "mask", kind |-> k, feat |-> ft] : k \in {"alt_even", "alt_odd", "mid", "random"}, ft \in 1..7}
  \cup {[f |-> "typecheck", t |-> t] : t \in Tokens}

Result(c) ==
  CASE c.f = "tile" -> [t |-> Tile(c.L, c.n)]
    [] c.f = "repeat_rows" -> [t |-> RepeatRows(Ident(c.s), c.n)]
    [] c.f = "merge_split" ->
         LET merged == MergeLeading(Ident(c.s), c.k)
             back == SplitLeading(merged, SubSeq(c.s, 1, c.k))
         IN [merged |-> merged, back |-> back]
    [] c.f = "sum_except_batch" ->
         IF c.nb > Len(c.s) THEN [o |-> "n/a"] ELSE [o |-> "sum", r |-> SumExceptBatch(c.s, c.nb)]
    [] c.f = "searchsorted" ->
         IF c.x < c.locs[1] \/ c.x > c.locs[Len(c.locs)] THEN [o |-> "outside"]
         ELSE [o |-> "bin", idx |-> SearchSorted(c.locs, c.x)]
    [] c.f = "cbrt" -> [r |-> CubeRoot(c.c)]
    [] c.f = "logabsdet" -> [det |-> Det2(c.m)]
    [] c.f = "logabsdet_scaled" -> [base |-> <<c.m.num, c.m.den>>, pow |-> c.m.n]     \* |det| = (num/den)^n
    [] c.f = "mask" ->
        (CASE c.kind = "alt_even" -> [m |-> Alternating(c.feat, TRUE), count |-> SumSeq(Alternating(c.feat, TRUE))]
           [] c.kind = "alt_odd" -> [m |-> Alternating(c.feat, FALSE), count |-> SumSeq(Alternating(c.feat, FALSE))]
           [] c.kind = "mid" -> [m |-> MidSplit(c.feat), count |-> Ceil2(c.feat)]
           [] c.kind = "random" -> [count |-> Ceil2(c.feat)])
    [] c.f = "typecheck" ->
         [bool |-> IsBool(c.t), int |-> IsInt(c.t), pos |-> IsPositiveInt(c.t),
          nonneg |-> IsNonnegativeInt(c.t), pow2 |-> IsPowerOfTwo(c.t)]

Init == call \in Calls /\ out = Result(call)
Next == UNCHANGED vars
Spec == Init /\ [][Next]_vars

-----------------------------------------------------------------------------
\* copies are placed consecutively (tile and repeat_rows), each source element exactly n times
CopiesConsecutive ==
  /\ call.f = "tile" => \A f \in 0..(call.L * call.n - 1) : out.t.src[f] = f \div call.n
  /\ call.f = "repeat_rows" =>
        LET rowsz == Prod(Tail(call.s)) IN
        /\ out.t.shape = [call.s EXCEPT ![1] = call.s[1] * call.n]
        /\ \A f \in 0..(Numel(out.t) - 1) :
              out.t.src[f] = ((f \div rowsz) \div call.n) * rowsz + (f % rowsz)
MergeSplitInverse ==
  call.f = "merge_split" =>
     /\ out.back = Ident(call.s)
     /\ out.merged.shape = <<Prod(SubSeq(call.s, 1, call.k))>> \o SubSeq(call.s, call.k + 1, Len(call.s))
\* summing all but the batch dimensions preserves the batch and uses every element exactly once
SumPreservesBatch ==
  (call.f = "sum_except_batch" /\ out.o = "sum") =>
     /\ out.r.shape = SubSeq(call.s, 1, call.nb)
     /\ UNION {out.r.terms[b] : b \in DOMAIN out.r.terms} = 0..(Prod(call.s) - 1)
     /\ \A b1, b2 \in DOMAIN out.r.terms : b1 # b2 => out.r.terms[b1] \cap out.r.terms[b2] = {}
     /\ (call.nb = Len(call.s) => \A b \in DOMAIN out.r.terms : out.r.terms[b] = {b})
HalfOpenBin ==
  (call.f = "searchsorted" /\ out.o = "bin") =>
     LET K == Len(call.locs) - 1 IN
     /\ out.idx \in 0..(K - 1)
     /\ call.locs[out.idx + 1] <= call.x
     /\ (call.x < call.locs[out.idx + 2] \/ (out.idx = K - 1 /\ call.x = call.locs[K + 1]))
MaskCounts ==
  call.f = "mask" =>
     /\ (call.kind \in {"mid", "random"} => out.count = Ceil2(call.feat))
     /\ (call.kind = "alt_even" => out.count = Ceil2(call.feat) /\ out.m[1] = 1)
     /\ (call.kind = "alt_odd" => out.count = call.feat \div 2 /\ out.m[1] = 0)
     /\ (call.kind = "mid" => \A i \in 1..call.feat : out.m[i] = 1 <=> i <= Ceil2(call.feat))
TypeChecks ==
  call.f = "typecheck" =>
     /\ (out.pos => out.nonneg /\ out.int) /\ (out.pow2 => out.pos) /\ (out.bool => out.int)
     /\ (call.t[1] \in {"float", "str", "none"} => ~out.int /\ ~out.pos /\ ~out.nonneg /\ ~out.pow2)
=============================================================================
