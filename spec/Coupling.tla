----------------------------- MODULE Coupling -----------------------------
(***************************************************************************)
(* Index book-keeping of nflows.transforms.coupling.CouplingTransform:     *)
(* mask -> identity / transform index lists (masked_select order), split   *)
(* by index, conditioner fed with the identity split (and the context),    *)
(* elementwise transform of the transform split, optional unconditional    *)
(* elementwise transform of the identity split, write-back by index.       *)
(* Elements are <<feature, pixel>>; 2-D inputs have one pixel, images      *)
(* NumPixels (the mask acts on the channel dimension).  `src` is the       *)
(* provenance of every output element that is a pure copy, `dep` the set   *)
(* of input elements an output element may depend on.                      *)
(* Mask values are rationals k / MaskDen (the constructor compares with 0,  *)
(* it does not round).  `bounded`: the elementwise transform is defined on *)
(* a box only (piecewise couplings with tails = None); `outside` the input *)
(* features whose values lie outside that box; `outcome` what the call     *)
(* does - identity features are not the elementwise transform's business,  *)
(* so only transformed (and, with an unconditional transform, identity)    *)
(* features outside the box make the call raise InputOutsideDomain.        *)
(* Anchors: coupling.py __init__ (mask <= 0 / > 0), forward, inverse,      *)
(* PiecewiseCouplingTransform._coupling_transform (tails None / linear).   *)
(***************************************************************************)
EXTENDS Integers, Sequences, FiniteSets, TLC

CONSTANTS MaxD, MaskValues, MaskDen, NumPixels

VARIABLES phase, mask, layout, uncond, dir, ident, trans, src, dep, condIn, bounded, outside, outcome
vars == <<phase, mask, layout, uncond, dir, ident, trans, src, dep, condIn, bounded, outside, outcome>>

D == Len(mask)
Pixels == IF layout = "img" THEN 1..NumPixels ELSE {1}

\* features_vector.masked_select(cond): the selected indices in increasing order
RECURSIVE SortedSeq(_)
SortedSeq(S) ==
  IF S = {} THEN <<>>
  ELSE LET x == CHOOSE x \in S : \A y \in S : x <= y IN <<x>> \o SortedSeq(S \ {x})
SeqRange(s) == {s[k] : k \in 1..Len(s)}

MaskValuesSmall == {-1, 0, 1, 2}
\* in halves: -1, 0, 1/2, 1, 2
MaskValuesHalves == {-2, 0, 1, 2, 4}
ASSUME MaskDen \in Nat \ {0}

Init ==
  /\ phase = "choose" /\ mask = <<>> /\ layout = "2d" /\ uncond = FALSE /\ dir = "fwd"
  /\ ident = <<>> /\ trans = <<>> /\ src = <<>> /\ dep = <<>> /\ condIn = {}
  /\ bounded = FALSE /\ outside = {} /\ outcome = "none"

\* constructor: CouplingTransform.__init__
Construct(m, lay, u, b) ==
  /\ phase = "choose"
  /\ mask' = m /\ layout' = lay /\ uncond' = u /\ bounded' = b
  /\ ident' = SortedSeq({i \in 1..Len(m) : m[i] <= 0})
  /\ trans' = SortedSeq({i \in 1..Len(m) : m[i] > 0})
  /\ phase' = "built"
  /\ UNCHANGED <<dir, src, dep, condIn, outside, outcome>>

\* forward / inverse: what each output element is a copy of (src, 0 = computed) and may depend on
Checked == SeqRange(trans) \cup (IF uncond THEN SeqRange(ident) ELSE {})
Apply(d, out) ==
  /\ phase = "built"
  /\ dir' = d /\ outside' = out
  /\ outcome' = IF bounded /\ out \cap Checked # {} THEN "InputOutsideDomain" ELSE "Value"
  /\ IF bounded /\ out \cap Checked # {} THEN src' = <<>> /\ dep' = <<>> /\ condIn' = {} ELSE
     LET idSplit == [k \in 1..Len(ident) |-> ident[k]]          \* inputs[:, identity_features]
         trSplit == [k \in 1..Len(trans) |-> trans[k]]          \* inputs[:, transform_features]
         \* the conditioner sees the identity split: forward the raw one, inverse the one
         \* recovered by the unconditional inverse - elementwise, so the same input elements
         cIn == {<<idSplit[k], p>> : k \in 1..Len(idSplit), p \in Pixels}
         \* write-back by index: outputs[:, identity_features] = identity_split etc.
         OutFeature(f) ==
           IF f \in SeqRange(ident)
           THEN LET k == CHOOSE k \in 1..Len(ident) : ident[k] = f IN [from |-> idSplit[k], kind |-> "identity"]
           ELSE LET k == CHOOSE k \in 1..Len(trans) : trans[k] = f IN [from |-> trSplit[k], kind |-> "transform"]
     IN /\ condIn' = cIn
        /\ src' = [f \in 1..D |-> [p \in Pixels |->
                     IF OutFeature(f).kind = "identity" /\ ~uncond THEN <<OutFeature(f).from, p>> ELSE <<0, 0>>]]
        /\ dep' = [f \in 1..D |-> [p \in Pixels |->
                     IF OutFeature(f).kind = "identity" THEN {<<OutFeature(f).from, p>>}
                     ELSE {<<OutFeature(f).from, p>>} \cup cIn]]
  /\ phase' = "applied"
  /\ UNCHANGED <<mask, layout, uncond, ident, trans, bounded>>

Masks == UNION {[1..n -> MaskValues] : n \in 2..MaxD}

DoConstruct ==
     phase = "choose" /\ \E m \in Masks, lay \in {"2d", "img"}, u \in BOOLEAN, b \in BOOLEAN :
        /\ \E i \in 1..Len(m) : m[i] <= 0          \* both sides non-empty
        /\ \E i \in 1..Len(m) : m[i] > 0
        /\ Construct(m, lay, u, b)
\* which inputs lie outside the box: none, all identity features, or the first transformed one
Outsides == IF bounded THEN {{}, SeqRange(ident), {trans[1]}} ELSE {{}}
DoApply == phase = "built" /\ \E d \in {"fwd", "inv"}, out \in Outsides : Apply(d, out)

Next == DoConstruct \/ DoApply

Spec == Init /\ [][Next]_vars

-----------------------------------------------------------------------------
Built == phase \in {"built", "applied"}
Called == phase = "applied"
Applied == Called /\ outcome = "Value"
IdSet == SeqRange(ident)
TrSet == SeqRange(trans)

Partition == Built => /\ IdSet \cup TrSet = 1..D /\ IdSet \cap TrSet = {}
                       /\ Len(ident) + Len(trans) = D
                       /\ IdSet = {i \in 1..D : mask[i] <= 0}
\* C07: identity features are returned unchanged (pure copies of the same element)
IdentityCopied == (Applied /\ ~uncond) => \A f \in IdSet : \A p \in Pixels : src[f][p] = <<f, p>>
\* identity outputs never depend on anything but their own element
IdentityOwnOnly == Applied => \A f \in IdSet : \A p \in Pixels : dep[f][p] = {<<f, p>>}
\* transformed outputs: own element + identity features (any pixel), never another transformed one
OwnInputOnly == Applied => \A f \in TrSet : \A p \in Pixels :
                   /\ <<f, p>> \in dep[f][p]
                   /\ \A e \in dep[f][p] : e = <<f, p>> \/ e[1] \in IdSet
\* the conditioner never sees a transformed feature
ConditionerSeesIdentityOnly == Applied => \A e \in condIn : e[1] \in IdSet
\* C07: identity features are never the reason for a rejection
IdentityNeverRejected == (Called /\ ~uncond /\ outside \subseteq IdSet) => outcome = "Value"
RejectedIffCheckedOutside == Called => (outcome = "InputOutsideDomain" <=> (bounded /\ outside \cap Checked # {}))
\* hence the Jacobian is triangular up to the permutation (identity features first)
Triangular == Applied => \A f \in 1..D : \A p \in Pixels : \A e \in dep[f][p] :
                 e = <<f, p>> \/ (e[1] \in IdSet /\ f \in TrSet)
=============================================================================
