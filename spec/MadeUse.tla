------------------------------ MODULE MadeUse ------------------------------
(***************************************************************************)
(* Life of a constructed MADE network: mode switches, forward passes and   *)
(* weights arriving in every way weights can arrive (in-place edit,        *)
(* optimiser step, load_state_dict).  C06 quantifies over ALL weight       *)
(* values, so the dependency relation fixed by the masks (Made.tla) must   *)
(* hold after every history: no step may let a forward pass use weights    *)
(* that were not masked.  The model has no memory of earlier weights -     *)
(* `masked` is an invariant TRUE; the harness walks every edge of this     *)
(* graph on real networks and measures the dependency pattern at every     *)
(* Forward.  Anchor: MaskedLinear.forward (weight * mask at call time).    *)
(***************************************************************************)
EXTENDS Integers, TLC

\* warmed: a forward pass ran since the last mode switch; dirty: weights arrived after that pass.
\* Neither influences the specified behaviour - they are the history features a memoising
\* implementation could (wrongly) key on, kept in the state so that an edge cover of the graph
\* contains  mode switch -> forward -> new weights -> forward  for every way of setting weights.
VARIABLES mode, wset, how, warmed, dirty, masked
vars == <<mode, wset, how, warmed, dirty, masked>>

WeightSets == {"ones", "randA", "randB"}
Hows == {"inplace", "load", "opt"}

Init == mode = "train" /\ wset = "ones" /\ how = "inplace" /\ warmed = FALSE /\ dirty = FALSE /\ masked = TRUE

Train == mode' = "train" /\ warmed' = FALSE /\ dirty' = FALSE /\ UNCHANGED <<wset, how, masked>>
Eval == mode' = "eval" /\ warmed' = FALSE /\ dirty' = FALSE /\ UNCHANGED <<wset, how, masked>>
\* the mask is applied to the current weights at call time
Forward == warmed' = TRUE /\ dirty' = FALSE /\ masked' = TRUE /\ UNCHANGED <<mode, wset, how>>
SetWeights(w, h) ==
  /\ (h = "opt" => mode = "train")
  /\ wset' = w /\ how' = h /\ dirty' = warmed
  /\ UNCHANGED <<mode, warmed, masked>>

Next == Train \/ Eval \/ Forward \/ \E w \in WeightSets, h \in Hows : SetWeights(w, h)
Spec == Init /\ [][Next]_vars

AlwaysMasked == masked
=============================================================================
