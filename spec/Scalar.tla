------------------------------ MODULE Scalar ------------------------------
(***************************************************************************)
(* Domains of the elementwise transforms with a restricted domain          *)
(* (nflows/transforms/nonlinearities.py) and the outcome of a call for     *)
(* inputs placed on, just inside and just outside the boundary, anywhere   *)
(* in a batch (C17).  A domain is an interval with open or closed ends:    *)
(*   Exp.inverse          (0, +inf)     raises if min(inputs) <= 0         *)
(*   Tanh.inverse         (-1, 1)       raises if min <= -1 or max >= 1    *)
(*   Sigmoid.inverse      [0, 1]        raises if min < 0 or max > 1       *)
(*   Logit.forward        [0, 1]        (is Sigmoid.inverse)               *)
(*   CauchyCDF.inverse    [0, 1]                                           *)
(*   CauchyCDFInverse.forward [0, 1]                                       *)
(* Input classes are positions relative to one end of the interval; the    *)
(* harness maps them to concrete floats (including 1 ulp neighbours,       *)
(* denormals and -0.0).  The domain does not depend on the module's mode   *)
(* (train / eval) nor on how the call arrives (directly, through a         *)
(* CompositeTransform, or as the other direction of an InverseTransform).  *)
(***************************************************************************)
EXTENDS Integers, FiniteSets, TLC

Transforms ==
  { [name |-> "Exp.inverse", lo |-> "0", hi |-> "inf", loClosed |-> FALSE, hiClosed |-> FALSE],
    [name |-> "Tanh.inverse", lo |-> "-1", hi |-> "1", loClosed |-> FALSE, hiClosed |-> FALSE],
    [name |-> "Sigmoid.inverse", lo |-> "0", hi |-> "1", loClosed |-> TRUE, hiClosed |-> TRUE],
    [name |-> "Logit.forward", lo |-> "0", hi |-> "1", loClosed |-> TRUE, hiClosed |-> TRUE],
    [name |-> "CauchyCDF.inverse", lo |-> "0", hi |-> "1", loClosed |-> TRUE, hiClosed |-> TRUE],
    [name |-> "CauchyCDFInverse.forward", lo |-> "0", hi |-> "1", loClosed |-> TRUE, hiClosed |-> TRUE] }

\* position of the probed element relative to the interval
Classes == {"far_below", "below_tiny", "below_ulp", "at_lo", "above_lo_ulp", "inside",
            "below_hi_ulp", "at_hi", "above_hi_ulp", "above_tiny", "far_above"}
OutsideLo == {"far_below", "below_tiny", "below_ulp"}
OutsideHi == {"above_hi_ulp", "above_tiny", "far_above"}

VARIABLES tr, cls, batch, pos, mode, via, outcome
vars == <<tr, cls, batch, pos, mode, via, outcome>>

InDomain(t, c) ==
  IF c \in OutsideLo THEN FALSE
  ELSE IF c \in OutsideHi THEN t.hi = "inf"
  ELSE IF c = "at_lo" THEN t.loClosed
  ELSE IF c = "at_hi" THEN (t.hi = "inf" \/ t.hiClosed)
  ELSE TRUE

Init ==
  /\ tr \in Transforms /\ cls \in Classes
  /\ batch \in {1, 3}                 \* rows of the batch; every other element is well inside
  /\ pos \in 1..3 /\ pos <= batch * 1 + 2   \* flat position of the probed element (3 features per row)
  /\ mode \in {"train", "eval"} /\ via \in {"direct", "composite", "inverse"}
  /\ outcome = IF InDomain(tr, cls) THEN "Value" ELSE "InputOutsideDomain"
Next == UNCHANGED vars
Spec == Init /\ [][Next]_vars

\* C17: out-of-domain inputs are rejected, in-domain inputs are accepted - wherever they sit
InDomainAccepted == InDomain(tr, cls) => outcome = "Value"
OutOfDomainRejected == ~InDomain(tr, cls) => outcome = "InputOutsideDomain"
EndPointsFollowClosedness ==
  /\ (cls = "at_lo" => (outcome = "Value" <=> tr.loClosed))
  /\ (cls = "at_hi" /\ tr.hi # "inf" => (outcome = "Value" <=> tr.hiClosed))
=============================================================================
