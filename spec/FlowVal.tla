------------------------------ MODULE FlowVal ------------------------------
(***************************************************************************)
(* A flow = a chain of transformers + a base distribution (C03).  The      *)
(* density is normalised iff (i) the chain maps the data space one-to-one  *)
(* ONTO the support of the base, (ii) log_prob = base log-density at the   *)
(* transformed point + the summed log-abs-dets, each term exactly once,    *)
(* (iii) the base is normalised (C05).  (i) is decided here compositionally*)
(* on intervals: every transformer type maps a domain interval onto a      *)
(* range interval (C09 / C17 establish this per transformer), a chain is   *)
(* well-formed iff each range is the next domain, and it is onto the base  *)
(* support iff the last range is that support.  TLC enumerates every       *)
(* program up to a length; the harness builds the well-formed ones from    *)
(* real library transforms (data dimension 1 and 2) and integrates         *)
(* exp(log_prob) by quadrature, as the property prescribes.                *)
(* Anchors: flows/base.py Flow._log_prob.                                  *)
(***************************************************************************)
EXTENDS Integers, Sequences, FiniteSets, TLC

CONSTANT MaxLen

\* intervals: "R" = the real line, "U" = [0, 1], "P" = (0, inf), "S" = (-1, 1)
Atoms ==
  { [name |-> "affine", dom |-> "R", ran |-> "R"],
    [name |-> "linear", dom |-> "R", ran |-> "R"],            \* LU / QR / SVD / naive / Householder
    [name |-> "permutation", dom |-> "R", ran |-> "R"],
    [name |-> "coupling", dom |-> "R", ran |-> "R"],
    [name |-> "autoregressive", dom |-> "R", ran |-> "R"],
    [name |-> "spline_tails", dom |-> "R", ran |-> "R"],      \* identity outside the tail bound
    [name |-> "logtanh", dom |-> "R", ran |-> "R"],
    [name |-> "leakyrelu", dom |-> "R", ran |-> "R"],
    [name |-> "actnorm", dom |-> "R", ran |-> "R"],
    [name |-> "batchnorm", dom |-> "R", ran |-> "R"],         \* evaluation mode: running statistics, the layer's own eps
    [name |-> "sigmoid", dom |-> "R", ran |-> "U"],
    [name |-> "cauchycdf", dom |-> "R", ran |-> "U"],
    [name |-> "spline_unit", dom |-> "U", ran |-> "U"],       \* bounded spline on [0, 1]
    [name |-> "logit", dom |-> "U", ran |-> "R"],
    [name |-> "exp", dom |-> "R", ran |-> "P"],
    [name |-> "tanh", dom |-> "R", ran |-> "S"] }

\* base distributions and their supports
Bases == { [name |-> "StandardNormal", support |-> "R", usesContext |-> FALSE],
           [name |-> "ConditionalDiagonalNormal", support |-> "R", usesContext |-> TRUE],
           [name |-> "DiagonalNormal", support |-> "R", usesContext |-> FALSE],
           [name |-> "MADEMoG", support |-> "R", usesContext |-> FALSE] }    \* autoregressive mixture of Gaussians

VARIABLES prog, base, ctx, wellFormed, onto, terms
vars == <<prog, base, ctx, wellFormed, onto, terms>>

Programs == UNION {[1..n -> Atoms] : n \in 1..MaxLen}

Chained(p) == \A i \in 1..(Len(p) - 1) : p[i].ran = p[i + 1].dom
\* the terms of log_prob(x | context): one log-abs-det per transformer, one base log-density
TermsOf(p, b, c) ==
  [lads |-> [i \in 1..Len(p) |-> [stage |-> i, context |-> c]],
   baseTerm |-> [at |-> Len(p), context |-> IF b.usesContext THEN c ELSE FALSE]]

Init ==
  /\ prog \in Programs /\ base \in Bases /\ ctx \in BOOLEAN
  /\ (base.usesContext => ctx)
  /\ wellFormed = (Chained(prog) /\ prog[1].dom = "R")          \* data live on the real line
  /\ onto = (Chained(prog) /\ prog[Len(prog)].ran = base.support)
  /\ terms = TermsOf(prog, base, ctx)
Next == UNCHANGED vars
Spec == Init /\ [][Next]_vars

\* every stage contributes exactly one log-abs-det, evaluated under the (embedded) context
TermsExactlyOnce ==
  /\ Len(terms.lads) = Len(prog)
  /\ \A i \in 1..Len(prog) : terms.lads[i].stage = i /\ terms.lads[i].context = ctx
  /\ terms.baseTerm.at = Len(prog)
\* a chain that squashes to the unit interval and never returns cannot feed a Gaussian base
OntoSupport == (wellFormed /\ onto) => prog[Len(prog)].ran = base.support
NormalisedIff == (wellFormed /\ ~onto) => prog[Len(prog)].ran # base.support
=============================================================================
