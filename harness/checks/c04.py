"""C04 - samples and densities of a flow agree, row by row.

(S) TLC checks RowPairing / RowPlacement of spec/DistApi.tla: every draw is inverse-transformed and
    scored under the context row it was generated under, and lands in that row's block.
(R) every sample_and_log_prob / sample call enumerated by TLC is executed on real flows and
    distributions (with and without embedding network): the returned log-prob must equal what log_prob
    assigns to the returned sample under context row i (the harness repeats the context itself);
    context-marker flows reveal the row behind every draw; with the random generator replaced by a
    stream chosen by the harness the sample must equal T^-1(mean_i + std_i * z) exactly (push-forward
    identity, which together with C03 gives the distributional claim).
"""
from __future__ import annotations

import warnings

from vcore import tlc as T
from vcore.pool import pmap
from vcore.tlaval import parse_dump

from checks.c18 import CONSTS, INVS


def models():
    """name -> (builder, event, context mode, context width, marker)"""
    import torch
    from nflows import distributions as D
    from nflows import flows as FL
    from nflows import transforms as TR
    from nflows.distributions.mixture import MADEMoG
    from nflows.nn import nets

    def res(ctxf):
        return lambda i, o: nets.ResidualNet(i, o, hidden_features=6, context_features=ctxf, num_blocks=1)

    def perturb(m, seed=3):
        g = torch.Generator().manual_seed(seed)
        with torch.no_grad():
            for p in m.parameters():
                p.add_(0.2 * torch.randn(p.shape, generator=g))
        return m

    def conv_with_shuffle(channels):
        # the channel permutation is drawn in the constructor: draw until it actually moves channels (one draw in
        # 24 is the identity, under which the order of un-mixing and un-permuting cannot be seen)
        for _ in range(50):
            m = TR.OneByOneConvolution(channels, identity_init=False)
            if m.permutation._permutation.tolist() != list(range(channels)):
                return m
        return m

    def warmed(m, d):
        # running statistics as training leaves them: two training-mode passes over non-centred data
        m.train()
        g = torch.Generator().manual_seed(21)
        with torch.no_grad():
            for _ in range(2):
                m.log_prob(torch.randn(32, d, generator=g) * 1.7 + 1.3)
        return m

    return {
        "Flow(affine|StandardNormal)": (lambda: FL.base.Flow(TR.PointwiseAffineTransform(shift=0.5, scale=2.0), D.StandardNormal([2])), (2,), "optional", 3, False),
        "Flow(affine|CondNormal)/marker": (lambda: FL.base.Flow(TR.PointwiseAffineTransform(shift=0.5, scale=2.0), D.ConditionalDiagonalNormal([2])), (2,), "required", 4, True),
        "Flow(coupling+ctx|CondNormal)+embedding": (lambda: perturb(FL.base.Flow(TR.AffineCouplingTransform([1, -1, 1], res(4)), D.ConditionalDiagonalNormal([3], context_encoder=torch.nn.Linear(4, 6)), embedding_net=torch.nn.Linear(3, 4))), (3,), "required", 3, False),
        "Flow(LU+MAF ctx|StandardNormal)": (lambda: perturb(FL.base.Flow(TR.CompositeTransform([TR.LULinear(3, identity_init=False), TR.MaskedAffineAutoregressiveTransform(3, 8, context_features=3, num_blocks=1)]), D.StandardNormal([3]))), (3,), "optional", 3, False),
        "Flow(RQ coupling tails ctx|StandardNormal)+embedding": (lambda: perturb(FL.base.Flow(TR.PiecewiseRationalQuadraticCouplingTransform([1, 0, 1], res(2), num_bins=4, tails="linear", tail_bound=3.0), D.StandardNormal([3]), embedding_net=torch.nn.Linear(3, 2))), (3,), "required", 3, False),
        "Flow(RQ coupling + unconditional transform|StandardNormal)": (lambda: perturb(FL.base.Flow(TR.PiecewiseRationalQuadraticCouplingTransform([1, 0, 1], res(None), num_bins=4, tails="linear", tail_bound=3.0, apply_unconditional_transform=True), D.StandardNormal([3]))), (3,), "none", 0, False),
        "Flow(Inverse(MAF ctx)|StandardNormal)": (lambda: perturb(FL.base.Flow(TR.InverseTransform(TR.MaskedAffineAutoregressiveTransform(3, 8, context_features=3, num_blocks=1)), D.StandardNormal([3])), 5), (3,), "required", 3, False),
        "Flow(NaiveLinear cached + affine|StandardNormal)": (lambda: perturb(FL.base.Flow(TR.CompositeTransform([TR.NaiveLinear(3, orthogonal_initialization=False, using_cache=True), TR.PointwiseAffineTransform(shift=torch.tensor([0.3, -0.2, 0.1]), scale=torch.tensor([1.5, 0.7, 2.0]))]), D.StandardNormal([3])), 7), (3,), "none", 0, False),
        "Flow(SVD + affine|StandardNormal)": (lambda: perturb(FL.base.Flow(TR.CompositeTransform([TR.SVDLinear(3, num_householder=4, identity_init=False), TR.PointwiseAffineTransform(shift=torch.tensor([0.1, -0.3, 0.2]), scale=torch.tensor([2.0, 0.6, 1.3])), TR.QRLinear(3, num_householder=3)]), D.StandardNormal([3])), 13), (3,), "none", 0, False),
        "MaskedAutoregressiveFlow/batch-norm-between (statistics from training passes)": (lambda: warmed(perturb(FL.MaskedAutoregressiveFlow(3, 8, num_layers=2, num_blocks_per_layer=1, batch_norm_between_layers=True)), 3), (3,), "none", 0, False),
        "SimpleRealNVP/batch-norm-between (statistics from training passes)": (lambda: warmed(perturb(FL.SimpleRealNVP(4, 8, num_layers=2, num_blocks_per_layer=1, batch_norm_between_layers=True)), 4), (4,), "none", 0, False),
        "MaskedAutoregressiveFlow": (lambda: perturb(FL.MaskedAutoregressiveFlow(3, 8, num_layers=2, num_blocks_per_layer=1)), (3,), "none", 0, False),
        "MaskedAutoregressiveFlow/random-permutations": (lambda: perturb(FL.MaskedAutoregressiveFlow(4, 8, num_layers=2, num_blocks_per_layer=1, use_random_permutations=True)), (4,), "none", 0, False),
        "Flow(Logit T=1.5 + LU|StandardNormal)": (lambda: perturb(FL.base.Flow(TR.CompositeTransform([TR.Logit(temperature=1.5), TR.LULinear(3, identity_init=False)]), D.StandardNormal([3])), 9), (3,), "none", 0, False),
        "Flow(1x1 convolution|StandardNormal [4,1,2])": (lambda: perturb(FL.base.Flow(conv_with_shuffle(4), D.StandardNormal([4, 1, 2])), 11), (4, 1, 2), "none", 0, False),
        # one gate value per context row, broadcast over the features (the two directions must count it alike)
        "Flow(GLU row gate + affine|StandardNormal)": (lambda: FL.base.Flow(TR.CompositeTransform([TR.GatedLinearUnit(), TR.PointwiseAffineTransform(shift=torch.tensor([0.3, -0.2, 0.1]), scale=torch.tensor([1.5, 0.7, 2.0]))]), D.StandardNormal([3])), (3,), "required", 1, False),
        "Flow(GLU + embedding to one gate|CondNormal)": (lambda: perturb(FL.base.Flow(TR.GatedLinearUnit(), D.ConditionalDiagonalNormal([3], context_encoder=torch.nn.Linear(1, 6)), embedding_net=torch.nn.Linear(4, 1)), 17), (3,), "required", 4, False),
        # a squeeze of a non-square image in front of a channel-mixing layer: forward and inverse routes must be inverse to each other
        "Flow(Squeeze + 1x1 convolution|StandardNormal [4,1,3]) on 1x2x6 images": (lambda: perturb(FL.base.Flow(TR.CompositeTransform([TR.SqueezeTransform(2), conv_with_shuffle(4)]), D.StandardNormal([4, 1, 3])), 13), (1, 2, 6), "none", 0, False),
        "Flow(Squeeze + 1x1 convolution|StandardNormal [4,3,1]) on 1x6x2 images": (lambda: perturb(FL.base.Flow(TR.CompositeTransform([TR.SqueezeTransform(2), conv_with_shuffle(4)]), D.StandardNormal([4, 3, 1])), 14), (1, 6, 2), "none", 0, False),
        "SimpleRealNVP": (lambda: perturb(FL.SimpleRealNVP(4, 8, num_layers=2, num_blocks_per_layer=1)), (4,), "none", 0, False),
        "StandardNormal": (lambda: D.StandardNormal([3]), (3,), "optional", 3, False),
        "ConditionalDiagonalNormal/marker": (lambda: D.ConditionalDiagonalNormal([2]), (2,), "required", 4, True),
        "ConditionalDiagonalNormal": (lambda: perturb(D.ConditionalDiagonalNormal([3], context_encoder=torch.nn.Linear(3, 6))), (3,), "required", 3, False),
        "ConditionalIndependentBernoulli": (lambda: perturb(D.ConditionalIndependentBernoulli([3], context_encoder=torch.nn.Linear(3, 3))), (3,), "required", 3, False),
        "MADEMoG": (lambda: perturb(MADEMoG(3, 8, 3, num_blocks=1, num_mixture_components=2)), (3,), "required", 3, False),
    }


def make_context(torch, rows, width, marker, g):
    if rows == 0:
        return None
    if marker:
        d = width // 2
        means = (torch.arange(rows, dtype=torch.float32).view(-1, 1) * 1000.0 + 100.0).expand(rows, d)
        # row-dependent spread as well, so that a draw carrying another row's scale is visible
        log_stds = (-2.0 - 0.5 * torch.arange(rows, dtype=torch.float32)).view(-1, 1).expand(rows, d)
        return torch.cat([means, log_stds], dim=1)
    return torch.randn(rows, width, generator=g)


def task(t):
    warnings.filterwarnings("ignore")
    import torch

    torch.set_num_threads(1)
    name, states, seed = t[:3]
    history = t[3] if len(t) > 3 else "fresh"
    build, event, cmode, width, marker = models()[name]
    out = {"n": 0, "fails": [], "drift": []}
    torch.manual_seed(seed)
    try:
        m = build()
        if history == "after_load":
            # the model that is used was built under another seed and received this one's checkpoint
            torch.manual_seed(seed + 1001)
            m2 = build()
            m2.load_state_dict({k: v.clone() for k, v in m.state_dict().items()})
            m = m2
    except Exception as e:
        out["drift"].append("%s cannot be built: %r" % (name, e))
        return out
    m.eval()
    if history == "after_training_round":
        # the life-cycle around a call (Session.tla: Eval, Call, Train, TrainStep, Eval): the model was sampled from in
        # an earlier evaluation phase, trained on, and is evaluated again - whatever an earlier phase left behind
        # (cached factors, statistics) must not make sampler and density disagree now
        try:
            g0 = torch.Generator().manual_seed(seed + 77)
            with torch.no_grad():
                if cmode == "required":
                    m.sample(2, context=make_context(torch, 2, width, marker, g0))
                else:
                    m.sample(2)
            m.train()
            with torch.no_grad():
                for p_ in m.parameters():
                    p_.add_(0.15 * torch.randn(p_.shape, generator=g0))
            m.eval()
        except Exception as e:
            out["drift"].append("%s: the training round before the calls failed: %r" % (name, e))
            return out
    g = torch.Generator().manual_seed(seed + 11)
    isflow = name.startswith("Flow") or name in ("MaskedAutoregressiveFlow", "SimpleRealNVP")
    for st in states:
        call, spec = st["call"], st["out"]
        op = str(call["op"])
        if op not in ("slp", "sample") or str(call["n"]["k"]) != "int" or int(call["n"]["v"]) < 1:
            continue
        if op == "sample" and str(call["bs"]["k"]) not in ("none", "int"):
            continue
        if op == "sample" and str(call["bs"]["k"]) == "int" and int(call["bs"]["v"]) < 1:
            continue
        rows, n = int(call["rows"]), int(call["n"]["v"])
        if (cmode == "none" and rows > 0) or (cmode == "required" and rows == 0):
            continue
        ctx = make_context(torch, rows, width, marker, g)
        ctx0 = ctx.clone() if ctx is not None else None   # what the caller passed, whatever the call does to it
        case = {"model": name, "op": op, "n": n, "rows": rows, "bs": (int(call["bs"]["v"]) if op == "sample" and str(call["bs"]["k"]) == "int" else None), "seed": seed, "history": history}
        out["n"] += 1
        torch.manual_seed(seed + 5)
        try:
            with torch.no_grad():
                if op == "slp":
                    s, lp = m.sample_and_log_prob(n, context=ctx) if ctx is not None else m.sample_and_log_prob(n)
                else:
                    kw = {"batch_size": case["bs"]} if case["bs"] else {}
                    s = m.sample(n, context=ctx, **kw) if ctx is not None else m.sample(n, **kw)
                    lp = None
        except Exception as e:
            out["fails"].append(dict(case, clause="raises", detail="%s(%d, context rows=%d) raised %r" % (op, n, rows, e)))
            continue
        eshape = ((rows, n) if rows else (n,)) + tuple(event)
        if tuple(s.shape) != eshape:
            out["fails"].append(dict(case, clause="shape", detail="%s returned samples of shape %s, documented %s" % (op, tuple(s.shape), eshape)))
            continue
        # row-by-row agreement: the harness pairs draw (i, j) with context row i itself
        with torch.no_grad():
            if rows:
                x = s.reshape(rows * n, *event)
                c = ctx0.repeat_interleave(n, dim=0)
                lp2 = m.log_prob(x, context=c).reshape(rows, n)
            else:
                lp2 = m.log_prob(s)
        if lp is not None:
            if lp.shape != lp2.shape:
                out["fails"].append(dict(case, clause="shape", detail="log-prob shape %s, documented %s" % (tuple(lp.shape), tuple(lp2.shape))))
                continue
            err = (lp - lp2).abs() / (1.0 + lp2.abs())
            if not bool((err <= 5e-4).all()) or not bool(torch.isfinite(lp).all()):
                i = int(err.reshape(-1).argmax())
                out["fails"].append(dict(case, clause="density_of_sample", detail="sample_and_log_prob returned %.6g for a sample whose log_prob under its own context row is %.6g (draw %d)" % (float(lp.reshape(-1)[i]), float(lp2.reshape(-1)[i]), i)))
        elif not bool(torch.isfinite(lp2).all()):
            out["fails"].append(dict(case, clause="density_of_sample", detail="sample(...) returned a draw with non-finite log_prob under its own context row"))
        if marker and rows:
            # which context row is behind every draw
            val = s.mean(dim=-1)
            if isflow:
                val = val * 2.0 + 0.5
            rowof = torch.round((val - 100.0) / 1000.0)
            exp = torch.arange(rows, dtype=rowof.dtype).view(-1, 1).expand(rows, n)
            if not torch.equal(rowof, exp):
                out["fails"].append(dict(case, clause="row_of_draw", detail="%s: draws were generated under context rows %s, documented block i <- row i" % (op, rowof.tolist())))
            # push-forward identity under a controlled generator
            orig = torch.randn
            stream = {"k": 0}

            def fake(*size, **kw):
                if len(size) == 1 and isinstance(size[0], (tuple, list)):
                    size = tuple(size[0])
                num = 1
                for v in size:
                    num *= int(v)
                z = (torch.arange(num, dtype=torch.float32) + stream["k"]).reshape(*size) * 0.125 - 1.0
                stream["k"] += num
                return z

            torch.randn = fake
            try:
                with torch.no_grad():
                    s2 = m.sample(n, context=ctx0.clone())
            finally:
                torch.randn = orig
            z = ((torch.arange(rows * n * event[0], dtype=torch.float32)).reshape(rows, n, event[0]) * 0.125 - 1.0)
            d = width // 2
            mean = ctx0[:, :d].unsqueeze(1)
            std = torch.exp(ctx0[:, d:]).unsqueeze(1)
            expect = mean + std * z
            if isflow:
                expect = (expect - 0.5) / 2.0
            if s2.shape != expect.shape or not torch.allclose(s2, expect, rtol=1e-5, atol=1e-4):
                out["fails"].append(dict(case, clause="pushforward", detail="with the generator fixed, sample != T^-1(mean_i + std_i * z): max diff %.4g" % (float((s2 - expect).abs().max()) if s2.shape == expect.shape else -1.0)))
    return out


def main(run, replay=None):
    run.rule = (
        "cases = every valid sample_and_log_prob / sample call (draw counts 1..MaxN, context rows 0..3, batch sizes) enumerated "
        "by TLC, executed on each flow / distribution; non-trivial = distinct (model, operation, n, rows, batch size) with a context"
    )
    thorough = run.tier == "thorough"
    consts = dict(CONSTS)
    if thorough:
        consts.update(MaxN=7, MaxBS=8)
    res = T.run_tlc("DistApi", T.cfg(constants=consts, invariants=INVS), dump=True, name="distapi", workers=4)
    run.model_must_hold(res, "DistApi")
    run.add_tlc(res, "DistApi (RowPairing, RowPlacement)")
    states = parse_dump(res.dump)
    if replay and replay["case"].get("kind") == "mog_sigma":
        import torch

        from checks.c05 import mog_sigma_fails

        for msg in mog_sigma_fails(torch, replay["case"]["features"]):
            run.violation({"model": "MixtureOfGaussiansMADE", "clause": "sampler_vs_density"}, "replayed: " + msg, replay["case"])
        return
    if replay:
        c = replay["case"]
        sts = [s for s in states if str(s["call"]["op"]) == c["op"] and str(s["call"]["n"]["k"]) == "int" and int(s["call"]["n"]["v"]) == c["n"] and int(s["call"]["rows"]) == c["rows"]
               and (c["op"] == "slp" or (c["bs"] is None and str(s["call"]["bs"]["k"]) == "none") or (c["bs"] is not None and str(s["call"]["bs"]["k"]) == "int" and int(s["call"]["bs"]["v"]) == c["bs"]))]
        out = task((c["model"], sts, c["seed"], c.get("history", "fresh")))
        for f in out["fails"]:
            run.violation({"model": f["model"], "clause": f["clause"], "op": f["op"]}, "replayed: " + f["detail"], c)
        return
    fails = []
    seeds = (0, 1, 2) if thorough else (0,)
    for out in pmap(task, [(n, states, run.seed * 10 + s, h) for n in models() for s in seeds for h in ("fresh", "after_load", "after_training_round")]):
        run.evaluations += out["n"]
        fails += out["fails"]
        for d in out["drift"]:
            run.note_drift(d)
    for s in states:
        c = s["call"]
        if str(c["op"]) in ("slp", "sample") and str(c["n"]["k"]) == "int" and int(c["n"]["v"]) > 0 and int(c["rows"]) > 0:
            run.nontrivial.add((str(c["op"]), int(c["n"]["v"]), int(c["rows"]), repr(c.get("bs"))))
    ex = next(s for s in states if str(s["call"]["op"]) == "slp" and str(s["call"]["n"]["k"]) == "int" and int(s["call"]["n"]["v"]) == 2 and int(s["call"]["rows"]) == 3)
    run.sample({"call": "sample_and_log_prob(2, context with 3 rows)", "spec_pairs(generated under row, scored under row)": [[int(a), int(b)] for a, b in ex["out"]["pairs"]]})
    if not replay:
        # the sampler of the mixture-of-Gaussians MADE against the density's own component (mean and spread read off
        # the density's gradient and curvature): under the constant stream z = 1 a draw is mu + sigma
        import torch

        from checks.c05 import mog_sigma_fails

        for dd in (1, 2, 3):
            run.evaluations += 3
            for msg in mog_sigma_fails(torch, dd):
                run.violation({"model": "MixtureOfGaussiansMADE", "clause": "sampler_vs_density", "features": dd}, msg, {"kind": "mog_sigma", "features": dd})
    seen = set()
    for f in fails:
        key = (f["model"], f["clause"], f["op"], f["n"], f["rows"], f["bs"], f.get("history"))
        if key in seen:
            continue
        seen.add(key)
        run.violation({"model": f["model"], "clause": f["clause"], "op": f["op"]}, "%s%s %s(n=%d, rows=%d, batch_size=%s): %s" % (f["model"], {"after_load": " [built under another seed, this checkpoint loaded]", "after_training_round": " [sampled from, trained on, evaluated again]"}.get(f.get("history"), ""), f["op"], f["n"], f["rows"], f["bs"], f["detail"]), {k: v for k, v in f.items() if k != "detail"})
    run.exhaustive = True
    run.assumptions = [
        "the distributional clause (empirical CDF convergence) is not decided by this technique: it is replaced by the push-forward identity under a harness-controlled generator plus C03 / C05; torch's generators are trusted",
        "float32 models; a returned log-prob may differ from log_prob(sample) by 5e-4 relative (inverse vs forward pass rounding)",
    ]
