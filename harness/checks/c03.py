"""C03 - a flow's log_prob is a normalised probability density.

(S) TLC: spec/FlowVal.tla enumerates every program (chain of transformer types) up to a length x base
    distribution x context and decides compositionally, on intervals, whether the chain maps the data space
    onto the base support; log_prob's terms (one log-abs-det per stage, the base term, all under the same
    embedded context) appear exactly once.  Per-transformer bijectivity is C09 / C17, base normalisation C05.
(R) every well-formed, onto program is built from real library transforms in data dimension 1 (and 2 for
    a sample) and exp(log_prob) is integrated by composite Gauss-Legendre quadrature after the substitution
    x = sinh(t) (heavy tails), per context row - the method the property prescribes; programs that are not
    onto are integrated too and must NOT give one (the specification discriminates).  Linear stages are also
    integrated with the weight cache on after a sampling call (inverse-first history).
"""
from __future__ import annotations

import math
import warnings

from vcore import tlc as T
from vcore.pool import pmap
from vcore.tlaval import parse_dump

FAMS = ["Linear", "Quadratic", "Cubic", "RationalQuadratic"]


def build_atom(torch, name, D, pos, ctxf, seed):
    from nflows import transforms as TR
    from nflows.nn import nets
    from nflows.transforms import nonlinearities as NL

    g = torch.Generator().manual_seed(seed + 17 * pos)

    def perturb(m, amp=0.4):
        with torch.no_grad():
            for p in m.parameters():
                p.add_(amp * torch.randn(p.shape, generator=g))
        return m

    if name == "affine":
        k = 1.0 + 0.5 * (seed % 3)
        return TR.PointwiseAffineTransform(shift=torch.linspace(0.3, -0.4, D) * k, scale=torch.linspace(1.7, -0.6, D) * k)
    if name == "linear":
        k = (pos + seed) % 4
        if k == 0:
            return perturb(TR.LULinear(D, using_cache=True, identity_init=False))
        if k == 1:
            return perturb(TR.QRLinear(D, num_householder=3, using_cache=True))
        if k == 2:
            return perturb(TR.SVDLinear(D, num_householder=2, using_cache=True, identity_init=False))
        m = TR.NaiveLinear(D, orthogonal_initialization=False, using_cache=True)
        with torch.no_grad():
            m._weight.copy_(torch.eye(D) * 1.8 + 0.3 * torch.randn(D, D, generator=g))
            m.bias.copy_(0.2 * torch.randn(D, generator=g))
        return m
    if name == "permutation":
        return TR.ReversePermutation(D)
    if name == "coupling":
        if D < 2:
            return None
        # every second one with an unconditional transform of the identity features (its log-det counts too)
        ut = (lambda features: TR.PointwiseAffineTransform(shift=0.2, scale=1.6)) if (pos + seed) % 2 == 0 else None
        return perturb(TR.AffineCouplingTransform([1, -1], lambda i, o: nets.ResidualNet(i, o, hidden_features=6, context_features=ctxf, num_blocks=1), unconditional_transform=ut), 0.3)
    if name == "autoregressive":
        return perturb(TR.MaskedAffineAutoregressiveTransform(D, 6, context_features=ctxf, num_blocks=1), 0.3)
    # the floors on bin widths / heights are arguments too (different from each other on every second stage)
    def mins(fam):
        if fam == "Linear" or (pos + seed) % 2:
            return {}
        return {"min_bin_width": 0.02, "min_bin_height": 0.08}

    if name == "spline_tails":
        fam = FAMS[(pos + seed) % 4]
        return perturb(getattr(NL, "Piecewise%sCDF" % fam)([D], num_bins=4, tails="linear", tail_bound=2.5, **mins(fam)), 0.6)
    if name == "spline_unit":
        fam = FAMS[(pos + seed) % 4]
        return perturb(getattr(NL, "Piecewise%sCDF" % fam)([D], num_bins=4, **mins(fam)), 0.6)
    if name == "logtanh":
        return NL.LogTanh(cut_point=2.0 if (pos + seed) % 2 == 0 else 0.7)
    if name == "leakyrelu":
        # the constructor accepts every positive slope: also one above 1
        return NL.LeakyReLU(0.3 if (pos + seed) % 2 == 0 else 2.5)
    if name == "actnorm":
        m = TR.ActNorm(D)
        with torch.no_grad():
            if D == 1 and (pos + seed) % 3 != 0:
                # scales as data-dependent initialisation leaves them on badly scaled features (std 270 / 0.004)
                m.log_scale.fill_(-5.6 if (pos + seed) % 3 == 1 else 5.5)
            else:
                m.log_scale.copy_(torch.linspace(0.4, -0.3, D))
            m.shift.copy_(torch.linspace(-0.2, 0.5, D))
            m.initialized.data = torch.tensor(True)
        return m
    if name == "batchnorm":
        # evaluation mode: running statistics as left by training, small against a non-default eps
        m = TR.BatchNorm(D, eps=(1e-2, 1e-3, 1e-5)[(pos + seed) % 3])
        with torch.no_grad():
            m.running_mean.copy_(torch.linspace(0.3, -0.2, D))
            m.running_var.copy_(torch.linspace(0.3, 0.9, D) if D > 1 else torch.tensor([0.05]))   # D = 2 uses a fixed grid: keep the density wide
            m.unconstrained_weight.copy_(torch.linspace(0.2, 0.9, D))
            m.bias.copy_(torch.linspace(-0.1, 0.2, D))
        return m
    if name == "sigmoid":
        return NL.Sigmoid(temperature=0.8)
    if name == "cauchycdf":
        return NL.CauchyCDF()
    if name == "logit":
        return NL.Logit(temperature=1.2)
    if name == "exp":
        return NL.Exp()
    if name == "tanh":
        return NL.Tanh()
    raise ValueError(name)


def build_flow(torch, st, D, seed):
    from nflows import distributions as Dd
    from nflows import transforms as TR
    from nflows.flows.base import Flow

    ctx = bool(st["ctx"])
    ctxf = 2 if ctx else None
    torch.manual_seed(seed)   # constructors draw from the global generator
    parts = []
    for i, a in enumerate(st["prog"]):
        t = build_atom(torch, str(a["name"]), D, i, ctxf, seed)
        if t is None:
            return None
        parts.append(t)
    bname = str(st["base"]["name"])
    g = torch.Generator().manual_seed(seed + 99)
    if bname == "StandardNormal":
        base = Dd.StandardNormal([D])
    elif bname == "MADEMoG":
        from nflows.distributions.mixture import MADEMoG

        base = MADEMoG(D, 8, 2 if ctx else None, num_blocks=1, num_mixture_components=2)   # conditional when the flow is
        with torch.no_grad():
            for p_ in base.parameters():
                p_.add_(0.2 * torch.randn(p_.shape, generator=g))
    elif bname == "DiagonalNormal":
        base = Dd.DiagonalNormal([D])
        with torch.no_grad():
            base.mean_.copy_(0.3 * torch.randn(base.mean_.shape, generator=g))
            base.log_std_.copy_(0.3 * torch.randn(base.log_std_.shape, generator=g))
    elif D == 1:
        # identity encoder: the context row IS (mean, log_std); the harness uses a very confident row too
        base = Dd.ConditionalDiagonalNormal([D])
    else:
        enc = torch.nn.Linear(2, 2 * D)
        with torch.no_grad():
            enc.weight.copy_(0.4 * torch.randn(enc.weight.shape, generator=g))
            enc.bias.copy_(0.2 * torch.randn(enc.bias.shape, generator=g))
        base = Dd.ConditionalDiagonalNormal([D], context_encoder=enc)
    f = Flow(TR.CompositeTransform(parts), base)
    return f.double().eval()


def mass(torch, flow, D, ctx_row, panels, refine=False, T_override=None):
    """Integral of exp(log_prob) over R^D with x = sinh(t), t in [-T, T]."""
    from vcore.quad import integrate

    def lp(t):
        x = torch.sinh(t)
        c = ctx_row.expand(x.shape[0], -1) if ctx_row is not None else None
        try:
            v = flow.log_prob(x, c) if c is not None else flow.log_prob(x)
        except Exception:
            raise
        return v + torch.log(torch.cosh(t)).sum(-1)

    T_ = T_override or 18.0
    # a very confident base concentrates the mass in a spike: put panel edges geometrically around the
    # pre-image of the base mean so that the adaptive rule cannot step over it
    t0s = None
    try:
        with torch.no_grad():
            base = flow._distribution
            if hasattr(base, "_compute_params") and ctx_row is not None:
                mu = base._compute_params(flow._embedding_net(ctx_row))[0].reshape(1, -1)
            elif hasattr(base, "mean_"):
                mu = base.mean_.reshape(1, -1)
            else:
                mu = torch.zeros(1, D, dtype=torch.float64)
            # (on a copy: the flow under test keeps the cache state its history left it in)
            import copy as _copy

            x0 = _copy.deepcopy(flow)._transform.inverse(mu.double(), ctx_row)[0]
            t0s = [float(v) for v in torch.asinh(x0).reshape(-1)]
    except Exception:
        pass
    if D == 1:
        from vcore.quad import integrate_adaptive_1d

        extra = [t0s[0] + sgn * 10.0 ** k for k in range(-9, 1) for sgn in (-1.0, 1.0)] + [t0s[0]] if t0s else []
        # logarithmic tails (LogTanh) are extremely heavy: x = sinh(t) up to e^80
        return integrate_adaptive_1d(lp, -80.0, 80.0, tol=2e-8, init_panels=640, extra_edges=extra)
    if D == 2:
        from vcore.quad import integrate_adaptive_2d

        extra = tuple([t0 + sgn * 10.0 ** (k / 2.0) for k in range(-6, 1) for sgn in (-1.0, 1.0)] + [t0] for t0 in t0s) if t0s and len(t0s) == 2 else ((), ())
        tot, conv = integrate_adaptive_2d(lp, [(-T_, T_)] * 2, tol=2e-7 if refine else 2e-6, init_panels=96 if refine else 48, extra_edges=extra)
        return tot if conv else float("nan")   # not converged: no verdict
    return integrate(lp, [(-T_, T_)] * D, panels=panels, order=6, chunk=150000)


def expected_mass(torch, flow, names, ctx_row):
    """What exp(log_prob) of a D = 1 chain must integrate to.  1 for a chain that is onto the base support.
    Logit clamps its input u to [eps, 1 - eps] by design (Sigmoid.inverse): beyond the clamp its image is
    constant while its log-abs-det stays that of the clamp point.  So a chain through ONE Logit integrates to
      (base mass of the image of [eps, 1 - eps] under the rest of the chain)
      + eps * exp(log|det| of [logit .. end] at the clamp point + base log-density there), at either end
    - both terms are negligible when a Gaussian base follows directly, and O(1) when a compressing stage
    (LogTanh, a leaky ReLU, a small scale) follows.  Returns None where this accounting does not apply."""
    if "logit" not in names:
        return 1.0
    if names.count("logit") > 1:
        return 1.0 if names[-1] == "logit" and names.index("logit") == len(names) - 1 else None
    import math

    if type(flow._distribution).__name__ == "MADEMoG" and names[-1] != "logit":
        return None   # the accounting below integrates a Gaussian base in closed form

    parts = list(flow._transform._transforms)
    i = names.index("logit")
    eps = float(getattr(parts[i], "eps", 1e-6) if not hasattr(parts[i], "_transform") else parts[i]._transform.eps)
    with torch.no_grad():
        u = torch.tensor([[eps], [1.0 - eps]], dtype=torch.float64)
        c2 = ctx_row.expand(2, -1) if ctx_row is not None else None
        y, lad = u, torch.zeros(2, dtype=torch.float64)
        for t in parts[i:]:
            y, l = t.forward(y, c2)
            lad = lad + l
        base = flow._distribution
        if hasattr(base, "_compute_params") and ctx_row is not None:
            mu, ls = base._compute_params(flow._embedding_net(ctx_row))
        elif hasattr(base, "mean_"):
            mu, ls = base.mean_, base.log_std_
        else:
            mu, ls = torch.zeros(1, 1, dtype=torch.float64), torch.zeros(1, 1, dtype=torch.float64)
        m0, s0 = float(mu.reshape(-1)[0]), float(torch.exp(ls.reshape(-1)[0]))
        z = [(float(v) - m0) / s0 for v in y.reshape(-1)]
        lpb = [-0.5 * v * v - math.log(s0) - 0.5 * math.log(2 * math.pi) for v in z]
        spill = sum(eps * math.exp(float(lad[k]) + lpb[k]) for k in range(2))
    cdf = lambda v: 0.5 * math.erfc(-v / math.sqrt(2.0))
    return abs(cdf(z[1]) - cdf(z[0])) + spill


def flow_task(t):
    warnings.filterwarnings("ignore")
    import torch

    torch.set_num_threads(1)
    from nflows.transforms.linear import Linear

    states, D, seed = t
    out = {"n": 0, "fails": [], "drift": [], "skipped": []}
    for st in states:
        names = [str(a["name"]) for a in st["prog"]]
        onto = bool(st["onto"])
        case = {"prog": names, "base": str(st["base"]["name"]), "ctx": bool(st["ctx"]), "D": D, "seed": seed}
        try:
            flow = build_flow(torch, st, D, seed)
        except Exception as e:  # noqa
            out["skipped"].append("%s: cannot be built: %r" % (names, e))
            continue
        if flow is None:
            continue
        ctxs = torch.tensor([[0.5, -1.0], [-0.3, 0.8]], dtype=torch.float64) if case["ctx"] else [None]
        if case["ctx"] and case["base"] == "ConditionalDiagonalNormal" and D == 1:
            ctxs = torch.tensor([[0.5, -1.0], [-0.3, -7.5]], dtype=torch.float64)   # second row: std 5.5e-4
        # "cache_cold": the weight cache is on and empty, and the first thing the flow is asked for is a density
        # (the forward pass fills the cache); "cache_after_sample": the inverse pass filled it
        histories = ["plain"] + (["cache_after_sample", "cache_cold"] if "linear" in names and onto else [])
        if onto and ({"affine", "actnorm", "linear", "autoregressive", "coupling", "batchnorm"} & set(names)):
            histories.append("after_load")
        for hist in histories:
            for mod in flow.modules():
                if isinstance(mod, Linear):
                    mod.use_cache(hist in ("cache_after_sample", "cache_cold"))
                    mod.cache.invalidate()
            if hist == "after_load":
                # a flow built with other parameter / buffer values receives this flow's state dict
                try:
                    other = build_flow(torch, st, D, seed + 4)   # same atom classes, other values
                    with torch.no_grad():                        # ... and it has been used before the load
                        xq = torch.zeros(2, D, dtype=torch.float64) + 0.3
                        try:
                            other.log_prob(xq, ctxs if case["ctx"] else None)
                        except Exception:  # noqa
                            pass
                    # the checkpoint comes from a model that was never evaluated (its parameter tensors are
                    # exactly what the constructor and the optimiser left in them)
                    other.load_state_dict(build_flow(torch, st, D, seed).state_dict())
                    flow_used = other
                except Exception as e:  # noqa
                    out["fails"].append(dict(case, hist=hist, clause="raises", detail="flow %s | %s: loading the state dict into a flow built under another seed raised %r" % (names, case["base"], e)))
                    continue
            else:
                flow_used = flow
            if hist == "cache_after_sample":
                # an inverse-first history (what sample() does) fills the caches through the inverse path
                with torch.no_grad():
                    try:
                        z = torch.randn(2, D, dtype=torch.float64, generator=torch.Generator().manual_seed(seed))
                        flow._transform.inverse(z, ctxs if case["ctx"] else None)
                    except Exception as e:  # noqa
                        out["fails"].append(dict(case, hist=hist, clause="raises", detail="flow %s | %s: inverse pass raised %r" % (names, case["base"], e)))
                        continue
            for r in range(len(ctxs)):
                if not onto and r > 0:
                    break   # (a very confident base hides the missing part of the support numerically)
                out["n"] += 1
                c = ctxs[r : r + 1] if case["ctx"] else None
                try:
                    tot = mass(torch, flow_used, D, c, 900 if D == 1 else 150)
                except Exception as e:  # noqa
                    if onto:
                        out["fails"].append(dict(case, hist=hist, clause="raises", detail="flow %s | %s (D=%d): log_prob raised %r on the data space" % (names, case["base"], D, e)))
                    break
                tol = 3e-5 if D == 1 else 2e-4
                want = expected_mass(torch, flow_used, names, c) if (D == 1 and onto) else 1.0
                if want is None:
                    out["skipped"].append("flow %s | %s: several clamped Logit stages, no exact accounting" % (names, case["base"]))
                    break
                if tot != tot:
                    # no number: either the cubature did not converge, or the density itself is not a number at
                    # ordinary points although the same flow, freshly evaluated without any history, has one there
                    nan_here = False
                    if onto and hist != "plain":
                        try:
                            with torch.no_grad():
                                xp = 0.7 * torch.randn(6, D, dtype=torch.float64, generator=torch.Generator().manual_seed(seed + 17))
                                cp = c.expand(6, -1) if c is not None else None
                                ref = build_flow(torch, st, D, seed)
                                for mod in ref.modules():
                                    if isinstance(mod, Linear):
                                        mod.use_cache(False)
                                a_ = ref.log_prob(xp, cp) if cp is not None else ref.log_prob(xp)
                                b_ = flow_used.log_prob(xp, cp) if cp is not None else flow_used.log_prob(xp)
                                nan_here = hist != "after_load" and bool((torch.isfinite(a_) & ~torch.isfinite(b_)).any())
                        except Exception:  # noqa
                            nan_here = False
                    if nan_here:
                        out["fails"].append(dict(case, hist=hist, clause="not_normalised", detail="flow %s | %s (D=%d, %s): log_prob is not a number at ordinary points where the same flow without that history returns finite values" % (" -> ".join(names), case["base"], D, hist)))
                        break
                    out["skipped"].append("flow %s | %s (D=%d): the adaptive cubature did not converge" % (names, case["base"], D))
                    break
                if onto and D == 2 and not abs(tot - want) <= tol:
                    # a deviation found by the two-dimensional cubature is confirmed on a finer rule (twice the panels,
                    # a tenth of the tolerance) before it is believed: a density ridge narrower than the first
                    # panels can cost a few 1e-4 of mass although the rule reports convergence
                    try:
                        tot_fine = mass(torch, flow_used, D, c, 150, refine=True)
                    except Exception:  # noqa
                        tot_fine = float("nan")
                    # ... and on a wider range (x = sinh t up to e^30 instead of e^18): an autoregressive or coupling scale
                    # that shrinks towards its floor far out gives the density tails of 1e-4 mass beyond any fixed box
                    try:
                        tot_wide = mass(torch, flow_used, D, c, 150, refine=True, T_override=30.0)
                    except Exception:  # noqa
                        tot_wide = float("nan")
                    if tot_wide == tot_wide and tot_fine == tot_fine and tot_wide - tot_fine > 1e-5:
                        if abs(tot_wide - want) <= tol:
                            tot = tot_wide
                            tot_fine = tot_wide
                        else:
                            out["skipped"].append("flow %s | %s (D=2): mass keeps arriving from beyond the integration range (%.7f on e^18, %.7f on e^30)" % (names, case["base"], tot_fine, tot_wide))
                            break
                    if tot_fine != tot_fine or abs(tot_fine - tot) > 0.5 * abs(tot - want):
                        if tot_fine == tot_fine and abs(tot_fine - want) <= tol:
                            tot = tot_fine
                        else:
                            out["skipped"].append("flow %s | %s (D=2): the cubature does not settle (%.7f, refined %.7f)" % (names, case["base"], tot, tot_fine))
                            break
                    else:
                        tot = tot_fine
                if onto and not abs(tot - want) <= tol:
                    out["fails"].append(dict(case, hist=hist, clause="not_normalised", detail="flow %s | %s (D=%d%s%s): exp(log_prob) integrates to %.7f%s" % (" -> ".join(names), case["base"], D, ", context row %d" % r if case["ctx"] else "", {"plain": "", "cache_after_sample": ", cache on after sample()", "cache_cold": ", cache on, density first", "after_load": ", state dict loaded into a flow built with other values"}[hist], tot, "" if want == 1.0 else " (the image of Logit's clamped domain carries base mass %.7f)" % want)))
                    break
                if not onto and abs(tot - 1.0) <= tol:
                    out["drift"].append("flow %s | %s is not onto the base support according to FlowVal.tla but integrates to %.7f" % (names, case["base"], tot))
    return out


def main(run, replay=None):
    run.rule = (
        "cases = programs (chains of up to MaxLen transformer types x base x context) enumerated by TLC that start on the real "
        "line; the onto ones must integrate to one (per context row, D = 1 and sampled D = 2, plain and cache-after-sample "
        "histories), a sample of the others must not; non-trivial = distinct onto programs of length >= 2"
    )
    thorough = run.tier == "thorough"
    res = T.run_tlc("FlowVal", T.cfg(constants={"MaxLen": 3 if thorough else 2}, invariants=["TermsExactlyOnce", "OntoSupport", "NormalisedIff"]), dump=True, name="flowval", workers=8, timeout=3000)
    run.model_must_hold(res, "FlowVal")
    run.add_tlc(res, "FlowVal")
    states = [s for s in parse_dump(res.dump) if bool(s["wellFormed"])]
    import random

    rnd = random.Random(run.seed)
    def integrable(s):
        # the property restricts itself to flows whose integral can be computed by quadrature to 1e-5:
        # LogTanh's logarithmic tails followed by a further compressing stage put the mass beyond e^700
        n = [str(a["name"]) for a in s["prog"]]
        # Logit clamps its input to [1e-6, 1 - 1e-6] by design (beyond +-13.8 / T its image is constant):
        # negligible under a Gaussian base, but a LogTanh behind it brings that tail back to O(1) mass
        # (handled exactly for D = 1: see expected_mass)
        return n.count("logtanh") <= 1 and ("logtanh" not in n or n[-1] == "logtanh")

    run.extra["programs_excluded_not_integrable"] = sum(1 for s in states if bool(s["onto"]) and not integrable(s))
    states = [s for s in states if integrable(s)]
    onto = [s for s in states if bool(s["onto"])]
    not_onto = [s for s in states if not bool(s["onto"])]
    # programs of length 3 that return from the unit interval (always included)
    if replay:
        c = replay["case"]
        sts = [s for s in states if [str(a["name"]) for a in s["prog"]] == c["prog"] and str(s["base"]["name"]) == c["base"] and bool(s["ctx"]) == c["ctx"]]
        for f in flow_task((sts, c["D"], c["seed"]))["fails"]:
            run.violation({"clause": f["clause"], "D": f["D"]}, "replayed: " + f["detail"], c)
        return
    if thorough:
        rnd.shuffle(onto)
        onto = [s for s in onto if len(s["prog"]) <= 2] + [s for s in onto if len(s["prog"]) == 3][:2500]
    rnd.shuffle(not_onto)
    d1 = onto + not_onto[:12]
    smooth = [s for s in onto if not ({str(a["name"]) for a in s["prog"]} & {"leakyrelu", "logtanh", "spline_tails", "spline_unit", "logit"})]
    d2 = rnd.sample(smooth, min(len(smooth), 150 if thorough else 10))
    # the one-stage programs whose stages mix the two features are always integrated in two dimensions
    d2 += [s for s in onto if len(s["prog"]) == 1 and str(s["prog"][0]["name"]) in ("coupling", "autoregressive", "linear") and s not in d2]
    extra = []
    if not thorough:
        # the squash -> unit spline -> logit pattern needs length 3
        res3 = T.run_tlc("FlowVal", T.cfg(constants={"MaxLen": 3}), dump=True, coverage=False, name="flowval3", workers=8)
        for s in parse_dump(res3.dump):
            n = [str(a["name"]) for a in s["prog"]]
            if len(n) == 3 and n[1] == "spline_unit" and n[0] in ("sigmoid", "cauchycdf") and n[2] == "logit" and bool(s["onto"]) and str(s["base"]["name"]) == "StandardNormal" and not bool(s["ctx"]):
                extra.append(s)
        run.states += res3.distinct
        run.transitions += res3.generated
    d1 += extra
    tasks = [([s], 1, run.seed + i % 4) for i, s in enumerate(d1)] + [([s], 2, run.seed + i % 4) for i, s in enumerate(d2)]
    fails = []
    for out in pmap(flow_task, tasks):
        run.evaluations += out["n"]
        fails += out["fails"]
        for d in out["drift"]:
            run.note_drift(d)
    run.extra["programs_onto"] = len(onto)
    run.extra["programs_integrated_1d"] = len(d1)
    run.extra["programs_integrated_2d"] = len(d2)
    for s in onto + extra:
        if len(s["prog"]) >= 2:
            run.nontrivial.add((tuple(str(a["name"]) for a in s["prog"]), str(s["base"]["name"]), bool(s["ctx"])))
    run.sample({"program": ["sigmoid", "spline_unit", "logit"], "base": "StandardNormal", "spec": "well-formed and onto: R -> [0,1] -> [0,1] -> R"})
    seen = set()
    for f in fails:
        key = (tuple(f["prog"]), f["base"], f["ctx"], f["D"], f["clause"], f.get("hist"))
        if key in seen:
            continue
        seen.add(key)
        run.violation({"clause": f["clause"], "D": f["D"], "hist": f.get("hist"), "atoms": sorted(set(f["prog"]))}, f["detail"], {k: v for k, v in f.items() if k != "detail"})
    run.exhaustive = not thorough
    run.assumptions = [
        "the integral is computed by quadrature (x = sinh t, composite Gauss-Legendre) with tolerance 3e-5 in one dimension (adaptive: kinks are bisected) and 3e-3 in two dimensions (smooth programs only), as the property prescribes; TLC decides onto-ness on intervals and the term structure",
        "per-transformer bijectivity onto the stated interval is C09 / C17; base normalisation is C05",
    ]
