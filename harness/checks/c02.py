"""C02 - inverse undoes forward in both orders and returns the negated log-abs-det.

(S) TLC: Spline.tla (StrictlyIncreasing => injective on the lattice; the inverse is specified relationally:
    Inverse(y) = x iff Forward(x) = y, so exact images of lattice points are the inverse's test inputs, including
    degenerate parameters: equal weights, equal knot heights, locally linear cubic segments, one bin) and
    LinAlg.tla (W W^-1 = I).
(R) spline lattice in the inverse direction (value against the exact pre-image, scaled by the exact local
    derivative; negated log-det; round trip); LinAlg states on the real classes (both orders, Householder
    vectors of different and rescaled norms, cache on / off); zoo sweep in float64, both orders, fresh
    (constructor) parameters, perturbed parameters and exactly-zero parameters.
"""
from __future__ import annotations

import warnings

from vcore import splinerun
from vcore import tlc as T
from vcore.pool import pmap
from vcore.tlaval import parse_dump


def tol_for(e):
    if e.name == "Logit/eps":
        return 0.06  # declared clamp eps = 0.05 (inputs contain exact 0 and 1)
    if e.has("large"):
        return 1e-5
    if e.has("umnn"):
        return 2e-3
    if "Cubic" in e.name:
        return 2e-4  # declared constants of the cubic root selection (eps 1e-5, quadratic threshold 1e-3)
    if e.has("spline") or "CDF" in e.name:
        return 2e-5  # bin-search eps 1e-6
    return 1e-6


def zoo_task(names):
    warnings.filterwarnings("ignore")
    import torch

    torch.set_num_threads(1)
    from vcore import zoo

    Z = zoo.by_name()
    out = {"n": 0, "fails": [], "skipped": []}
    for name in names:
        e = Z[name]
        if not e.has("inv"):
            continue
        for variant in ("perturbed", "fresh", "zero", "reloaded-in-eval"):
            if variant == "zero" and not (e.has("spline") or name.startswith(("Affine", "Additive", "MaskedAffine"))):
                continue
            for seed in (0, 1):
                try:
                    m = e.build(seed, perturb=(variant in ("perturbed", "reloaded-in-eval")))
                    if variant == "zero":
                        with torch.no_grad():
                            for p in m.parameters():
                                p.zero_()
                    m = zoo.prepare(e, m, seed)
                    if not e.has("umnn"):
                        m = m.double()
                    m.eval()
                    if variant == "reloaded-in-eval":
                        # history: used in evaluation mode (both directions), then another checkpoint is
                        # loaded into the live object - still in evaluation mode - and used again
                        dt0 = torch.float32 if e.has("umnn") else torch.float64
                        x_, y_, c_ = e.x(3, seed + 3, dt0), e.y(3, seed + 3, dt0), e.ctx(3, seed + 3, dt0)
                        with torch.no_grad():
                            (m.inverse(y_, c_) if c_ is not None else m.inverse(y_))
                            (m.forward(x_, c_) if c_ is not None else m.forward(x_))
                        donor = zoo.prepare(e, e.build(seed + 7, perturb=True), seed + 7)
                        if not e.has("umnn"):
                            donor = donor.double()
                        m.load_state_dict({k: v.clone() for k, v in donor.state_dict().items()})
                except Exception as ex:  # noqa
                    out["skipped"].append("%s/%s: %r" % (name, variant, ex))
                    break
                dt = torch.float32 if e.has("umnn") else torch.float64
                x, y0, c = e.x(5, seed, dt), e.y(5, seed, dt), e.ctx(5, seed, dt)
                tol = tol_for(e) * (50 if dt == torch.float32 else 1)
                case = {"kind": "zoo", "name": name, "variant": variant, "seed": seed}
                call = lambda f, a: f(a, c) if c is not None else f(a)
                out["n"] += 1
                try:
                    with torch.no_grad():
                        y, lad = call(m.forward, x)
                        xr, ladi = call(m.inverse, y)
                        x2, ladi2 = call(m.inverse, y0)
                        y2, lad2 = call(m.forward, x2)
                except Exception as ex:  # noqa
                    out["fails"].append(dict(case, clause="raises", detail="%s (%s parameters): forward / inverse raised %r" % (name, variant, ex)))
                    break
                vals = [y, lad, xr, ladi, x2, ladi2, y2, lad2]
                if not all(bool(torch.isfinite(t).all()) for t in vals):
                    out["fails"].append(dict(case, clause="nonfinite", detail="%s (%s parameters): non-finite values in a forward / inverse round trip" % (name, variant)))
                    break
                xs = x.reshape(xr.shape) if xr.shape != x.shape and xr.numel() == x.numel() else x
                ys = y0.reshape(y2.shape) if y2.shape != y0.shape and y2.numel() == y0.numel() else y0
                e1 = float(((xr - xs).abs() / (1 + xs.abs())).max())
                e2 = float(((y2 - ys).abs() / (1 + ys.abs())).max())
                e3 = float((lad + ladi).abs().max() / (1 + float(lad.abs().max())))
                e4 = float((lad2 + ladi2).abs().max() / (1 + float(lad2.abs().max())))
                if e1 > tol:
                    out["fails"].append(dict(case, clause="roundtrip", detail="%s (%s): inverse(forward(x)) differs from x by %.3g (relative; tolerance %.1g)" % (name, variant, e1, tol)))
                elif e2 > tol:
                    out["fails"].append(dict(case, clause="roundtrip", detail="%s (%s): forward(inverse(y)) differs from y by %.3g (relative; tolerance %.1g)" % (name, variant, e2, tol)))
                elif max(e3, e4) > 50 * tol:
                    out["fails"].append(dict(case, clause="inverse_logabsdet", detail="%s (%s): inverse logabsdet is not the negated forward logabsdet (sum %.3g)" % (name, variant, max(e3, e4))))
                else:
                    continue
                break
    return out


def linear_task(states):
    warnings.filterwarnings("ignore")
    import torch

    torch.set_num_threads(1)
    from checks import c11

    out = {"n": 0, "fails": []}
    for st in states:
        f, _ = c11.check_state(torch, st, 3)
        out["n"] += 1
        out["fails"] += [dict(x, kind="linear") for x in f if x["clause"] in ("roundtrip", "pass_logabsdet", "nonfinite")]
        # the same round trips through the weight cache, inverse first and forward first
        p = st["par"]
        cls, n = str(p["cls"]), int(p["n"])
        if cls in ("LU", "QR", "SVD", "Naive"):
            W = torch.tensor(c11.mat(st["W"]), dtype=torch.float64)
            for first in ("inverse", "forward"):
                m = c11.build(torch, p)
                if cls == "Naive":
                    with torch.no_grad():
                        m._weight.copy_(W)
                m.eval()
                m.use_cache(True)
                y0 = torch.randn(4, n, dtype=torch.float64, generator=torch.Generator().manual_seed(n + 1))
                with torch.no_grad():
                    if first == "inverse":
                        x1, l1 = m.inverse(y0)
                        y1, l2 = m.forward(x1)
                    else:
                        x1, l1 = m.forward(y0)
                        y1, l2 = m.inverse(x1)
                err = float((y1 - y0).abs().max())
                if not err <= 1e-7 * (1 + float(W.abs().max()) * float(torch.linalg.inv(W).abs().max())) or float((l1 + l2).abs().max()) > 1e-8:
                    out["fails"].append({"kind": "linear", "cls": cls, "n": n, "par": {k: str(v) for k, v in p.items()}, "clause": "roundtrip", "detail": "%s (features %d) with the cache on, %s first: round trip error %.3g, logabsdet sum %.3g" % (cls, n, first, err, float((l1 + l2).abs().max()))})
    return out


def main(run, replay=None):
    run.rule = (
        "cases = spline lattice points in the inverse direction, LinAlg parameter states, and zoo transforms (perturbed, fresh "
        "and exactly-zero parameters, two seeds) in both orders; non-trivial = distinct spline parameter sets, linear states "
        "with more than one feature and (zoo transform, parameter variant) pairs"
    )
    thorough = run.tier == "thorough"
    if replay:
        c = replay["case"]
        if c.get("kind") == "spline":
            return splinerun.replay_spline(run, "C02", c)
        if c.get("kind") == "ar_inverse":
            from vcore import arinv

            for f in arinv.replay(run, c):
                run.violation({"kind": "ar_inverse", "clause": f["clause"], "cls": f["cls"]}, "replayed: " + f["detail"], c)
            return
        if c.get("kind") == "zoo":
            for f in zoo_task([c["name"]])["fails"]:
                if f["variant"] == c["variant"]:
                    run.violation({"kind": "zoo", "name": c["name"], "clause": f["clause"]}, "replayed: " + f["detail"], c)
            return
        res = T.run_tlc("LinAlg", T.cfg(constants={"MaxD": 3, "MaxK": 2, "Rich": "FALSE"}), dump=True, coverage=False, workers=8)
        sts = [s for s in parse_dump(res.dump) if {k: str(v) for k, v in s["par"].items()} == c["par"]]
        for f in linear_task(sts)["fails"]:
            run.violation({"kind": "linear", "cls": f["cls"], "clause": f["clause"]}, "replayed: " + f["detail"], c)
        return
    splinerun.run_lattice(run, "C02", thorough)
    lres = T.run_tlc("LinAlg", T.cfg(constants={"MaxD": 3, "MaxK": 5 if thorough else 3, "Rich": "TRUE" if thorough else "FALSE"}, invariants=["InverseIsInverse", "Orthogonal"]), dump=True, name="linalg", workers=8, timeout=3000)
    run.model_must_hold(lres, "LinAlg")
    run.add_tlc(lres, "LinAlg (W W^-1 = I)")
    ls = parse_dump(lres.dump)
    fails = []
    for out in pmap(linear_task, [ls[i::16] for i in range(16)], 16):
        run.evaluations += out["n"]
        fails += out["fails"]
    from vcore import zoo as _z

    names = [e.name for e in _z.entries() if e.kind == "transform"]
    skipped = []
    for out in pmap(zoo_task, [names[i::16] for i in range(16)], 16):
        run.evaluations += out["n"]
        fails += out["fails"]
        skipped += out["skipped"]
    run.extra["zoo_skipped"] = skipped
    for n in names:
        run.nontrivial.add(("zoo", n))
    for s in ls:
        if int(s["par"]["n"]) > 1:
            run.nontrivial.add(("lin", repr(sorted((k, str(v)) for k, v in s["par"].items()))))
    # the pass-by-pass inverse of autoregressive transforms (spec/Autoreg.tla)
    from vcore import arinv

    fails += arinv.run_leg(run)
    seen = set()
    for f in fails:
        key = (f["kind"], f.get("name"), f.get("variant"), f.get("cls"), f.get("n"), f["clause"])
        if key in seen:
            continue
        seen.add(key)
        run.violation({"kind": f["kind"], "clause": f["clause"], "name": f.get("name"), "cls": f.get("cls"), "variant": f.get("variant")}, f["detail"], {k: v for k, v in f.items() if k != "detail"})
    run.exhaustive = True
    run.assumptions = [
        "tolerances: 1e-6 relative in float64, times the implementation's declared constants on the paths that use them (bin-search eps 1e-6, cubic eps 1e-5 / quadratic threshold 1e-3, UMNN bisection in float32)",
        "autoregressive inverses (Autoreg.tla): 8 transform variants x 1..4 (thorough 6) features; what the conditioner is fed in each pass is observed by wrapping its forward",
        "the zoo sweep is the property's own relation evaluated on the real code at generic points (supplementary to the lattice cases)",
    ]
