"""C18 - the distribution interface keeps its documented shape and argument contract.

(S) TLC checks spec/DistApi.tla (sample / log_prob / sample_and_log_prob transcribed over Tensor.tla
    views, all argument tokens, batch sizes dividing or not) for the repaired design and derives the
    shape violation of the pinned one (batches concatenated on dim 0).
(R) every enumerated call is executed on the real distributions and flows; outcome class (shape or
    exception type) must be the specification's, and with context-marker models the context row behind
    every returned draw must be the one the specification's provenance map names.
"""
from __future__ import annotations

import os
import warnings

from vcore import tlc as T
from vcore.pool import pmap
from vcore.tlaval import parse_dump

INVS = ["ShapeContract", "RowPlacement", "ErrorContract", "RowPairing"]
CONSTS = {"MaxN": 5, "MaxBS": 6, "MaxRows": 3, "CatDim": 1}


def models():
    """name -> (builder, event_shape, context mode, marker?)   context mode: none|optional|required"""
    import torch
    from nflows import distributions as D
    from nflows import flows as FL
    from nflows import transforms as TR
    from nflows.distributions.mixture import MADEMoG
    from nflows.nn import nets

    def marker_flow():
        return FL.base.Flow(TR.PointwiseAffineTransform(shift=0.5, scale=2.0), D.ConditionalDiagonalNormal([2]))

    def emb_flow():
        # the embedding changes the width of the context: whatever consumes the context inside the flow
        # must be given the embedded one
        return FL.base.Flow(
            TR.AffineCouplingTransform([1, -1], lambda i, o: nets.ResidualNet(i, o, hidden_features=4, context_features=3, num_blocks=1)),
            D.ConditionalDiagonalNormal([2], context_encoder=torch.nn.Linear(3, 4)),
            embedding_net=torch.nn.Linear(4, 3),
        )

    return {
        "StandardNormal[2]": (lambda: D.StandardNormal([2]), (2,), "optional", False),
        "StandardNormal[2,2]": (lambda: D.StandardNormal([2, 2]), (2, 2), "optional", False),
        # a transform that changes the event shape (noise [4,1,1] <-> data [1,2,2]), sampled with a context
        "Flow(Squeeze|StandardNormal[4,1,1])": (lambda: FL.base.Flow(TR.SqueezeTransform(2), D.StandardNormal([4, 1, 1])), (1, 2, 2), "optional", False),
        # integer class labels as the context, embedded by nn.Embedding
        "Flow(affine|CondNormal)+Embedding(labels)": (lambda: FL.base.Flow(TR.PointwiseAffineTransform(shift=0.5, scale=2.0), D.ConditionalDiagonalNormal([2]), embedding_net=torch.nn.Embedding(5, 4)), (2,), "required", False),
        # one scalar (a label, a time) per context row: a context of rank one has as many rows as elements
        "StandardNormal[2]/rank-1 context": (lambda: D.StandardNormal([2]), (2,), "optional", False),
        "Flow(affine|StandardNormal)/rank-1 context": (lambda: FL.base.Flow(TR.PointwiseAffineTransform(shift=0.5, scale=2.0), D.StandardNormal([2])), (2,), "optional", False),
        "StandardNormal[]": (lambda: D.StandardNormal([]), (), "optional", False),
        "StandardNormal[1]": (lambda: D.StandardNormal([1]), (1,), "optional", False),
        "Flow(affine|StandardNormal[])": (lambda: FL.base.Flow(TR.PointwiseAffineTransform(shift=0.5, scale=2.0), D.StandardNormal([])), (), "optional", False),
        "DiagonalNormal[2]": (lambda: D.DiagonalNormal([2]), (2,), "logprob_only", False),
        "ConditionalDiagonalNormal[2]/marker": (lambda: D.ConditionalDiagonalNormal([2]), (2,), "required", True),
        "ConditionalDiagonalNormal[1]/marker": (lambda: D.ConditionalDiagonalNormal([1]), (1,), "required", True),
        "ConditionalIndependentBernoulli[2]": (lambda: D.ConditionalIndependentBernoulli([2], context_encoder=torch.nn.Linear(4, 2)), (2,), "required", False),
        "MADEMoG[2]/ctx": (lambda: MADEMoG(2, 6, 4, num_blocks=1, num_mixture_components=2), (2,), "required", False),
        "MADEMoG[2]/ctx/1-component": (lambda: MADEMoG(2, 6, 4, num_blocks=1, num_mixture_components=1), (2,), "required", False),
        "MADEMoG[2]/noctx": (lambda: MADEMoG(2, 6, None, num_blocks=1, num_mixture_components=2), (2,), "none", False),
        "Flow(affine|StandardNormal)": (lambda: FL.base.Flow(TR.PointwiseAffineTransform(shift=0.5, scale=2.0), D.StandardNormal([2])), (2,), "optional", False),
        "Flow(affine|CondNormal)/marker": (marker_flow, (2,), "required", True),
        "Flow(coupling|CondNormal)+embedding": (emb_flow, (2,), "required", False),
        "MaskedAutoregressiveFlow": (lambda: FL.MaskedAutoregressiveFlow(2, 6, num_layers=1, num_blocks_per_layer=1), (2,), "none", False),
        "SimpleRealNVP": (lambda: FL.SimpleRealNVP(2, 6, num_layers=2, num_blocks_per_layer=1), (2,), "none", False),
    }


def tok(t):
    k = str(t["k"])
    if k == "int":
        return int(t["v"])
    return {"float": 2.0, "str": "3", "none": None}[k]


def make_context(torch, name, rows, event, marker):
    if rows == 0:
        return None
    if marker:
        d = event[0]
        means = (torch.arange(rows, dtype=torch.float32).view(-1, 1) * 1000.0).expand(rows, d)
        return torch.cat([means, torch.full((rows, d), -10.0)], dim=1)
    if "labels" in name:
        return torch.arange(rows, dtype=torch.long) % 5
    if "rank-1" in name:
        return torch.randn(rows)
    return torch.randn(rows, 4)


def outcome(fn):
    try:
        r = fn()
    except Exception as e:  # noqa
        return type(e).__name__, None
    return "value", r


def task(t):
    warnings.filterwarnings("ignore")
    import torch

    torch.set_num_threads(1)
    names, states, seed = t
    M = models()
    out = {"n": 0, "fails": [], "drift": []}
    for name in names:
        build, event, cmode, marker = M[name]
        torch.manual_seed(seed)
        try:
            m = build()
        except Exception as e:
            out["drift"].append("%s cannot be built: %r" % (name, e))
            continue
        m.eval()
        # n draws per context row are n draws PER ROW: two rows with the same context get their own draws
        # (40 draws of a 2-bit event coincide by chance with probability 2^-80)
        if cmode in ("optional", "required"):
            out["n"] += 1
            try:
                torch.manual_seed(seed + 3)
                c1 = make_context(torch, name, 1, event, marker)
                c2 = torch.cat([c1, c1], 0)
                with torch.no_grad():
                    s2 = m.sample(40, context=c2)
                if s2.shape[0] == 2 and torch.equal(s2[0], s2[1]):
                    out["fails"].append({"model": name, "call": {"op": "sample", "n": 40, "rows": 2}, "seed": seed, "clause": "rows_share_draws", "detail": "sample(40, context) with two equal context rows returns the same 40 draws for both rows: the rows do not get draws of their own"})
            except Exception:  # noqa  (shape / error contracts are judged below)
                pass
        for st in states:
            call, spec = st["call"], st["out"]
            op = str(call["op"])
            rows = int(call["rows"]) if "rows" in call else int(call["r2"])
            if cmode == "none" and rows > 0:
                continue
            empty = op == "log_prob" and int(call["r1"]) == 0
            if cmode == "required" and rows == 0 and not empty:
                continue
            if cmode == "logprob_only" and op != "log_prob":
                continue
            case = {"model": name, "call": {k: (dict(v) if isinstance(v, dict) else v) for k, v in call.items()}, "seed": seed}
            out["n"] += 1
            torch.manual_seed(seed + 1)
            if op == "log_prob":
                r1 = int(call["r1"])
                x = torch.randn(r1, *event)
                if "Bernoulli" in name:
                    x = (x > 0).float()
                ctx = make_context(torch, name, rows, event, marker)
                if empty and cmode == "required":
                    ctx = make_context(torch, name, 1, event, marker)[:0]
                # the interface converts array-likes itself (torch.as_tensor): the contract is the same for
                # a tensor, a numpy array and a nested list
                if ctx is not None:
                    # (an empty nested list has lost its width: an empty context goes as a tensor or an array)
                    ck = (r1 + rows + seed) % (2 if empty else 3)
                    ctx = ctx if ck == 0 else ctx.numpy() if ck == 1 else ctx.tolist()
                    case["context_as"] = ("tensor", "numpy", "list")[ck]
                kind, r = outcome(lambda: m.log_prob(x, context=ctx) if ctx is not None else m.log_prob(x))
                want = str(spec["o"])
                if want == "shape":
                    if kind != "value":
                        out["fails"].append(dict(case, clause="raises", detail="log_prob(%d rows, context %d rows) raised %s" % (r1, rows, kind)))
                    elif tuple(r.shape) != tuple(int(v) for v in spec["shape"]):
                        out["fails"].append(dict(case, clause="shape", detail="log_prob returned shape %s for %d input rows" % (tuple(r.shape), r1)))
                elif kind != want:
                    out["fails"].append(dict(case, clause="error_contract", detail="log_prob(%d rows, context %d rows): expected %s, got %s" % (r1, rows, want, kind if kind != "value" else "a value of shape %s" % (tuple(r.shape),))))
                continue
            n = tok(call["n"])
            ctx = make_context(torch, name, rows, event, marker)
            if op == "sample":
                bs = tok(call["bs"])
                kw = {}
                if ctx is not None:
                    kw["context"] = ctx
                if bs is not None or str(call["bs"]["k"]) != "none":
                    kw["batch_size"] = bs
                kind, r = outcome(lambda: m.sample(n, **kw))
                want = str(spec["o"])
                desc = "sample(%r, context rows=%d, batch_size=%r)" % (n, rows, kw.get("batch_size"))
                if want == "tensor":
                    eshape = tuple(int(v) for v in spec["t"]["shape"]) + tuple(event)
                    if kind != "value":
                        out["fails"].append(dict(case, clause="raises", detail="%s raised %s" % (desc, kind)))
                    elif tuple(r.shape) != eshape:
                        out["fails"].append(dict(case, clause="shape", detail="%s returned shape %s, documented %s" % (desc, tuple(r.shape), eshape)))
                    elif marker and rows > 0:
                        # provenance: block i must have been drawn under context row i
                        rowof = torch.round(r.reshape(rows, -1, *event).mean(dim=tuple(range(2, 2 + len(event)))) / (500.0 if "Flow" in name else 1000.0))
                        src = spec["t"]["src"]
                        exp = torch.tensor([[int(src[i * int(n) + j][0]) for j in range(int(n))] for i in range(rows)], dtype=rowof.dtype)
                        if not torch.equal(rowof, exp):
                            out["fails"].append(dict(case, clause="row_placement", detail="%s: draws sit under context rows %s, documented %s" % (desc, rowof.tolist(), exp.tolist())))
                    if kind == "value" and tuple(r.shape) == eshape and rows >= 2 and isinstance(n, int) and n >= 2 and (("MoG" not in name) or name.endswith("/1-component")):
                        # provenance without markers: under a constant noise stream block i must be what the
                        # same call returns for context row i alone
                        orig_randn, orig_rand = torch.randn, torch.rand
                        const = lambda val: (lambda *size, **k_: torch.full(tuple(size[0]) if len(size) == 1 and isinstance(size[0], (tuple, list, torch.Size)) else tuple(size), val))
                        torch.randn, torch.rand = const(0.37), const(0.41)
                        try:
                            full = m.sample(n, **kw)
                            singles = [m.sample(n, **dict(kw, context=ctx[i : i + 1])) for i in range(rows)]
                        except Exception:  # noqa
                            full = None
                        finally:
                            torch.randn, torch.rand = orig_randn, orig_rand
                        if full is not None and tuple(full.shape) == eshape:
                            for i in range(rows):
                                if not torch.allclose(full[i].float(), singles[i][0].float(), atol=1e-5, rtol=1e-5):
                                    out["fails"].append(dict(case, clause="row_placement", detail="%s under a constant noise stream: block %d is not what the same call returns for context row %d alone (max diff %.3g) - it was generated under other rows" % (desc, i, i, float((full[i].float() - singles[i][0].float()).abs().max()))))
                                    break
                elif kind != want:
                    out["fails"].append(dict(case, clause="error_contract", detail="%s: expected %s, got %s" % (desc, want, kind if kind != "value" else "a value of shape %s" % (tuple(r.shape),))))
            elif op == "slp":
                kind, r = outcome(lambda: m.sample_and_log_prob(n, context=ctx) if ctx is not None else m.sample_and_log_prob(n))
                want = str(spec["o"])
                desc = "sample_and_log_prob(%r, context rows=%d)" % (n, rows)
                if want == "pairs":
                    sshape = tuple(int(v) for v in spec["samples"]["shape"]) + tuple(event)
                    lshape = tuple(int(v) for v in spec["lpshape"])
                    if kind != "value":
                        out["fails"].append(dict(case, clause="raises", detail="%s raised %s" % (desc, kind)))
                    elif tuple(r[0].shape) != sshape or tuple(r[1].shape) != lshape:
                        out["fails"].append(dict(case, clause="shape", detail="%s returned shapes %s / %s, documented %s / %s" % (desc, tuple(r[0].shape), tuple(r[1].shape), sshape, lshape)))
                elif kind != want:
                    out["fails"].append(dict(case, clause="error_contract", detail="%s: expected %s, got %s" % (desc, want, kind)))
    return out


def main(run, replay=None):
    run.rule = (
        "cases = every call (operation x count tokens {-1..5, float, str, None} x context rows 0..3 x batch size tokens) "
        "enumerated by TLC, executed on each applicable distribution / flow; non-trivial = distinct (model, call) whose "
        "count arguments are valid and that has a context or a batch size"
    )
    thorough = run.tier == "thorough"
    consts = dict(CONSTS)
    if thorough:
        consts.update(MaxN=7, MaxBS=8)
    res = T.run_tlc("DistApi", T.cfg(constants=consts, invariants=INVS), dump=True, name="distapi", workers=4)
    run.model_must_hold(res, "DistApi")
    run.add_tlc(res, "DistApi repaired design (batches joined along the sample dimension)")
    bad = T.run_tlc("DistApi", T.cfg(constants=dict(consts, CatDim=0), invariants=["ShapeContract"]), coverage=False, name="distapi_pinned", workers=4)
    if bad.ok:
        raise T.MachineryError("DistApi does not discriminate: concatenating batches on dim 0 satisfies ShapeContract")
    run.extra["counterexample_derived_for_pinned_design"] = bad.violated
    run.states += bad.distinct
    run.transitions += bad.generated
    states = parse_dump(res.dump)
    if replay:
        c = replay["case"]
        sts = [s for s in states if {k: (dict(v) if isinstance(v, dict) else v) for k, v in s["call"].items()} == c["call"]]
        out = task(([c["model"]], sts, c["seed"]))
        for f in out["fails"]:
            run.violation({"model": f["model"], "clause": f["clause"], "op": str(f["call"]["op"])}, "replayed: " + f["detail"], c)
        return
    names = list(models().keys())
    fails = []
    for out in pmap(task, [([n], states, run.seed) for n in names]):
        run.evaluations += out["n"]
        fails += out["fails"]
        for d in out["drift"]:
            run.note_drift(d)
    for s in states:
        c = s["call"]
        if str(c["op"]) == "log_prob" or (str(c["n"]["k"]) == "int" and int(c["n"]["v"]) > 0 and (int(c.get("rows", 0)) > 0 or ("bs" in c and str(c["bs"]["k"]) == "int"))):
            for n in names:
                run.nontrivial.add((n, repr(sorted((k, repr(v)) for k, v in c.items()))))
    ex = next(s for s in states if str(s["call"]["op"]) == "sample" and str(s["call"]["n"]["k"]) == "int" and int(s["call"]["n"]["v"]) == 5 and int(s["call"]["rows"]) == 2 and str(s["call"]["bs"]["k"]) == "int" and int(s["call"]["bs"]["v"]) == 2)
    run.sample({"call": "sample(5, context with 2 rows, batch_size=2)", "spec_shape": [int(v) for v in ex["out"]["t"]["shape"]], "spec_provenance(row,draw)": [[int(ex["out"]["t"]["src"][k][0]), int(ex["out"]["t"]["src"][k][1])] for k in sorted(ex["out"]["t"]["src"])]})
    seen = set()
    for f in fails:
        key = (f["model"], f["clause"], repr(f["call"]))
        if key in seen:
            continue
        seen.add(key)
        run.violation({"model": f["model"], "clause": f["clause"], "op": str(f["call"]["op"])}, "%s: %s" % (f["model"], f["detail"]), {k: v for k, v in f.items() if k != "detail"})
    run.exhaustive = True
    run.assumptions = [
        "bool counts (True) are ints for Python and are not in the token set",
        "row placement is read from context-marker models (mean 1000*row, tiny std); other models are checked for shape and exception class",
    ]
