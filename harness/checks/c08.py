"""C08 - Composite, Inverse and Multiscale wrappers are exact function composition.

(S) TLC: spec/Compose.tla (denotation of every nesting up to a depth; algebraic laws) and
    spec/Multiscale.tla (shape book-keeping and coordinate routing over Tensor.tla views for every shape /
    split dimension / stage count up to the bound; bijection, stage prefix, inverse undoes routing).
(R) every program / configuration state is replayed on the real wrappers: programs over shared,
    non-commuting real atoms (one context-dependent) against hand-chained atom calls in the order the
    specification denotes; multiscale configurations with per-stage affine tags against the value the
    specification's routing predicts for every coordinate, the summed log-det, and the inverse.
"""
from __future__ import annotations

import math
import os
import random
import re
import warnings

from vcore import tlc as T
from vcore.pool import pmap
from vcore.tlaval import parse_dump

CO_INVS = ["InverseReverses", "InvSwaps", "CompOfOne", "OrderPreserved", "RoundTripCancels", "LogDetTermsOnce"]
MS_INVS = ["RoutingIsBijection", "PrefixOfStages", "StagesMonotone", "InverseUndoesRouting", "OutputSizes"]
PRIMES = [2.0, 3.0, 5.0, 7.0]


def make_atoms(seed, convert=True):
    import torch
    from nflows import transforms as TR

    torch.manual_seed(seed)
    g = torch.Generator().manual_seed(seed)

    class Cond(torch.nn.Module):
        def __init__(self, i, o):
            super().__init__()
            self.A = torch.nn.Parameter(0.3 * torch.randn(i, o, generator=g))
            self.C = torch.nn.Parameter(0.5 * torch.randn(2, o, generator=g))

        def forward(self, x, context=None):
            out = x @ self.A
            if context is not None:
                out = out + context @ self.C
            return out

    a1 = TR.PointwiseAffineTransform(shift=torch.tensor([0.5, -1.0, 2.0]), scale=torch.tensor([2.0, -0.5, 3.0]))
    a2 = TR.LULinear(3, identity_init=False)
    a3 = TR.AffineCouplingTransform([1, -1, 1], lambda i, o: Cond(i, o))
    with torch.no_grad():
        for p in a2.parameters():
            p.copy_(torch.rand(p.shape, generator=g) - 0.5)
    atoms = {1: a1, 2: a2, 3: a3}
    if convert:
        for a in atoms.values():
            a.double().eval()
    return atoms


def build_prog(p, atoms, depth=0):
    from nflows import transforms as TR

    t = str(p["t"])
    if t == "atom":
        return atoms[int(p["k"])]
    if t == "inv":
        return TR.InverseTransform(build_prog(p["p"], atoms, depth + 1))
    parts = [build_prog(q, atoms, depth + 1) for q in p["ps"]]
    # "an iterable of Transform objects": list, tuple, generator, iterator, map, nn.ModuleList.  The container is
    # the caller's: what the caller does to it afterwards (a growing list of layers from which flows of increasing
    # depth are built) must not reach into the composite that was built from it
    kind = (len(parts) + depth + sum(1 for _ in str(p))) % 6
    if kind == 5:
        import torch

        box = torch.nn.ModuleList(parts)
        comp = TR.CompositeTransform(box)
        box.append(TR.PointwiseAffineTransform(shift=0.7, scale=3.0))
        box[0] = TR.PointwiseAffineTransform(shift=-0.3, scale=0.5)
        return comp
    if kind == 0 and depth % 2 == 1:
        box = list(parts)
        comp = TR.CompositeTransform(box)
        box.append(TR.PointwiseAffineTransform(shift=0.7, scale=3.0))
        return comp
    if kind == 1:
        return TR.CompositeTransform(tuple(parts))
    if kind == 2:
        return TR.CompositeTransform(q for q in parts)
    if kind == 3:
        return TR.CompositeTransform(iter(parts))
    if kind == 4:
        return TR.CompositeTransform(map(lambda q: q, parts))
    return TR.CompositeTransform(parts)


def show(p):
    t = str(p["t"])
    if t == "atom":
        return "A%d" % int(p["k"])
    if t == "inv":
        return "Inv(%s)" % show(p["p"])
    return "Comp[%s]" % ",".join(show(q) for q in p["ps"])


def long_flat_states():
    out = []
    for n_parts in (10, 11, 12, 23):
        ks = [1 + (i * i + i // 3) % 3 for i in range(n_parts)]
        out.append({"prog": {"t": "comp", "ps": [{"t": "atom", "k": k} for k in ks]}, "fwd": [(k, "fwd") for k in ks], "inv": [(k, "inv") for k in reversed(ks)]})
    return out


def prog_task(task):
    warnings.filterwarnings("ignore")
    import torch

    torch.set_num_threads(1)
    states, seed = task[:2]
    atoms = make_atoms(seed)                       # the oracle's parts: converted one by one
    patoms = make_atoms(seed, convert=False)       # the program's parts: built in single precision / training
    if len(task) > 2:  # deep programs use two atoms: which two rotates with the seed
        atoms = {1: atoms[1 + task[2] % 3], 2: atoms[1 + (task[2] + 1) % 3]}
        patoms = {1: patoms[1 + task[2] % 3], 2: patoms[1 + (task[2] + 1) % 3]}
    g = torch.Generator().manual_seed(seed + 3)
    x = torch.randn(3, 3, generator=g, dtype=torch.float64)
    c = torch.randn(3, 2, generator=g, dtype=torch.float64)
    out = {"n": 0, "fails": []}
    for st in states:
        prog = st["prog"]
        try:
            # mode and precision reach the parts through the wrappers (double(), eval() on the program)
            m = build_prog(prog, patoms)
            m.double()
            m.eval()
        except Exception as e:
            out["fails"].append({"kind": "program", "prog": show(prog), "clause": "constructor", "detail": repr(e)[:200], "seed": seed})
            continue
        held = []   # results the caller still holds while it makes further calls on the same object
        # the same object is called again in either direction: a composite is a function, whatever it was used for before
        for dname, den in (("forward", st["fwd"]), ("inverse", st["inv"]), ("inverse", st["inv"]), ("forward", st["fwd"])):
            out["n"] += 1
            # oracle of the property itself: hand-chained parts in the denoted order
            y = x.clone()
            lad = torch.zeros(3, dtype=torch.float64)
            with torch.no_grad():
                for k, d in den:
                    a = atoms[int(k)]
                    y, l = (a.forward(y, c) if str(d) == "fwd" else a.inverse(y, c))
                    lad = lad + l
                try:
                    ry, rl = (m.forward(x.clone(), c) if dname == "forward" else m.inverse(x.clone(), c))
                except Exception as e:
                    out["fails"].append({"kind": "program", "prog": show(prog), "clause": "call_raises", "dir": dname, "detail": repr(e)[:200], "seed": seed})
                    continue
            held.append((dname, ry, rl, ry.clone(), rl.clone()))
            if ry.dtype != y.dtype or rl.dtype != lad.dtype:
                out["fails"].append({"kind": "program", "prog": show(prog), "clause": "outputs", "dir": dname, "detail": "%s returns %s / %s for float64 inputs after program.double(): the conversion did not reach every part" % (dname, ry.dtype, rl.dtype), "seed": seed})
            elif ry.shape != y.shape or not torch.allclose(ry, y, rtol=1e-10, atol=1e-10):
                out["fails"].append({"kind": "program", "prog": show(prog), "clause": "outputs", "dir": dname, "detail": "%s differs from the parts chained as %s (max diff %.3g)" % (dname, [(int(k), str(d)) for k, d in den], float((ry - y).abs().max())), "seed": seed})
            elif rl.shape != lad.shape or not torch.allclose(rl, lad, rtol=1e-10, atol=1e-10):
                out["fails"].append({"kind": "program", "prog": show(prog), "clause": "logabsdet", "dir": dname, "detail": "%s logabsdet %s is not the sum over the parts %s" % (dname, rl.tolist(), lad.tolist()), "seed": seed})
        for dname, ry, rl, ry0, rl0 in held:
            if not torch.equal(ry, ry0) or not torch.equal(rl, rl0):
                out["fails"].append({"kind": "program", "prog": show(prog), "clause": "logabsdet", "dir": dname, "detail": "the result of %s changed while the caller made the next call on the same composite (outputs %s, logabsdet %s -> %s): the sum of the parts' log-dets is not the value that was returned" % (dname, "unchanged" if torch.equal(ry, ry0) else "changed", rl0.tolist(), rl.tolist()), "seed": seed})
                break
    if len(task) > 2:
        for f in out["fails"]:
            f["rot"] = task[2]
    return out


def cdf_task(seed):
    """CompositeCDFTransform(squash, cdf) is the Compose.tla program Comp[A_s, A_c, Inv(A_s)] with a SHARED atom: its
    denotation is [(s, fwd), (c, fwd), (s, inv)] forward and [(s, fwd), (c, inv), (s, inv)] inverse, log-abs-dets summed
    - the two squashing terms are evaluated at different points and do not cancel unless the cdf is the identity."""
    warnings.filterwarnings("ignore")
    import torch

    torch.set_num_threads(1)
    from nflows import transforms as TR
    from nflows.transforms import nonlinearities as NL

    out = {"n": 0, "fails": []}
    g = torch.Generator().manual_seed(seed + 9)
    x = torch.randn(4, 3, generator=g, dtype=torch.float64) * 1.5
    squashes = {"Sigmoid": lambda: NL.Sigmoid(), "Sigmoid(T=2)": lambda: NL.Sigmoid(temperature=2.0), "CauchyCDF": lambda: NL.CauchyCDF()}
    cdfs = {
        "PiecewiseLinearCDF": lambda: NL.PiecewiseLinearCDF([3], num_bins=4),
        "PiecewiseQuadraticCDF": lambda: NL.PiecewiseQuadraticCDF([3], num_bins=4),
        "PiecewiseCubicCDF": lambda: NL.PiecewiseCubicCDF([3], num_bins=4),
        "PiecewiseRationalQuadraticCDF": lambda: NL.PiecewiseRationalQuadraticCDF([3], num_bins=4),
        "PointwiseAffine(0.5x+0.2)": lambda: TR.PointwiseAffineTransform(shift=0.2, scale=0.5),
        "Identity": lambda: TR.IdentityTransform(),
    }
    for sn, sb in squashes.items():
        for cn, cb in cdfs.items():
            prog = "CompositeCDFTransform(%s, %s) = Comp[A_s,A_c,Inv(A_s)]" % (sn, cn)
            try:
                torch.manual_seed(seed + 17)
                sq, cdf = sb(), cb()
                m = NL.CompositeCDFTransform(sq, cdf).double().eval()
            except Exception as e:
                out["fails"].append({"kind": "cdf_program", "prog": prog, "clause": "constructor", "detail": repr(e)[:200], "seed": seed})
                continue
            with torch.no_grad():
                for dname in ("forward", "inverse", "inverse", "forward"):
                    out["n"] += 1
                    try:
                        y1, l1 = sq.forward(x)
                        y2, l2 = cdf.forward(y1) if dname == "forward" else cdf.inverse(y1)
                        y3, l3 = sq.inverse(y2)
                        lad = l1 + l2 + l3
                    except Exception:  # noqa - the parts themselves refuse: nothing to compare (C17's business)
                        continue
                    try:
                        ry, rl = getattr(m, dname)(x.clone())
                    except Exception as e:
                        out["fails"].append({"kind": "cdf_program", "prog": prog, "clause": "call_raises", "dir": dname, "detail": repr(e)[:200], "seed": seed})
                        continue
                    if ry.shape != y3.shape or not torch.allclose(ry, y3, rtol=1e-9, atol=1e-9, equal_nan=True):
                        out["fails"].append({"kind": "cdf_program", "prog": prog, "clause": "outputs", "dir": dname, "detail": "%s differs from squash, cdf, squash^-1 chained by hand (max diff %.3g)" % (dname, float((ry - y3).abs().max()) if ry.shape == y3.shape else -1), "seed": seed})
                    elif rl.shape != lad.shape or not torch.allclose(rl, lad, rtol=1e-9, atol=1e-9, equal_nan=True):
                        out["fails"].append({"kind": "cdf_program", "prog": prog, "clause": "logabsdet", "dir": dname, "detail": "%s logabsdet %s is not the sum over the three parts %s" % (dname, rl.tolist(), lad.tolist()), "seed": seed})
    return out


def ms_task(task):
    warnings.filterwarnings("ignore")
    import torch

    torch.set_num_threads(1)
    from nflows import transforms as TR

    states, seed = task
    out = {"n": 0, "fails": [], "drift": []}
    for st in states:
        cfg = st["cfg"]
        shape = [int(v) for v in cfg["shape"]]
        d, n = int(cfg["d"]), int(cfg["n"])
        route = [int(v) for v in st["route"]]
        stages = [int(v) for v in st["stages"]]
        bsrc = st["back"]["src"]
        back = [int(bsrc[k]) for k in sorted(bsrc)] if isinstance(bsrc, dict) else [int(v) for v in bsrc]
        N = len(route)
        case = {"kind": "multiscale", "shape": shape, "split_dim": d, "stages": n, "seed": seed}
        shifts = [float(10 ** (i + 2)) for i in range(n)]  # stage i: y = x * p_i + 10^(i+2)
        # every second configuration: stages that also add a per-row context value (c_b = 1/4, 1/2): the
        # context must reach every stage, in both directions
        use_ctx = (N + d + n) % 2 == 0
        cvals = torch.tensor([[0.25], [0.5]], dtype=torch.float64)

        class CtxAffine(TR.Transform):
            def __init__(self, scale, shift):
                super().__init__()
                self.scale, self.shift = scale, shift

            def _c(self, t, context):
                return context[:, 0].reshape(-1, *([1] * (t.dim() - 1)))

            def forward(self, inputs, context=None):
                return inputs * self.scale + self.shift + self._c(inputs, context), inputs.new_full((inputs.shape[0],), math.log(self.scale) * inputs[0].numel())

            def inverse(self, inputs, context=None):
                return (inputs - self.shift - self._c(inputs, context)) / self.scale, inputs.new_full((inputs.shape[0],), -math.log(self.scale) * inputs[0].numel())

        try:
            m = TR.MultiscaleCompositeTransform(n, split_dim=d)
            sh = tuple(shape)
            for i in range(n):
                sh = m.add_transform(CtxAffine(PRIMES[i], shifts[i]) if use_ctx else TR.PointwiseAffineTransform(shift=shifts[i], scale=PRIMES[i]), sh)
        except Exception as e:
            out["drift"].append("add_transform rejects shape %s split_dim %d stages %d accepted by the specification: %r" % (shape, d, n, e))
            continue
        m.double()
        B = 2
        x = torch.arange(B * N, dtype=torch.float64).reshape(B, *shape) + 1.0
        xf = x.reshape(B, -1)
        out["n"] += 1
        try:
            with torch.no_grad():
                y, lad = m.forward(x.clone(), cvals) if use_ctx else m.forward(x.clone())
        except Exception as e:
            out["fails"].append(dict(case, clause="call_raises", detail="forward: %r" % (e,)))
            continue
        exp = torch.zeros(B, N, dtype=torch.float64)
        for p in range(N):
            v = xf[:, route[p]].clone()
            for i in range(stages[p]):
                v = v * PRIMES[i] + shifts[i] + (cvals[:, 0] if use_ctx else 0.0)
            exp[:, p] = v
        elad = sum(sum(1 for p in range(N) if stages[p] >= i + 1) * math.log(PRIMES[i]) for i in range(n))
        if tuple(y.shape) != (B, N) or not torch.equal(y, exp):
            wrong = [p for p in range(N) if tuple(y.shape) == (B, N) and not torch.equal(y[:, p], exp[:, p])][:4]
            out["fails"].append(dict(case, clause="routing", detail="forward output slots %s differ from the documented routing (slot <- coordinate %s through stages 1..%s)" % (wrong, [route[p] for p in wrong], [stages[p] for p in wrong])))
            continue
        if lad.dtype != torch.float64 or y.dtype != torch.float64:
            out["fails"].append(dict(case, clause="logabsdet", detail="float64 inputs give outputs of dtype %s and a log-abs-det of dtype %s" % (y.dtype, lad.dtype)))
            continue
        if lad.shape != (B,) or not torch.allclose(lad, torch.full((B,), elad, dtype=torch.float64), rtol=1e-12, atol=1e-12):
            out["fails"].append(dict(case, clause="logabsdet", detail="forward logabsdet %s, sum over the stages is %.12g" % (lad.tolist(), elad)))
        # inverse undoes the routing
        out["n"] += 1
        try:
            with torch.no_grad():
                xr, lad2 = m.inverse(y, cvals) if use_ctx else m.inverse(y)
        except Exception as e:
            out["fails"].append(dict(case, clause="call_raises", detail="inverse: %r" % (e,)))
            continue
        if xr.shape != x.shape or not torch.allclose(xr, x, rtol=1e-12, atol=1e-9):
            out["fails"].append(dict(case, clause="inverse_routing", detail="inverse(forward(x)) != x for shape %s split_dim %d (max diff %.3g)" % (shape, d, float((xr.reshape(B, -1) - xf).abs().max()) if xr.numel() == x.numel() else -1)))
        elif not torch.allclose(lad2, -lad, rtol=1e-12, atol=1e-12):
            out["fails"].append(dict(case, clause="logabsdet", detail="inverse logabsdet %s is not the negated sum %s" % (lad2.tolist(), (-lad).tolist())))
        # inverse on an arbitrary flat vector against the specification's `back` map
        z = torch.arange(B * N, dtype=torch.float64).reshape(B, N) * 30.0 + 7.0
        with torch.no_grad():
            try:
                w, _ = m.inverse(z.clone(), cvals) if use_ctx else m.inverse(z.clone())
            except Exception as e:
                out["fails"].append(dict(case, clause="call_raises", detail="inverse: %r" % (e,)))
                continue
        wf = w.reshape(B, -1)
        expw = torch.zeros(B, N, dtype=torch.float64)
        for q in range(N):
            slot = back[q]
            v = z[:, slot].clone()
            for i in reversed(range(stages[slot])):
                v = (v - shifts[i] - (cvals[:, 0] if use_ctx else 0.0)) / PRIMES[i]
            expw[:, q] = v
        if wf.shape != expw.shape or not torch.allclose(wf, expw, rtol=1e-12, atol=1e-9):
            out["fails"].append(dict(case, clause="inverse_routing", detail="inverse places flat slots differently from the documented routing for shape %s split_dim %d" % (shape, d)))
    return out


def to_py(v):
    if isinstance(v, dict):
        return {str(k): to_py(x) for k, x in v.items()}
    if isinstance(v, (tuple, list)):
        return [to_py(x) for x in v]
    return v


def main(run, replay=None):
    run.rule = (
        "cases = every program (nesting of Composite / Inverse over 3 shared atoms) and every accepted multiscale "
        "configuration (shape, split dimension, stages) enumerated by TLC, both directions; non-trivial = programs with at "
        "least one wrapper and multiscale configurations with at least two stages"
    )
    thorough = run.tier == "thorough"
    co_const = {"NumAtoms": 3, "Depth": 2, "MaxParts": 3 if thorough else 2}
    deep_const = {"NumAtoms": 2, "Depth": 3, "MaxParts": 2}
    ms_const = {"MaxRank": 3, "MaxSize": 6 if thorough else 5, "MaxStages": 3}
    if replay and replay["case"].get("kind") == "routing":
        from vcore import routing

        for f in routing.replay(run, replay["case"]):
            run.violation({"kind": "routing", "clause": f["clause"]}, "replayed: " + f["detail"], replay["case"])
        return
    if replay:
        c = replay["case"]
        if c["kind"] == "cdf_program":
            out = {"fails": [f for f in cdf_task(c["seed"])["fails"] if f["prog"] == c["prog"] and f["clause"] == c["clause"]]}
        elif c["kind"] == "program":
            deep = "rot" in c
            res = T.run_tlc("Compose", T.cfg(constants=deep_const if deep else {"NumAtoms": 3, "Depth": 2, "MaxParts": 3}), dump=True, coverage=False, workers=4)
            sts = [s for s in parse_dump(res.dump) if show(s["prog"]) == c["prog"]] or [s for s in long_flat_states() if show(s["prog"]) == c["prog"]]
            out = prog_task((sts, c["seed"], c["rot"]) if deep else (sts, c["seed"]))
        else:
            res = T.run_tlc("Multiscale", T.cfg(constants={"MaxRank": 3, "MaxSize": max(4, max(c["shape"])), "MaxStages": 3}), dump=True, coverage=False, workers=4)
            sts = [s for s in parse_dump(res.dump) if [int(v) for v in s["cfg"]["shape"]] == c["shape"] and int(s["cfg"]["d"]) == c["split_dim"] and int(s["cfg"]["n"]) == c["stages"]]
            out = ms_task((sts, c["seed"]))
        for f in out["fails"]:
            run.violation({"kind": f["kind"], "clause": f["clause"]}, "replayed: " + f["detail"], c)
        return
    nproc = min(16, os.cpu_count() or 4)
    res = T.run_tlc("Compose", T.cfg(constants=co_const, invariants=CO_INVS), dump=True, name="compose", workers=8)
    run.model_must_hold(res, "Compose")
    run.add_tlc(res, "Compose %s" % co_const)
    progs = parse_dump(res.dump)
    rnd = random.Random(run.seed)
    if not thorough and len(progs) > 400:
        progs = rnd.sample(progs, 400)
    # nesting depth 3 over two atoms: every nesting skeleton (the term with its atoms erased) is replayed
    res3 = T.run_tlc("Compose", T.cfg(constants=deep_const, invariants=CO_INVS), dump=True, name="compose_deep", workers=8)
    run.model_must_hold(res3, "Compose depth 3")
    run.add_tlc(res3, "Compose %s" % deep_const)
    by_skel = {}
    for blk in re.split(r"^State \d+:\s*$", open(res3.dump).read(), flags=re.M):
        mm = re.search(r"/\\ prog = (.*?)(?=^/\\ |\Z)", blk, flags=re.M | re.S)
        if mm:
            by_skel.setdefault(re.sub(r"k\|->\d+", "k", re.sub(r"\s+", "", mm.group(1))), []).append(blk)
    per = 10**9 if thorough else 2
    deep_blocks = []
    for k in sorted(by_skel):
        lst = by_skel[k]
        deep_blocks += lst if len(lst) <= per else rnd.sample(lst, per)
    from vcore.tlaval import parse_state

    deep = [parse_state(b) for b in deep_blocks]
    run.extra["depth3_programs_total"] = res3.distinct
    run.extra["depth3_skeletons"] = len(by_skel)
    run.extra["depth3_programs_replayed"] = len(deep)
    res2 = T.run_tlc("Multiscale", T.cfg(constants=ms_const, invariants=MS_INVS), dump=True, name="multiscale", workers=8)
    run.model_must_hold(res2, "Multiscale")
    run.add_tlc(res2, "Multiscale %s" % ms_const)
    mss = parse_dump(res2.dump)
    fails = []
    for out in pmap(prog_task, [(progs[i::nproc], run.seed + s) for i in range(nproc) for s in ((0, 1) if thorough else (0,)) if progs[i::nproc]], nproc):
        run.evaluations += out["n"]
        fails += out["fails"]
    # flat composites far longer than the enumeration bound (the denotation law for a flat composite - the parts in
    # order, the inverse in reverse order - is what Compose.tla proves for every length it enumerates)
    for out in pmap(prog_task, [([st_], run.seed) for st_ in long_flat_states()], nproc):
        run.evaluations += out["n"]
        fails += out["fails"]
    for out in pmap(prog_task, [(deep[i::nproc], run.seed, run.seed + i) for i in range(nproc) if deep[i::nproc]], nproc):
        run.evaluations += out["n"]
        fails += out["fails"]
    for out in pmap(ms_task, [(mss[i::nproc], run.seed) for i in range(nproc) if mss[i::nproc]], nproc):
        run.evaluations += out["n"]
        fails += out["fails"]
        for dmsg in out["drift"][:3]:
            run.note_drift(dmsg)
    for s in progs + deep:
        if str(s["prog"]["t"]) != "atom":
            run.nontrivial.add(show(s["prog"]))
    for s in mss:
        if int(s["cfg"]["n"]) >= 2:
            run.nontrivial.add((tuple(int(v) for v in s["cfg"]["shape"]), int(s["cfg"]["d"]), int(s["cfg"]["n"])))
    p0 = max(progs, key=lambda s: len(s["fwd"]))
    run.sample({"program": show(p0["prog"]), "forward_applies": [[int(k), str(d)] for k, d in p0["fwd"]], "inverse_applies": [[int(k), str(d)] for k, d in p0["inv"]]})
    m0 = next((s for s in mss if int(s["cfg"]["n"]) == 3 and int(s["cfg"]["d"]) == 2), mss[0])
    run.sample({"multiscale": to_py(m0["cfg"]), "route": [int(v) for v in m0["route"]], "stages": [int(v) for v in m0["stages"]]})
    # the transforms that only move coordinates (spec/Routing.tla)
    from vcore import routing

    fails += routing.run_leg(run)
    out = pmap(cdf_task, [run.seed, run.seed], 2)[0]
    run.evaluations += out["n"]
    fails += out["fails"]
    seen = set()
    for f in fails:
        key = (f["kind"], f["clause"], f.get("op"), f.get("dir"), f.get("prog"), tuple(f.get("shape", [])), f.get("split_dim"), f.get("stages"), f.get("dir"))
        if key in seen:
            continue
        seen.add(key)
        run.violation({"kind": f["kind"], "clause": f["clause"]}, "%s %s: %s" % (f["kind"], f.get("prog") or (f.get("shape"), f.get("split_dim"), f.get("stages"), f.get("op")), f["detail"]), {k: v for k, v in f.items() if k != "detail"})
    run.exhaustive = True
    run.assumptions = [
        "programs: nesting depth 2 over 3 atoms (pointwise affine, LU, context-dependent affine coupling) and nesting depth 3 over 2 of them with at most 2 parts per composite (quick: two programs per nesting skeleton), the same atom object may occur several times",
        "routing (Routing.tla): permutations of every dimension of shapes with sizes <= 3 (batch of 2), squeeze factors 2 and 3 on the listed image shapes; exact equality on index-tagged tensors",
        "multiscale: shapes of rank <= 3 with sizes <= MaxSize, 1-3 stages, every split dimension; per-stage affine maps with prime scales make routing and log-det terms decodable exactly",
    ]
