"""C13 - evaluation is free of side effects on arguments and on the model.

(S) TLC checks spec/Session.tla (which state-dict categories a step may write, in which mode; when
    a repeated call must reproduce its result) over every model kind.
(R) Every zoo model is driven along walks that cover every edge of its kind's state graph (calls with
    plain / view / non-contiguous / requires-grad inputs, mode switches, optimiser steps, reloads),
    recording what actually changed.
(T) TLC judges every recorded step against TraceSession.tla - for the harness's own sessions and for
    the histories recorded while the repository's own test-suite runs (vcore.suite_rec); a verdict other than ok on a C13 clause
    (argument modified, state written in eval, undocumented write in training, repeat differs) is a
    violation.
"""
from __future__ import annotations

import os
import random
from vcore.pool import pmap

from vcore import session as S
from vcore import tlc as T

C13_VERDICTS = {"depends_on_history", "mode_changed", "frozen_statistics_written", "argument_modified", "state_written_in_eval", "undocumented_state_write", "repeat_differs", "reinitialised", "reinitialised_after_reload"}


def run_sessions(run, verdicts, thorough, n_random, rand_len, cover=True, max_cover_steps=None, seeds=(0,), patterns=()):
    res, g = S.session_graph(view=True)
    run.model_must_hold(res, "Session")
    run.add_tlc(res, "Session (all model kinds)", require_actions=["Call", "Train", "Eval", "Freeze", "TrainStep", "SaveLoadFresh", "Clone"])
    nproc = min(16, os.cpu_count() or 4)
    rnd = random.Random(run.seed)
    kinds = pmap(S.kinds_task, [0, 0], nproc=2)[0]
    for name, k in kinds.items():
        if k[0] == "error":
            run.note_drift("zoo entry %s cannot be built: %s" % (name, k[1]))
    plans = S.plan(g, kinds, rnd, n_random, rand_len, cover=cover, max_cover_steps=max_cover_steps, patterns=patterns)
    tasks = []
    for name, lst in plans.items():
        for an_init, walks in lst:
            for sd in seeds:
                # split long walk lists so that work spreads over the pool
                for i in range(0, len(walks), 4):
                    tasks.append((name, an_init, run.seed * 1000 + sd * 100 + i, walks[i : i + 4]))
    tasks.sort(key=lambda t: -sum(len(w) for w in t[3]))
    traces = []
    if True:
        for out in pmap(S.session_task, tasks, nproc):
            run.evaluations += out["steps"]
            traces += out["traces"]
            for e in out["errors"]:
                run.note_drift(e)
    bad, n = S.judge_traces(run, traces)
    run.traces += n
    for t in traces:
        for i, ev in enumerate(t["ev"]):
            if ev["a"] == "Call":
                run.nontrivial.add((t["name"], ev["op"], ev["ik"], tuple(t["history"][i - 1]) if i else ()))
            if ev["a"] == "Call" and ev["raised"] not in ("none", "InverseNotAvailable"):
                run.extra.setdefault("calls_raising", {}).setdefault(t["name"] + ":" + ev["op"] + ":" + ev["ik"], ev["raised"])
    if traces:
        run.sample({"model": traces[0]["name"], "events": traces[0]["ev"][:6]})
        run.sample({"model": traces[-1]["name"], "events": traces[-1]["ev"][:6]})
    seen = set()
    for t, idx, verdict in bad:
        if verdict.startswith("clone_"):
            # copying a model is behaviour the specification covers but no listed property speaks about:
            # a mismatch is reported as drift, never as a violation
            run.note_drift("%s: %s after %s" % (t["name"], verdict, t["ev"][idx].get("how")))
            continue
        if verdict not in verdicts:
            continue
        ev = t["ev"][idx]
        key = (t["name"], verdict, ev.get("op"), ev.get("ik"), tuple(ev.get("writes", [])))
        if key in seen:
            continue
        seen.add(key)
        case = {"name": t["name"], "seed": t["seed"], "anInit": t["anInit"], "history": t["history"][: idx + 1]}
        attrs = {"model": t["name"], "verdict": verdict, "op": ev.get("op"), "ik": ev.get("ik"), "writes": ev.get("writes")}
        run.violation(attrs, "%s: %s at step %d %s (history tail %s)" % (t["name"], verdict, idx + 1, {k: v for k, v in ev.items() if k != "a"}, t["history"][max(0, idx - 3) : idx + 1]), case)
    return traces


def suite_sessions(run, verdicts, only=None):
    """(T) on executions nobody here wrote: the repository's own test-suite run under the recorder
    (vcore.suite_rec), once as it is and once with every directly called object switched to
    evaluation mode first; TLC judges every recorded step with the same trace specification."""
    from vcore import suite

    for force_eval in (False, True):
        d = suite.run_suite("session", force_eval=force_eval)
        traces = d["session"]
        run.extra["suite_pass_%s" % ("eval" if force_eval else "plain")] = {"pytest": d["pytest_tail"], "histories": len(traces), "events": sum(len(t["ev"]) for t in traces), "recorder_errors": d["n_errors"]}
        for e in d["errors"][:3]:
            run.note_drift("suite recorder: " + e)
        if not traces:
            raise T.MachineryError("the recorder saw no call in the test-suite: " + d["pytest_tail"])
        bad, n = S.judge_traces(run, traces)
        run.traces += n
        run.evaluations += sum(len(t["ev"]) for t in traces)
        for t in traces:
            for ev in t["ev"]:
                if ev["a"] == "Call":
                    run.nontrivial.add(("suite", t["cls"], ev["op"], "eval" if force_eval else "plain"))
        seen = set()
        for t, idx, verdict in bad:
            if verdict not in verdicts:
                continue
            ev = t["ev"][idx]
            key = (t["cls"], verdict, ev.get("op"), tuple(ev.get("writes", [])))
            if key in seen or (only and (t["test"], t["cls"], verdict) != only):
                continue
            seen.add(key)
            case = {"kind": "suite", "test": t["test"], "cls": t["cls"], "force_eval": force_eval, "verdict": verdict}
            run.violation({"model": t["cls"], "verdict": verdict, "op": ev.get("op"), "source": "test-suite"}, "%s in %s%s: %s at recorded step %d %s" % (t["cls"], t["test"], " (evaluation-mode pass)" if force_eval else "", verdict, idx + 1, {k: v for k, v in ev.items() if k != "a"}), case)


def replay_case(run, c, verdicts):
    import warnings

    if c.get("kind") == "suite":
        return suite_sessions(run, verdicts, only=(c["test"], c["cls"], c["verdict"]))

    warnings.filterwarnings("ignore")
    import torch

    torch.set_num_threads(1)
    from vcore import zoo

    e = zoo.by_name()[c["name"]]
    d = S.SessionDriver(e, c["seed"], c["anInit"])
    for h in c["history"]:
        d.apply(h[0], h[1:])
    t = {"name": c["name"], "seed": c["seed"], "ops": S.entry_kind(e), "bn": S.model_layers(d.m)[0], "an": S.model_layers(d.m)[1], "anInit": c["anInit"], "ev": d.events, "history": d.history}
    bad, _ = S.judge_traces(run, [t])
    for t_, idx, verdict in bad:
        if verdict in verdicts and idx == len(c["history"]) - 1:
            run.violation({"model": c["name"], "verdict": verdict}, "replayed: %s %s" % (verdict, t_["ev"][idx]), c)


def main(run, replay=None):
    run.rule = (
        "cases = recorded steps of sessions on every zoo model along walks covering every edge of the Session state graph "
        "of the model's kind plus seeded random walks; non-trivial = distinct (model, operation, input kind, preceding action)"
    )
    if replay and replay["case"].get("kind") == "nets":
        from vcore import nets

        return nets.replay(run, replay["case"], "C13")
    if replay:
        return replay_case(run, replay["case"], C13_VERDICTS)
    thorough = run.tier == "thorough"
    run_sessions(run, C13_VERDICTS, thorough, n_random=8 if thorough else 1, rand_len=60 if thorough else 30, cover=True, max_cover_steps=None if thorough else 700, seeds=(0, 1) if thorough else (0,))
    suite_sessions(run, C13_VERDICTS)
    from vcore import nets

    nets.run_leg(run, "C13")
    run.exhaustive = thorough
    run.assumptions = [
        "conditioner-network leg (Nets.tla): a written tensor is one whose state-dict entry differs after the call; randomness is a difference > 1e-9 between two copies called under different generator seeds",
        "test-suite leg: the repository's tests are used as drivers only (twice: as written, and with every directly called object in evaluation mode, where the recorder repeats each deterministic call once); their own assertions play no role",
        "a side effect is observed through torch.equal / tensor version counters on caller tensors and through the state dict",
        "repeatability is judged per (operation, input kind) with the torch RNG re-seeded before every call",
        "exceptions raised by a call are recorded (coverage.calls_raising) but are not a C13 verdict",
    ]
