"""C01 - forward log-abs-det equals log|det Jacobian| of the map actually computed.

(S) TLC: Spline.tla (DerivativeIsSlope / CubicSimpson / RQDerivative: the model's reported derivative IS the
    derivative of the model's map, exactly), LinAlg.tla (|det W| = product of diagonal parameters), Xform.tla
    (multiplicity of every parameter term in the per-item log-det: h*w per channel, once per pixel, broadcast
    scales, temperature once per element).
(R) spline lattice: logabsdet vs log of the exact derivative (a mismatch is adjudicated by finite differences
    of the real map before it becomes a violation); linear lattice: forward logabsdet vs exact log|det W|;
    aggregation states: real layers with prime-valued parameters, so that the sum identifies the multiplicity
    of every term; zoo sweep (supplementary, outside the family): autograd Jacobian of every zoo transform at
    generic float64 points, 2-D and image inputs, context, cache on / off.
"""
from __future__ import annotations

import math
import warnings

from vcore import splinerun
from vcore import tlc as T
from vcore.pool import pmap
from vcore.tlaval import parse_dump, rat

PRIMES = [2.0, 3.0, 5.0, 7.0, 11.0, 13.0, 17.0, 19.0, 23.0, 29.0, 31.0, 37.0, 41.0, 43.0, 47.0, 53.0, 59.0, 61.0, 67.0, 71.0, 73.0, 79.0, 83.0, 89.0, 97.0, 101.0, 103.0, 107.0, 109.0, 113.0, 127.0, 131.0, 137.0, 139.0, 149.0, 151.0, 157.0, 163.0, 167.0, 173.0, 179.0, 181.0, 191.0, 193.0, 197.0, 199.0, 211.0, 223.0, 227.0, 229.0, 233.0, 239.0, 241.0, 251.0, 257.0, 263.0, 269.0, 271.0, 277.0, 281.0, 283.0, 293.0, 307.0, 311.0]


def fl(v):
    return [v[k] for k in sorted(v)] if isinstance(v, dict) else list(v)


def agg_task(states):
    warnings.filterwarnings("ignore")
    import torch

    torch.set_num_threads(1)
    from nflows import transforms as TR
    from nflows.transforms import nonlinearities as NL

    out = {"n": 0, "fails": []}
    for st in states:
        kind = str(st["layer"]["kind"])
        shape = [int(v) for v in st["shape"]]
        mult = [int(v) for v in fl(st["mult"])]
        N = math.prod(shape)
        B = 2
        g = torch.Generator().manual_seed(N)
        x = torch.randn(B, *shape, generator=g, dtype=torch.float64)
        case = {"kind": "aggregation", "layer": kind, "shape": shape, "ss": [int(v) for v in st["layer"]["ss"]] if "ss" in st["layer"] else None}
        out["n"] += 1
        try:
            if kind == "ActNorm":
                m = TR.ActNorm(shape[0]).double()
                with torch.no_grad():
                    m.log_scale.copy_(torch.log(torch.tensor(PRIMES[: shape[0]], dtype=torch.float64)))
                    m.shift.copy_(torch.arange(shape[0], dtype=torch.float64))
                    m.initialized.data = torch.tensor(True)
                m.eval()
                if len(shape) not in (1, 3):
                    continue
                y, lad = m(x)
                exp = sum(mult[c] * math.log(PRIMES[c]) for c in range(shape[0]))
            elif kind == "OneByOneConvolution":
                m = TR.OneByOneConvolution(shape[0], identity_init=False).double()
                with torch.no_grad():
                    m.unconstrained_upper_diag.copy_(torch.tensor([math.log(math.expm1(PRIMES[c] - m.eps)) for c in range(shape[0])], dtype=torch.float64))
                m.eval()
                y, lad = m(x)
                exp = mult[0] * sum(math.log(PRIMES[c]) for c in range(shape[0]))
            elif kind == "Sigmoid":
                m = NL.Sigmoid(temperature=3.0).double()
                y, lad = m(torch.zeros_like(x))
                exp = mult[0] * math.log(3.0) - N * 2 * math.log(2.0)
            elif kind == "Elementwise":
                vals = []
                # closed forms that stay accurate far from the origin (log(1 - tanh^2) = 2 (log 2 - |t| - softplus(-2|t|)))
                xe = x.clone()
                xe.view(-1)[0] = 25.0
                xe.view(-1)[-1] = -18.0
                for name, mod, fn in (("Exp", NL.Exp(), lambda t: t), ("Tanh", NL.Tanh(), lambda t: 2.0 * (math.log(2.0) - t.abs() - torch.nn.functional.softplus(-2.0 * t.abs()))), ("LeakyReLU", NL.LeakyReLU(0.5), lambda t: (t < 0).double() * math.log(0.5)), ("LeakyReLU(4)", NL.LeakyReLU(4.0), lambda t: (t < 0).double() * math.log(4.0)), ("CauchyCDF", NL.CauchyCDF(), lambda t: -math.log(math.pi) - torch.log(1 + t ** 2))):
                    y, lad = mod(xe)
                    e = fn(xe).reshape(B, -1).sum(1)
                    if lad.shape != (B,) or not torch.allclose(lad.double(), e, atol=1e-9):
                        out["fails"].append(dict(case, layer=name, clause="aggregation", detail="%s on per-item shape %s: logabsdet %s, sum of the elementwise log-derivatives over all elements %s" % (name, shape, lad.tolist(), e.tolist())))
                continue
            elif kind == "PointwiseAffine":
                ss = [int(v) for v in st["layer"]["ss"]]
                scale = torch.tensor(PRIMES[: math.prod(ss)], dtype=torch.float64).reshape(*ss)
                scale = scale * (1 - 2 * (torch.arange(scale.numel()).reshape(*ss) % 2))  # alternate signs
                m = TR.PointwiseAffineTransform(shift=0.25, scale=scale)
                y, lad = m(x)
                exp = sum(mult[t] * math.log(PRIMES[t]) for t in range(math.prod(ss)))
            else:
                continue
        except Exception as e:  # noqa
            out["fails"].append(dict(case, clause="raises", detail="%s on per-item shape %s raised %r" % (kind, shape, e)))
            continue
        if lad.shape != (B,) or not torch.allclose(lad.double(), torch.full((B,), exp, dtype=torch.float64), rtol=1e-9, atol=1e-9):
            out["fails"].append(dict(case, clause="aggregation", detail="%s%s on per-item shape %s: logabsdet %s, but every parameter term must enter with multiplicity %s (sum %.9g)" % (kind, (" scale shape %s" % case["ss"]) if case["ss"] else "", shape, lad.tolist(), mult, exp)))
    return out


def linear_task(states):
    warnings.filterwarnings("ignore")
    import torch

    torch.set_num_threads(1)
    from checks import c11

    out = {"n": 0, "fails": []}
    for st in states:
        p = st["par"]
        cls, n = str(p["cls"]), int(p["n"])
        if cls in ("Householder", "HouseholderInit"):
            continue
        W = torch.tensor(c11.mat(st["W"]), dtype=torch.float64)
        exp = math.log(float(rat(st["absdet"])))
        for cached in (False, True, "then-loaded-through-a-container"):
            m = c11.build(torch, p)
            if cls == "Naive":
                with torch.no_grad():
                    m._weight.copy_(W)
            x = torch.randn(3, n, dtype=torch.float64, generator=torch.Generator().manual_seed(n))
            if cached == "then-loaded-through-a-container":
                # history: other parameters, evaluation mode, cache on, inverse first; then the state's
                # parameters arrive through an enclosing container's load_state_dict; then forward
                from nflows.transforms.base import CompositeTransform

                sd = {k: v.clone() for k, v in CompositeTransform([m]).state_dict().items()}
                g = torch.Generator().manual_seed(n + 11)
                with torch.no_grad():
                    for q in m.parameters():
                        q.add_(0.4 * torch.randn(q.shape, generator=g, dtype=q.dtype))
                box = CompositeTransform([m])
                box.eval()
                m.use_cache(True)
                with torch.no_grad():
                    try:
                        m.inverse(x)
                    except Exception:  # the scrambled parameters may be singular for tiny lattices
                        pass
                box.load_state_dict(sd)
            else:
                m.eval()
                m.use_cache(cached)
            out["n"] += 1
            with torch.no_grad():
                if cached is True:
                    m.inverse(x)  # an inverse-first history fills the shared log-det slot
                y, lad = m(x)
            J = torch.autograd.functional.jacobian(lambda z: m(z[None])[0][0], x[0])
            if abs(float(lad[0]) - exp) > 1e-8 or abs(float(torch.linalg.slogdet(J)[1]) - float(lad[0])) > 1e-8:
                out["fails"].append({"kind": "linear", "cls": cls, "n": n, "cached": cached, "par": {k: str(v) for k, v in p.items()}, "clause": "logabsdet_not_jacobian", "detail": "%s (features %d, cache %s): forward logabsdet %.9g, log|det W| exact %.9g, autograd Jacobian %.9g" % (cls, n, cached, float(lad[0]), exp, float(torch.linalg.slogdet(J)[1]))})
    return out


def zoo_task(names):
    """Supplementary (not TLA-based): autograd Jacobian of every zoo transform at generic points."""
    warnings.filterwarnings("ignore")
    import torch

    torch.set_num_threads(1)
    from vcore import zoo

    Z = zoo.by_name()
    out = {"n": 0, "fails": [], "skipped": []}
    for name in names:
        e = Z[name]
        for seed in (0, 1):
            try:
                m = zoo.prepare(e, e.build(seed), seed).double().eval()
            except Exception as ex:  # noqa
                out["skipped"].append("%s: %r" % (name, ex))
                break
            x = e.x(2, seed, torch.float64)
            c = e.ctx(2, seed, torch.float64)
            if e.has("umnn"):
                out["skipped"].append(name + ": UMNN (numerical quadrature, float32 internals)")
                break
            for i in range(2):
                xi, ci = x[i : i + 1], (c[i : i + 1] if c is not None else None)
                out["n"] += 1
                try:
                    with torch.no_grad():
                        y, lad = m(xi, ci) if ci is not None else m(xi)
                    J = torch.autograd.functional.jacobian(lambda z: (m(z, ci) if ci is not None else m(z))[0].reshape(-1), xi).reshape(y.numel(), xi.numel())
                    ref = float(torch.linalg.slogdet(J)[1])
                except Exception as ex:  # noqa
                    out["fails"].append({"kind": "zoo", "name": name, "seed": seed, "row": i, "clause": "raises", "detail": "%s: forward / Jacobian raised %r" % (name, ex)})
                    break
                if not math.isfinite(float(lad[0])) or abs(float(lad[0]) - ref) > 1e-6 * (1 + abs(ref)):
                    out["fails"].append({"kind": "zoo", "name": name, "seed": seed, "row": i, "clause": "logabsdet_not_jacobian", "detail": "%s: logabsdet %.9g, log|det| of the autograd Jacobian %.9g" % (name, float(lad[0]), ref)})
                    break
    return out


def main(run, replay=None):
    run.rule = (
        "cases = spline lattice points, LinAlg parameter states (cache off and on), aggregation states (layer x per-item shape "
        "x broadcast scale shape) and zoo transforms at generic points; non-trivial = distinct spline parameter sets, "
        "aggregation states with a shared parameter (multiplicity > 1) and zoo transforms"
    )
    thorough = run.tier == "thorough"
    if replay:
        c = replay["case"]
        if c.get("kind") == "spline":
            return splinerun.replay_spline(run, "C01", c)
        if c.get("kind") == "zoo":
            for f in zoo_task([c["name"]])["fails"]:
                run.violation({"kind": "zoo", "name": c["name"], "clause": f["clause"]}, "replayed: " + f["detail"], c)
            return
        if c.get("kind") == "aggregation":
            res = T.run_tlc("Xform", T.cfg(constants={"MaxC": 3, "MaxH": 2, "MaxW": 3}), dump=True, coverage=False, workers=4)
            sts = [s for s in parse_dump(res.dump) if [int(v) for v in s["shape"]] == c["shape"] and (str(s["layer"]["kind"]) == c["layer"] or (c["layer"] in ("Exp", "Tanh", "LeakyReLU", "CauchyCDF") and str(s["layer"]["kind"]) == "Elementwise")) and (c.get("ss") is None or [int(v) for v in s["layer"]["ss"]] == c["ss"])]
            for f in agg_task(sts)["fails"]:
                run.violation({"kind": "aggregation", "layer": f["layer"], "clause": f["clause"]}, "replayed: " + f["detail"], c)
            return
        res = T.run_tlc("LinAlg", T.cfg(constants={"MaxD": 3, "MaxK": 2, "Rich": "FALSE"}), dump=True, coverage=False, workers=8)
        sts = [s for s in parse_dump(res.dump) if {k: str(v) for k, v in s["par"].items()} == c["par"]]
        for f in linear_task(sts)["fails"]:
            run.violation({"kind": "linear", "cls": f["cls"], "clause": f["clause"]}, "replayed: " + f["detail"], c)
        return
    splinerun.run_lattice(run, "C01", thorough)
    xres = T.run_tlc("Xform", T.cfg(constants={"MaxC": 3, "MaxH": 3 if thorough else 2, "MaxW": 3}, invariants=["EveryElementOnce", "PerPixel", "ChannelTimesPixels"]), dump=True, name="xform", workers=4)
    run.model_must_hold(xres, "Xform")
    run.add_tlc(xres, "Xform aggregation")
    xs = parse_dump(xres.dump)
    lres = T.run_tlc("LinAlg", T.cfg(constants={"MaxD": 3, "MaxK": 2, "Rich": "FALSE"}, invariants=["LogAbsDetIsDet", "InverseIsInverse"]), dump=True, name="linalg", workers=8)
    run.model_must_hold(lres, "LinAlg")
    run.add_tlc(lres, "LinAlg (|det W|)")
    ls = parse_dump(lres.dump)
    fails = []
    for out in pmap(agg_task, [xs[i::8] for i in range(8)], 8):
        run.evaluations += out["n"]
        fails += out["fails"]
    for out in pmap(linear_task, [ls[i::16] for i in range(16)], 16):
        run.evaluations += out["n"]
        fails += out["fails"]
    from vcore import zoo as _z

    names = [e.name for e in _z.entries() if e.kind == "transform"]
    skipped = []
    for out in pmap(zoo_task, [names[i::16] for i in range(16)], 16):
        run.evaluations += out["n"]
        fails += out["fails"]
        skipped += out["skipped"]
    run.extra["zoo_skipped"] = skipped
    for s in xs:
        if any(int(v) > 1 for v in fl(s["mult"])):
            run.nontrivial.add(("agg", str(s["layer"]["kind"]), tuple(int(v) for v in s["shape"]), repr(s["layer"].get("ss"))))
    for n in names:
        run.nontrivial.add(("zoo", n))
    ex = next(s for s in xs if str(s["layer"]["kind"]) == "PointwiseAffine" and [int(v) for v in s["shape"]] == [3, 2, 3] and [int(v) for v in s["layer"]["ss"]] == [3, 1, 1])
    run.sample({"layer": "PointwiseAffine scale shape [3,1,1] on item shape [3,2,3]", "multiplicity_of_each_scale_element": [int(v) for v in fl(ex["mult"])]})
    seen = set()
    for f in fails:
        key = (f["kind"], f.get("layer"), f.get("name"), f.get("cls"), f.get("cached"), repr(f.get("shape")), repr(f.get("ss")), f["clause"])
        if key in seen:
            continue
        seen.add(key)
        run.violation({"kind": f["kind"], "clause": f["clause"], "layer": f.get("layer"), "name": f.get("name"), "cls": f.get("cls")}, f["detail"], {k: v for k, v in f.items() if k != "detail"})
    run.exhaustive = True
    run.assumptions = [
        "scalar derivatives of the transcendental maps (sigmoid' = sigmoid(1 - sigmoid), ...) are stated facts; the specification decides aggregation, composition and the rational (spline, linear) cases",
        "the zoo sweep uses torch autograd as the Jacobian oracle; it is supplementary evidence outside the TLA+ technique (UMNN layers are skipped: numerical quadrature)",
        "BatchNorm is checked in evaluation mode only (in training mode the map couples the batch items)",
    ]
