"""C12 - batch items are evaluated independently in evaluation mode.

(S) TLC: spec/BatchIndep.tla - every batch composition (every non-empty subset of a row pool in every
    order, up to MaxB rows) and RowLocal for the reshape / permute pipelines of the image code paths
    (1x1 convolution, piecewise coupling parameter layout) as Tensor.tla views.
(R) every composition is evaluated on every zoo model in evaluation mode - on a model freshly built and
    loaded for each evaluation, so that nothing one batch does can leak into the next - and compared row by
    row with single-row evaluation: forward, inverse, log_prob, transform_to_noise, with context rows
    following their inputs.  The pool mixes rows inside and outside the spline tail bounds; models with
    data-dependent layers are tried both initialised and pristine.
"""
from __future__ import annotations

import warnings

from vcore import tlc as T
from vcore.pool import pmap
from vcore.tlaval import parse_dump

CONSTS = {"PoolSize": 4, "MaxB": 4, "MaxC": 3, "MaxH": 2, "MaxW": 3, "MaxM": 3}


def pool_rows(torch, e, seed, dt):
    x = e.x(4, seed, dt).clone()
    y = e.y(4, seed, dt).clone()
    if not e.has("bounded01") and not e.has("discrete"):
        x[0] = x[0] * 0.2          # well inside any tail bound
        x[1] = x[1] * 3.0 + 0.5    # reaches into the tails
        x[3] = torch.sign(x[3]) * (25.0 + x[3].abs())   # far out in every coordinate (densities ~ exp(-300))
        y[0] = y[0] * 0.2 if e._y is None else y[0]
    c = e.ctx(4, seed, dt)
    return x, y, c


def zoo_task(t):
    warnings.filterwarnings("ignore")
    import torch

    torch.set_num_threads(1)
    from vcore import zoo

    names, comps, seed = t
    Z = zoo.by_name()
    out = {"n": 0, "fails": [], "skipped": []}
    for name in names:
        e = Z[name]
        # densities also in single precision, where a row 300 nats down the tail underflows unless the
        # reduction is stabilised row by row
        dts = [torch.float32] if e.has("umnn") else [torch.float64] + ([torch.float32] if e.kind in ("dist", "flow") and not e.has("discrete") else [])
        for dt, variant in [(d_, v_) for d_ in dts for v_ in ["prepared"] + (["pristine"] if e.has("needs_init") and d_ == dts[0] else []) + (["prepared/after-sample"] if e.kind == "flow" and e.has("sample") and d_ == dts[0] else []) + (["prepared/one-model-reused-buffers", "prepared/expanded-context"] if d_ == dts[0] and e.ctx(4, seed, d_) is not None and not e.has("umnn") else [])]:
            tol = 2e-4 if dt == torch.float32 else 1e-9
            if dt == torch.float32 and not e.has("umnn"):
                variant = "prepared/float32"
            try:
                m0 = e.build(seed)
                if variant.startswith("prepared"):
                    zoo.prepare(e, m0, seed)
                sd0 = {k: v.clone() for k, v in m0.state_dict().items()}
            except Exception as ex:  # noqa
                out["skipped"].append("%s: %r" % (name, ex))
                break
            x, y, c = pool_rows(torch, e, seed, dt)

            def fresh():
                m = e.build(seed + 31)
                m.load_state_dict(sd0)
                if dt == torch.float64:
                    m = m.double()
                m.eval()
                if variant.endswith("after-sample"):
                    # the evaluation-mode model has been sampled from before it is evaluated
                    with torch.no_grad():
                        try:
                            m.sample(2, context=c[:2].to(dt)) if c is not None else m.sample(2)
                        except Exception:  # noqa  (e.g. a double-precision flow over a StandardNormal base)
                            mf = e.build(seed + 31)
                            mf.load_state_dict(sd0)
                            mf.eval()
                            mf.sample(2, context=c[:2].float()) if c is not None else mf.sample(2)
                            m = mf.double() if dt == torch.float64 else mf
                return m

            if e.kind == "transform":
                ops = ["forward"] + (["inverse"] if e.has("inv") else [])
            elif e.kind == "dist":
                ops = ["log_prob"]
            else:
                ops = ["log_prob", "transform_to_noise"]
            if e.kind in ("dist", "flow") and e.has("sample") and c is not None and not e.has("nonreparam") and not e.has("discrete"):
                # sample_and_log_prob under a constant noise stream: what is returned for a context row is a
                # function of that row alone
                ops.append("sample_and_log_prob")

            # "one-model-reused-buffers": ONE evaluation-mode model serves every call, and the caller feeds rows through
            # pre-allocated buffers (same storage, new values) - what a serving loop does
            # "expanded-context": the context is a broadcast view (zero stride along the features, distinct rows)
            reuse = variant.endswith("one-model-reused-buffers")
            expanded = variant.endswith("expanded-context") and c is not None and c.dim() == 2
            shared = {"m": None, "buf": {}}

            def through_buffer(key, t_):
                b = shared["buf"].get((key, tuple(t_.shape)))
                if b is None:
                    b = shared["buf"][(key, tuple(t_.shape))] = torch.empty_like(t_)
                b.copy_(t_)
                return b

            def run_op(op, idx):
                if reuse:
                    if shared["m"] is None:
                        shared["m"] = fresh()
                    m = shared["m"]
                else:
                    m = fresh()
                xin = (y if op == "inverse" else x)[idx]
                cin = c[idx] if c is not None else None
                if expanded:
                    cin = c[:, 0][idx][:, None].expand(len(idx), c.shape[1])
                if reuse:
                    xin = through_buffer("x" + op, xin)
                    cin = through_buffer("c", cin) if cin is not None else None
                if op == "sample_and_log_prob":
                    orig_randn = torch.randn
                    torch.randn = lambda *size, **kw: torch.full(tuple(size[0]) if len(size) == 1 and isinstance(size[0], (tuple, list, torch.Size)) else tuple(size), 0.37, dtype=dt)
                    try:
                        with torch.no_grad():
                            r = m.sample_and_log_prob(2, context=cin)
                    finally:
                        torch.randn = orig_randn
                    return [t_.detach() for t_ in r]
                with torch.no_grad():
                    r = getattr(m, op)(xin, cin) if cin is not None else getattr(m, op)(xin)
                return [t_.detach() for t_ in (r if isinstance(r, (tuple, list)) else (r,))]

            stop = False
            for op in ops:
                if variant == "pristine" and op == "inverse" and e.has("batch_coupled_train"):
                    pass
                try:
                    singles = {i: run_op(op, [i]) for i in range(4)}
                except Exception as ex:  # noqa
                    # a row that cannot be evaluated alone although the same rows evaluate as a batch: the
                    # result of a row is then not a function of the row
                    try:
                        whole = run_op(op, [0, 1, 2, 3])
                        ok = all(bool(torch.isfinite(t_).all()) for t_ in whole)
                    except Exception:  # noqa
                        ok = False
                    if not ok and dt == torch.float64:
                        # the model as built (single precision), same question
                        def run32(idx):
                            m = e.build(seed + 31)
                            m.load_state_dict(sd0)
                            m.eval()
                            xin = (y if op == "inverse" else x)[idx].float()
                            cin = c[idx].float() if c is not None else None
                            with torch.no_grad():
                                r = getattr(m, op)(xin, cin) if cin is not None else getattr(m, op)(xin)
                            return [t_.detach() for t_ in (r if isinstance(r, (tuple, list)) else (r,))]

                        try:
                            run32([0])
                        except Exception as ex32:  # noqa
                            try:
                                ok = all(bool(torch.isfinite(t_).all()) for t_ in run32([0, 1, 2, 3]))
                                ex = ex32
                            except Exception:  # noqa
                                ok = False
                    if ok:
                        out["n"] += 1
                        out["fails"].append({"name": name, "op": op, "variant": variant, "comp": [1], "seed": seed, "clause": "row_alone_raises", "detail": "%s %s (%s): a single row raises %r, the batch of all four rows evaluates" % (name, op, variant, ex)})
                        break
                    out["skipped"].append("%s %s (%s): single-row evaluation raised %r" % (name, op, variant, ex))
                    continue
                # (rows outside a support have log-density -inf, overflowing rows nan: whatever a row gives alone it
                # must give in every batch - infinities and nans are compared as values)
                for comp in comps:
                    idx = [k - 1 for k in comp]
                    out["n"] += 1
                    case = {"name": name, "op": op, "variant": variant, "comp": list(comp), "seed": seed}
                    try:
                        res = run_op(op, idx)
                    except Exception as ex:  # noqa
                        out["fails"].append(dict(case, clause="raises", detail="%s %s on batch rows %s raised %r although every row evaluates alone" % (name, op, list(comp), ex)))
                        stop = True
                        break
                    for pos, i in enumerate(idx):
                        for a, b in zip(res, singles[i]):
                            ra = a[pos : pos + 1]
                            if ra.shape != b.shape or not bool(torch.allclose(ra, b, rtol=tol, atol=tol, equal_nan=True)):
                                err = float((ra - b).abs().max()) if ra.shape == b.shape else float("nan")
                                out["fails"].append(dict(case, clause="row_depends_on_batch", detail="%s %s (%s): row %d evaluated in batch %s differs from the same row alone by %.3g" % (name, op, variant, i + 1, list(comp), err)))
                                stop = True
                                break
                        if stop:
                            break
                    if stop:
                        break
                if stop:
                    break
    return out


def prior_task(t):
    """The box-shaped priors (torch distributions, not modules): rows inside and outside the support, every batch
    composition against the rows alone; -inf and nan are compared as values."""
    warnings.filterwarnings("ignore")
    import torch

    torch.set_num_threads(1)
    from nflows.distributions import uniform as U

    comps, seed = t
    out = {"n": 0, "fails": [], "skipped": []}
    g = torch.Generator().manual_seed(seed)
    priors = {
        "BoxUniform": (lambda: U.BoxUniform(low=torch.tensor([-1.0, 2.0]), high=torch.tensor([3.0, 2.5])), torch.tensor([[0.5, 2.2], [9.0, 2.2], [2.9, 2.4], [0.0, -7.0]])),
        "LotkaVolterraOscillating": (lambda: U.LotkaVolterraOscillating(), torch.cat([torch.rand(1, 4, generator=g) * 2 - 3, torch.full((1, 4), 7.5), torch.rand(1, 4, generator=g) * 2 - 3, torch.tensor([[0.0, -9.0, 0.0, 0.0]])])),
        "MG1Uniform": (lambda: U.MG1Uniform(low=torch.zeros(3), high=torch.tensor([10.0, 10.0, 1.0 / 3.0])), torch.tensor([[2.0, 5.0, 0.2], [2.0, 1.0, 0.2], [40.0, 45.0, 0.1], [1.0, 3.0, 0.3]])),
    }
    for name, (build, pts) in priors.items():
        try:
            singles = {i: build().log_prob(pts[i : i + 1]) for i in range(4)}
        except Exception as ex:  # noqa
            out["skipped"].append("%s: %r" % (name, ex))
            continue
        for comp in comps:
            idx = [k - 1 for k in comp]
            out["n"] += 1
            case = {"name": name, "op": "log_prob", "variant": "prior", "comp": list(comp), "seed": seed}
            try:
                res = build().log_prob(pts[idx])
            except Exception as ex:  # noqa
                out["fails"].append(dict(case, clause="raises", detail="%s log_prob on rows %s raised %r although every row evaluates alone" % (name, list(comp), ex)))
                break
            bad = [i for pos, i in enumerate(idx) if not bool(torch.allclose(res[pos : pos + 1], singles[i], rtol=1e-6, atol=1e-6, equal_nan=True))]
            if bad:
                i = bad[0]
                out["fails"].append(dict(case, clause="row_depends_on_batch", detail="%s log_prob: row %d evaluated in batch %s gives %s, alone %s" % (name, i + 1, list(comp), float(res[idx.index(i)]), float(singles[i][0]))))
                break
    return out


def main(run, replay=None):
    run.rule = (
        "cases = (zoo model, operation, initialisation variant, batch composition) with every composition enumerated by TLC "
        "(non-empty subsets of 4 pool rows in every order, up to 3 rows); non-trivial = those with at least two rows"
    )
    thorough = run.tier == "thorough"
    consts = dict(CONSTS)
    if thorough:
        consts.update(PoolSize=4, MaxB=4, MaxH=3)
    res = T.run_tlc("BatchIndep", T.cfg(constants=consts, invariants=["RowLocal", "CompositionsWellFormed"]), dump=True, name="batchindep", workers=8, timeout=3000)
    run.model_must_hold(res, "BatchIndep")
    run.add_tlc(res, "BatchIndep %s" % consts)
    states = parse_dump(res.dump)
    comps = sorted([tuple(int(v) for v in s["comp"]) for s in states if str(s["kind"]) == "composition"])
    run.extra["view_pipeline_states"] = sum(1 for s in states if str(s["kind"]) != "composition")
    from vcore import zoo as _z

    names = [e.name for e in _z.entries()]
    if replay and replay["case"].get("kind") == "nets":
        from vcore import nets

        return nets.replay(run, replay["case"], "C12")
    if replay and replay["case"].get("variant") == "prior":
        c = replay["case"]
        for f in prior_task(([tuple(c["comp"])], c["seed"]))["fails"]:
            if f["name"] == c["name"]:
                run.violation({"name": c["name"], "clause": f["clause"], "op": f["op"]}, "replayed: " + f["detail"], c)
        return
    if replay:
        c = replay["case"]
        out = zoo_task(([c["name"]], [tuple(c["comp"])], c["seed"]))
        for f in out["fails"]:
            if f["op"] == c["op"] and f["variant"] == c["variant"]:
                run.violation({"name": c["name"], "clause": f["clause"], "op": f["op"]}, "replayed: " + f["detail"], c)
        return
    fails, skipped = [], []
    for out in pmap(zoo_task, [([n], comps, run.seed) for n in names]):
        run.evaluations += out["n"]
        fails += out["fails"]
        skipped += out["skipped"]
    out = prior_task((comps, run.seed))
    run.evaluations += out["n"]
    fails += out["fails"]
    skipped += out["skipped"]
    run.extra["skipped"] = skipped[:40]
    for n in names:
        for cp in comps:
            if len(cp) >= 2:
                run.nontrivial.add((n, cp))
    run.sample({"compositions": [list(c) for c in comps[:12]], "total": len(comps)})
    seen = set()
    for f in fails:
        key = (f["name"], f["op"], f["variant"], f["clause"])
        if key in seen:
            continue
        seen.add(key)
        run.violation({"name": f["name"], "clause": f["clause"], "op": f["op"], "variant": f["variant"]}, f["detail"], {k: v for k, v in f.items() if k != "detail"})
    from vcore import nets

    nets.run_leg(run, "C12")
    run.exhaustive = True
    run.assumptions = [
        "conditioner-network leg (Nets.tla): row coupling is measured on row 0 after changing every other row of inputs and context, threshold 1e-9",
        "float64 models (1e-9: BLAS may reorder sums); UMNN layers in float32 (2e-4)",
        "each evaluation uses a model freshly built and loaded from one state dict, so cross-call state cannot mask a batch dependence",
    ]
