"""C07 - coupling layers leave identity features untouched and condition only on them.

(S) TLC enumerates every mask (values -1,0,1,2, both sides non-empty) x layout x unconditional
    transform x direction in spec/Coupling.tla and proves the index book-keeping properties.
(R) every enumerated state is replayed on the real coupling classes with a conditioner that mixes ALL
    identity elements (so the dependency pattern is exact): identity features bit-for-bit (inputs contain
    -0.0), Jacobian pattern = the specification's dep relation, index buffers = the specification's lists.
"""
from __future__ import annotations

import os
import random
import re
import warnings

from vcore import tlc as T
from vcore.pool import pmap
from vcore.tlaval import parse_state

INVS = ["Partition", "IdentityCopied", "IdentityOwnOnly", "OwnInputOnly", "ConditionerSeesIdentityOnly", "Triangular", "IdentityNeverRejected", "RejectedIffCheckedOutside"]
DEN = 2
MASKCONST = {"MaskValues": "<- MaskValuesHalves", "MaskDen": DEN, "NumPixels": 2}
PIECEWISE = ("PLinear", "PQuadratic", "PCubic", "PRQ")


def mask_object(mask, seed):
    """The specification's mask (integers in units of 1/DEN) as one of the containers a user passes."""
    import numpy as np
    import torch

    vals = [v / DEN for v in mask]
    integral = all(v % DEN == 0 for v in mask)
    kinds = ["list", "tuple", "float_tensor", "numpy", "bool_tensor"]
    if integral:
        kinds += ["int_list", "long_tensor"]
        if min(mask) >= 0:
            kinds.append("byte_tensor")
    k = kinds[(sum((i + 1) * v for i, v in enumerate(mask)) + seed) % len(kinds)]
    if k == "list":
        return vals
    if k == "tuple":
        return tuple(vals)
    if k == "float_tensor":
        return torch.tensor(vals)
    if k == "numpy":
        return np.array(vals)
    if k == "bool_tensor":
        return torch.tensor(vals) > 0
    ints = [v // DEN for v in mask]
    if k == "int_list":
        return ints
    if k == "long_tensor":
        return torch.tensor(ints, dtype=torch.long)
    return torch.tensor(ints, dtype=torch.uint8)

CLASSES = ["Affine", "Additive", "PLinear", "PQuadratic", "PCubic", "PRQ", "UMNN"]
H, W = 1, 2


def make_mixnet(torch, in_f, out_f, img, ctx, seed):
    nn = torch.nn
    P = H * W if img else 1

    class MixNet(nn.Module):
        """Conditioner whose every output depends on every identity element (all pixels) and on the
        context - the densest dependency the property allows."""

        def __init__(self):
            super().__init__()
            g = torch.Generator().manual_seed(seed)
            self.A = nn.Parameter(0.3 + 0.4 * torch.rand(in_f * P, out_f * P, generator=g))
            self.C = nn.Parameter(0.2 * torch.rand(ctx, out_f * P, generator=g)) if ctx else None
            self.offset = 0.0   # added to every output (the harness pushes the parameters far out with it)

        def forward(self, x, context=None):
            # handles precision itself: computes in its parameters' dtype, answers in the dtype it was asked in
            b = x.shape[0]
            out = x.reshape(b, -1).to(self.A.dtype) @ self.A + self.offset
            if context is not None and self.C is not None:
                out = out + context.to(self.C.dtype) @ self.C
            out = out.to(x.dtype)
            return out.reshape(b, out_f, H, W) if img else out.reshape(b, out_f)

    return MixNet()


def build(cls, mask, img, uncond, ctx, seed, libnet=False, bounded=False):
    import torch
    from nflows import transforms as TR
    from nflows.nn import nets

    def create(i, o):
        if libnet:
            if img:
                return nets.ConvResidualNet(i, o, hidden_channels=4, num_blocks=1, dropout_probability=0.3)
            # (with dropout: inactive in evaluation mode, where the layer is checked)
            return nets.ResidualNet(i, o, hidden_features=6, context_features=ctx, num_blocks=1, dropout_probability=0.3)
        return make_mixnet(torch, i, o, img, ctx, seed)

    ishape = [H, W] if img else None
    mask = mask_object(mask, seed)
    try:
        return _construct(cls, mask, create, ishape, img, uncond, bounded)
    finally:
        # the mask is the caller's object: what the caller does to it afterwards (SimpleRealNVP flips it
        # in place for the next layer) must not reach into the layer that was built from it
        import numpy as np

        if isinstance(mask, torch.Tensor):
            if mask.dtype == torch.bool:
                mask.logical_not_()
            elif mask.dtype == torch.uint8:
                mask.fill_(1)
            else:
                mask.mul_(-1)
        elif isinstance(mask, np.ndarray):
            mask *= -1
        elif isinstance(mask, list):
            mask[:] = [-v for v in mask]


def _construct(cls, mask, create, ishape, img, uncond, bounded):
    import torch
    from nflows import transforms as TR

    if cls in ("Affine", "Additive"):
        C = TR.AffineCouplingTransform if cls == "Affine" else TR.AdditiveCouplingTransform
        ut = (lambda features: TR.PointwiseAffineTransform(shift=0.25, scale=1.5)) if uncond else None
        return C(mask, create, unconditional_transform=ut)
    if cls == "UMNN":
        if img and uncond:
            return None
        return TR.UMNNCouplingTransform(mask, create, integrand_net_layers=[6, 6], cond_size=2, nb_steps=10, apply_unconditional_transform=uncond)
    C = {"PLinear": TR.PiecewiseLinearCouplingTransform, "PQuadratic": TR.PiecewiseQuadraticCouplingTransform, "PCubic": TR.PiecewiseCubicCouplingTransform, "PRQ": TR.PiecewiseRationalQuadraticCouplingTransform}[cls]
    if bounded:
        return C(mask, create, num_bins=3, tails=None, apply_unconditional_transform=uncond, img_shape=ishape)
    return C(mask, create, num_bins=3, tails="linear", tail_bound=3.0, apply_unconditional_transform=uncond, img_shape=ishape)


def bits(t):
    import torch

    return t.contiguous().view(torch.int32 if t.dtype == torch.float32 else torch.int64)


def check_state(st, cls, ctx, seed, libnet=False):
    """Returns (n_checks, failures, drifts) for one specification state on one real class."""
    import torch

    mask = [int(v) for v in st["mask"]]
    D = len(mask)
    img = st["layout"] == "img"
    uncond = bool(st["uncond"])
    inv = st["dir"] == "inv"
    bounded = bool(st["bounded"])
    outside = sorted(int(i) - 1 for i in st["outside"])
    if bounded and cls not in PIECEWISE:
        return 0, [], []
    ident = [int(i) - 1 for i in st["ident"]]
    trans = [int(i) - 1 for i in st["trans"]]
    torch.manual_seed(seed)
    try:
        m = build(cls, mask, img, uncond, ctx, seed, libnet, bounded)
    except Exception as e:
        # Coupling.tla's Construct accepts every mask with both sides non-empty ("any pattern and any
        # numeric values"); a constructor that refuses one breaks the documented mask contract
        case = {"cls": cls, "mask": mask, "den": DEN, "bounded": bounded, "outside": outside, "layout": st["layout"], "uncond": uncond, "dir": st["dir"], "ctx": ctx, "seed": seed, "libnet": libnet}
        return 1, [dict(case, clause="constructor_rejects_mask", detail="constructor raised %r" % (e,))], []
    if m is None:
        return 0, [], []
    # every second state: the layer under test was built with ANOTHER mask of the same split sizes (the
    # reversed one) and then received this layer's checkpoint - which features it leaves alone is part of
    # the checkpoint (index buffers), so it must now behave as the specification's mask says
    reloaded = False
    if (sum(mask) + D + seed) % 2 == 0 and mask[::-1] != mask and cls != "UMNN":
        try:
            torch.manual_seed(seed)
            m2 = build(cls, mask[::-1], img, uncond, ctx, seed, libnet, bounded)
            m2.load_state_dict({k: v.clone() for k, v in m.state_dict().items()})
            m, reloaded = m2, True
        except Exception as e:  # noqa
            case = {"cls": cls, "mask": mask, "den": DEN, "bounded": bounded, "outside": outside, "layout": st["layout"], "uncond": uncond, "dir": st["dir"], "ctx": ctx, "seed": seed, "libnet": libnet}
            return 1, [dict(case, clause="checkpoint_rejected", detail="a layer built with the reversed mask cannot load this layer's state dict: %r" % (e,))], []
    m.eval()
    fails, drifts = [], []
    if [int(v) for v in m.identity_features.tolist()] != ident or [int(v) for v in m.transform_features.tolist()] != trans:
        drifts.append("%s mask %s: index buffers %s / %s differ from the specification's %s / %s" % (cls, mask, m.identity_features.tolist(), m.transform_features.tolist(), ident, trans))
    g = torch.Generator().manual_seed(seed + 5)
    shape = (3, D, H, W) if img else (3, D)
    f = m.inverse if inv else m.forward
    c = torch.randn(3, ctx, generator=g) if ctx else None
    # (1) bit-for-bit copy of identity features; inputs contain -0.0, 0.0, values beyond the tail bound
    case = {"cls": cls, "mask": mask, "den": DEN, "bounded": bounded, "outside": outside, "layout": st["layout"], "uncond": uncond, "dir": st["dir"], "ctx": ctx, "seed": seed, "libnet": libnet, "reloaded": reloaded}
    if bounded:
        # the elementwise transform lives on the unit box: features in `outside` carry values beyond it
        # (on every row, together with -0.0 and the box's end points on the others)
        x = torch.rand(shape, generator=g) * 0.9 + 0.05
        x.view(-1)[::5] = 1.0
        x.view(-1)[2::7] = 0.0
        for j, i in enumerate(outside):
            x[:, i] = torch.tensor([4.5, -0.8, 1.0 + 2.0 ** -20])[(torch.arange(3) + j) % 3].reshape((3,) + (1,) * (len(shape) - 2))
            if i in ident:
                x[0, i].view(-1)[0] = -0.0
        from nflows.transforms.base import InputOutsideDomain

        try:
            with torch.no_grad():
                y, lad = f(x.clone(), c)
            got = "Value"
        except InputOutsideDomain:
            got = "InputOutsideDomain"
        except Exception as e:
            fails.append(dict(case, clause="call_raises", detail=repr(e)[:200]))
            return 1, fails, drifts
        if got != st["outcome"]:
            if st["outcome"] == "Value":
                fails.append(dict(case, clause="identity_value_rejected", detail="the call raised InputOutsideDomain although only identity features %s lie outside the elementwise transform's box" % (outside,)))
            else:
                drifts.append("%s mask %s %s: features %s outside the box were accepted, the specification says InputOutsideDomain" % (cls, mask, st["dir"], outside))
            return 1, fails, drifts
        if got == "InputOutsideDomain":
            return 1, fails, drifts
    else:
        x = torch.rand(shape, generator=g) * 1.6 - 0.8
        x.view(-1)[::3] = -0.0
        x.view(-1)[1::7] = 4.5
        x.view(-1)[2::11] = 0.0
        try:
            with torch.no_grad():
                y, lad = f(x.clone(), c)
        except Exception as e:
            fails.append(dict(case, clause="call_raises", detail=repr(e)[:200]))
            return 1, fails, drifts
    n = 1
    if y.shape != x.shape:
        fails.append(dict(case, clause="shape", detail="output shape %s for input %s" % (tuple(y.shape), tuple(x.shape))))
        return n, fails, drifts
    if not uncond:
        for i in ident:
            if not torch.equal(bits(y[:, i]), bits(x[:, i])):
                fails.append(dict(case, clause="identity_not_bitwise", detail="identity feature %d (mask %d) is not returned bit-for-bit: %s -> %s" % (i, mask[i], x[:, i].flatten()[:4].tolist(), y[:, i].flatten()[:4].tolist())))
                break
    # (1r) library conditioner (built with dropout), evaluation mode: the transformed features are a function of
    # the inputs and the context - the same call again gives the same result
    if libnet and not bounded and cls != "UMNN":
        with torch.no_grad():
            y_again = f(x.clone(), c)[0]
        n += 1
        if not torch.equal(bits(y_again), bits(y)):
            fails.append(dict(case, clause="dependency", detail="evaluation mode, conditioner with dropout: the same call twice gives outputs that differ by %.3g (the transformed features are not a function of identity features and context)" % float((y_again - y).abs().max())))
    # (1a'') image inputs in another dense memory layout (height and width swapped in memory, same values):
    # the same result, identity features bit for bit.  (Library conditioner: convolutional, any image size.)
    if img and libnet and not bounded and cls != "UMNN":
        x2 = torch.rand((3, D, 2, 3), generator=g) * 1.2 - 0.6
        x2.view(-1)[::4] = -0.0
        xs = x2.permute(0, 1, 3, 2).contiguous().permute(0, 1, 3, 2)
        try:
            with torch.no_grad():
                y2 = f(x2.clone(), c)[0]
                ys = f(xs, c)[0]
        except Exception as e:  # noqa
            y2 = ys = None
        if ys is not None:
            n += 1
            ok_id = uncond or all(torch.equal(bits(ys[:, i]), bits(x2[:, i])) for i in ident)
            if not ok_id or ys.shape != y2.shape or not torch.allclose(ys, y2, rtol=1e-5, atol=1e-6, equal_nan=True):
                fails.append(dict(case, clause="identity_not_bitwise" if not ok_id else "layout", detail="image input whose height and width are swapped in memory (same values): %s" % ("identity features are not returned bit for bit" if not ok_id else "outputs differ from those for the contiguous input by %.3g" % float((ys - y2).abs().max()))))
    # (1a') double-precision data through a layer whose conditioner computes in single precision (and handles the
    # casts itself): the identity features still come back bit for bit, in the data's dtype
    if not libnet and not uncond and not bounded and cls != "UMNN":
        xd = x.double() * (1.0 + 2.0 ** -30)       # bits that single precision cannot hold; -0.0 stays -0.0
        try:
            with torch.no_grad():
                yd = f(xd.clone(), c)[0]
        except Exception:  # noqa  (mixed precision is not promised to work for every elementwise transform)
            yd = None
        if yd is not None:
            n += 1
            for i in ident:
                if yd.dtype != xd.dtype or not torch.equal(bits(yd[:, i]), bits(xd[:, i])):
                    fails.append(dict(case, clause="identity_not_bitwise", detail="float64 data, float32 conditioner: identity feature %d (mask %d) is not returned bit-for-bit: %s -> %s (%s)" % (i, mask[i], xd[:, i].flatten()[:3].tolist(), yd[:, i].flatten()[:3].tolist(), yd.dtype)))
                    break
    # (1b) the two directions use the same split / write-back: round trip on generic interior rows
    xr = torch.rand(shape, generator=g) * 0.8 + 0.1 if bounded else torch.rand(shape, generator=g) * 1.2 - 0.6
    with torch.no_grad():
        a, lad1 = m.forward(xr.clone(), c)
        b, lad2 = m.inverse(a, c)
    n += 1
    # loose on purpose: numerical accuracy of the inverses is C02's business, here only gross
    # book-keeping errors between the two directions (wrong split, wrong write-back) count
    tol = 2e-2
    if not torch.allclose(b, xr, atol=tol, rtol=tol) or not torch.allclose(lad1 + lad2, torch.zeros_like(lad1), atol=5 * tol):
        fails.append(dict(case, clause="roundtrip", detail="inverse(forward(x)) differs from x by %.3g, logabsdet sum %.3g" % (float((b - xr).abs().max()), float((lad1 + lad2).abs().max()))))
    # (1c) every row is transformed under its OWN context and identity features: rows that share the
    # identity block but not the context, and rows that share the context but not the identity block
    if c is not None and cls != "UMNN":
        for share in ("identity", "context"):
            xs = xr.clone()
            cs = c.clone()
            if share == "identity":
                xs[:, ident] = xs[0:1, ident]
            else:
                cs[:] = cs[0:1]
            with torch.no_grad():
                yb, lb = f(xs.clone(), cs)
                rows = [f(xs[r : r + 1].clone(), cs[r : r + 1]) for r in range(xs.shape[0])]
            n += 1
            yr = torch.cat([r_[0] for r_ in rows], 0)
            lr = torch.cat([r_[1] for r_ in rows], 0)
            if not torch.allclose(yb, yr, atol=1e-5, rtol=1e-5) or not torch.allclose(lb, lr, atol=1e-4, rtol=1e-5):
                fails.append(dict(case, clause="row_context", detail="rows sharing their %s: the batched call differs from the rows evaluated one by one by %.3g (a transformed feature must depend on its own row's identity features and context only)" % (share, float((yb - yr).abs().max()))))
                break
    # (1d) a conditioner that emits very negative parameters: the transformed feature still is a function of
    # its own input that moves when the input moves (the documented floor of the affine scale is 1e-3), with
    # a finite log-det
    if cls == "Affine" and not libnet and not reloaded and hasattr(m.transform_net, "offset"):
        m.transform_net.offset = -28.0
        try:
            with torch.no_grad():
                xa = xr.clone()
                xb = xr.clone()
                xb[:, trans[0]] += 1.0
                (ya, la), (yb, lb) = f(xa, c), f(xb, c)
            n += 1
            if not bool(torch.isfinite(la).all() and torch.isfinite(ya).all()):
                fails.append(dict(case, clause="own_input", detail="with a conditioner output of -28 the layer returns non-finite values / log-dets"))
            elif not inv and bool((ya[:, trans[0]] == yb[:, trans[0]]).all()):
                fails.append(dict(case, clause="own_input", detail="with a conditioner output of -28 transformed feature %d does not move when its own input moves by 1 (scale below the documented floor)" % trans[0]))
        finally:
            m.transform_net.offset = 0.0
    # (2) dependency pattern on one generic interior row
    x1 = torch.rand((1,) + shape[1:], generator=g) * 0.8 + 0.1 if bounded else (torch.rand((1,) + shape[1:], generator=g) * 1.2 - 0.6)
    c1 = c[:1] if c is not None else None
    P = H * W if img else 1
    if cls == "UMNN":
        # the UMNN inverse is a bisection (autograd sees nothing): measure dependency by perturbation
        with torch.no_grad():
            y0 = f(x1.clone(), c1)[0]
            J = torch.zeros(D, P, D, P)
            for fi in range(D):
                for pi in range(P):
                    xp = x1.clone()
                    if img:
                        xp[0, fi, pi // W, pi % W] += 0.25
                    else:
                        xp[0, fi] += 0.25
                    J[:, :, fi, pi] = (f(xp, c1)[0] != y0).float().reshape(D, P)
    else:
        J = torch.autograd.functional.jacobian(lambda z: f(z, c1)[0], x1)
        J = J.reshape(D, P, D, P)
    n += 1
    for fo in range(D):
        for po in range(P):
            allowed = {(int(e[0]) - 1, int(e[1]) - 1) for e in st["dep"][fo][po]}
            got = {(fi, pi) for fi in range(D) for pi in range(P) if float(J[fo, po, fi, pi]) != 0.0}
            extra = got - allowed
            if extra:
                kind = "identity output depends on other inputs" if fo in ident else "transformed output depends on inputs that are not its own element or identity features"
                fails.append(dict(case, clause="dependency", detail="%s: output (feature %d, pixel %d) depends on %s" % (kind, fo, po, sorted(extra))))
                return n, fails, drifts
            if not libnet and got != allowed and (fo, po) not in [(a, b) for a, b in []]:
                drifts.append("%s mask %s %s %s: output (%d,%d) depends on %s, specification says %s" % (cls, mask, st["layout"], st["dir"], fo, po, sorted(got), sorted(allowed)))
    return n, fails, drifts


def task(t):
    warnings.filterwarnings("ignore")
    import torch

    torch.set_num_threads(1)
    states, classes, seed, libnet = t
    out = {"n": 0, "fails": [], "drift": []}
    for st in states:
        for cls in classes:
            for ctx in (None, 2):
                if libnet and st["layout"] == "img" and ctx:
                    continue
                n, f, d = check_state(st, cls, ctx, seed, libnet)
                out["n"] += n
                out["fails"] += f
                out["drift"] += d[:2]
    return out


def main(run, replay=None):
    run.rule = (
        "cases = (mask, layout, unconditional transform, box-bounded, features outside the box, direction) states of Coupling.tla x coupling class x context, each "
        "checked for bit-identical identity features and for its Jacobian pattern; non-trivial = distinct such tuples"
    )
    if replay and replay["case"].get("kind") == "nets":
        from vcore import nets

        return nets.replay(run, replay["case"], "C07", clauses={"rows_coupled_in_eval"})
    if replay and replay["case"].get("kind") == "assembly":
        from vcore import assembly

        for f in assembly.replay(run, replay["case"]):
            run.violation({"kind": "assembly", "clause": f["clause"]}, "replayed: " + f["detail"], replay["case"])
        return
    if replay:
        c = replay["case"]
        warnings.filterwarnings("ignore")
        res = T.run_tlc("Coupling", T.cfg(constants={"MaxD": max(2, len(c["mask"])), **MASKCONST}), dump=True, coverage=False, workers=4)
        for blk in re.split(r"^State \d+:\s*$", open(res.dump).read(), flags=re.M):
            if '"applied"' not in blk:
                continue
            st = parse_state(blk)
            if [int(v) for v in st["mask"]] == c["mask"] and st["layout"] == c["layout"] and bool(st["uncond"]) == c["uncond"] and st["dir"] == c["dir"] and bool(st["bounded"]) == c.get("bounded", False) and sorted(int(i) - 1 for i in st["outside"]) == c.get("outside", []):
                n, f, d = check_state(st, c["cls"], c["ctx"], c["seed"], c.get("libnet", False))
                for x in f:
                    run.violation({"cls": x["cls"], "clause": x["clause"]}, "replayed: " + x["detail"], c)
        return
    thorough = run.tier == "thorough"
    res = T.run_tlc("Coupling", T.cfg(constants={"MaxD": 5 if thorough else 4, **MASKCONST}, invariants=INVS), dump=True, name="coupling", workers=8)
    run.model_must_hold(res, "Coupling")
    run.add_tlc(res, "Coupling exhaustive", require_actions=["DoConstruct", "DoApply"])
    blocks = [b for b in re.split(r"^State \d+:\s*$", open(res.dump).read(), flags=re.M) if '/\\ phase = "applied"' in b]
    rnd = random.Random(run.seed)
    states = [parse_state(b) for b in blocks]
    small = [s for s in states if len(s["mask"]) <= 2]
    mid = [s for s in states if len(s["mask"]) == 3]
    big = [s for s in states if len(s["mask"]) > 3]
    rnd.shuffle(mid)
    rnd.shuffle(big)
    if not thorough:
        mid = mid[:500]
    small = small + mid
    chosen = small + (big[:3000] if thorough else big[:240])
    run.extra["spec_states_total"] = len(states)
    run.extra["spec_states_replayed"] = len(chosen)
    nproc = min(16, os.cpu_count() or 4)
    tasks = []
    fast = [c for c in CLASSES if c != "UMNN"]

    def split(lst, size):
        return [lst[i : i + size] for i in range(0, len(lst), size)]

    if thorough:
        for ch in split(chosen, 12):
            tasks.append((ch, fast, run.seed, False))
    else:
        # quick: every state on the affine and the rational-quadratic layer, every third on the others
        for ch in split(chosen, 24):
            tasks.append((ch, ["Affine", "PRQ"], run.seed, False))
        for ch in split(chosen[run.seed % 3 :: 3], 12):
            tasks.append((ch, ["Additive", "PLinear", "PQuadratic", "PCubic"], run.seed, False))
    # UMNN is slow (numerical integration): a sample in the quick tier
    um = chosen if thorough else small[:: max(1, len(small) // 40)]
    if not thorough:
        # the image branch with several transformed channels (the integrator works channels-last)
        multi = [s for s in chosen if str(s["layout"]) == "img" and len(s["trans"]) >= 2 and not bool(s["uncond"]) and not bool(s["bounded"])]
        um = um + multi[:: max(1, len(multi) // 14)]
    for ch in split(um, 3):
        tasks.append((ch, ["UMNN"], run.seed, False))
    # library conditioners (ResidualNet / ConvResidualNet): subset relation
    lib = (small + big[:200]) if thorough else small[:: max(1, len(small) // 64)]
    for ch in split(lib, 6):
        tasks.append((ch, fast, run.seed + 1, True))
    tasks.sort(key=lambda t: -(len(t[0]) * (8 if t[1] == ["UMNN"] else 1)))
    fails = []
    import time as _t
    _t0 = _t.time()
    outs = pmap(task, tasks, nproc)
    run.extra["replay_wall_s"] = round(_t.time() - _t0, 1)
    run.extra["replay_tasks"] = len(tasks)
    for out in outs:
        run.evaluations += out["n"]
        fails += out["fails"]
        for d in out["drift"][:3]:
            run.note_drift(d)
    for s in chosen:
        run.nontrivial.add((tuple(int(v) for v in s["mask"]), str(s["layout"]), bool(s["uncond"]), str(s["dir"]), bool(s["bounded"]), tuple(sorted(int(i) for i in s["outside"]))))
    s0 = chosen[len(chosen) // 2]
    run.sample({"mask": [int(v) for v in s0["mask"]], "layout": str(s0["layout"]), "uncond": bool(s0["uncond"]), "dir": str(s0["dir"]), "mask_unit": "1/%d" % DEN, "bounded": bool(s0["bounded"]), "outside": sorted(int(i) for i in s0["outside"]), "outcome": str(s0["outcome"]), "ident": [int(i) for i in s0["ident"]], "trans": [int(i) for i in s0["trans"]]})
    seen = set()
    for f in fails:
        key = (f["cls"], f["clause"], tuple(f["mask"]), f["layout"], f["dir"])
        if key in seen:
            continue
        seen.add(key)
        run.violation({"cls": f["cls"], "clause": f["clause"], "layout": f["layout"], "dir": f["dir"], "uncond": f["uncond"]}, "%s mask=%s %s %s uncond=%s ctx=%s: %s" % (f["cls"], f["mask"], f["layout"], f["dir"], f["uncond"], f["ctx"], f["detail"]), {k: v for k, v in f.items() if k not in ("detail",)})
    # system level: SimpleRealNVP as assembled by its constructor (spec/Assembly.tla)
    from vcore import assembly

    for f in assembly.run_assembly(run, "realnvp"):
        run.violation({"kind": "assembly", "clause": f["clause"], "flow": "realnvp"}, "SimpleRealNVP %s: %s" % (f["cfg"], f["detail"]), dict({k: v for k, v in f.items() if k != "detail"}, kind="assembly"))
    # the conditioners themselves (spec/Nets.tla): in evaluation mode a conditioner's output for row i depends on row i
    # only - otherwise the layer built on it conditions on other rows' features, not "only on the identity features"
    from vcore import nets

    nets.run_leg(run, "C07", clauses={"rows_coupled_in_eval"})
    run.exhaustive = thorough
    run.assumptions = [
        "assembled flows (Assembly.tla): 2..4 features, 1..3 layers, with / without batch norm between layers; a Jacobian entry that is exactly zero at three generic points counts as 'does not depend'",
        "mask values from {-1, 0, 1/2, 1, 2} passed as list / tuple / numpy array / float, bool, long or byte tensor; piecewise layers with linear tails and on the unit box (tails=None); feature counts 2..MaxD, images of 1x2 pixels; constructor-rejected configurations are outside the quantifier",
        "dependency is measured by autograd Jacobians at one generic interior point per case; exact zero is taken as 'does not depend'",
    ]
