"""C20 - tensor and mask utilities obey their algebraic specifications.

(S) TLC enumerates every call of spec/Utils.tla (small shapes, repetition counts, bin locations, cubes,
    integer matrices, mask sizes, type-check tokens) and checks the algebraic laws.
(R) every enumerated call is executed on the real helper with index-tagged tensors (arange), so that
    element placement is compared exactly with the specification's provenance map; arguments are
    snapshotted before and after (no helper may modify them).
"""
from __future__ import annotations

import math
import warnings

from vcore import tlc as T
from vcore.pool import pmap
from vcore.tlaval import parse_dump

INVS = ["CopiesConsecutive", "MergeSplitInverse", "SumPreservesBatch", "HalfOpenBin", "MaskCounts", "TypeChecks"]


def fl(v):
    """TLA function with domain 0..n-1 or 1..n (dict / tuple) -> list."""
    if isinstance(v, dict):
        return [v[k] for k in sorted(v)]
    return list(v)


def tokval(t):
    kind, v = str(t[0]), int(t[1])
    if kind == "big":
        return 2 ** v + int(t[2])

    return {"int": v, "bool": bool(v), "float": float(v), "str": str(v), "none": None}[kind]


def task(states):
    warnings.filterwarnings("ignore")
    import torch

    torch.set_num_threads(1)
    from nflows import utils as U

    out = {"n": 0, "fails": []}
    for st in states:
        c, spec = st["call"], st["out"]
        f = str(c["f"])
        case = {"call": {k: (list(v) if isinstance(v, tuple) else v) for k, v in c.items()}}
        out["n"] += 1

        def fail(clause, detail):
            out["fails"].append(dict(case, f=f, clause=clause, detail=detail))

        def unchanged(args, snaps, what):
            for a, s in zip(args, snaps):
                if a._version != s[1] or not torch.equal(a, s[0]):
                    fail("argument_modified", "%s modified its argument" % what)

        try:
            if f == "tile":
                L, n = int(c["L"]), int(c["n"])
                x = torch.arange(L, dtype=torch.float32)
                snap = [(x.clone(), x._version)]
                r = U.tile(x, n)
                unchanged([x], snap, "tile")
                exp = [int(v) for v in fl(spec["t"]["src"])]
                if r.tolist() != [float(v) for v in exp]:
                    fail("placement", "tile(arange(%d), %d) = %s, documented %s" % (L, n, r.tolist(), exp))
                # also for a 2-D argument (flattened)
                x2 = torch.arange(L * 2, dtype=torch.float32).reshape(2, L)
                r2 = U.tile(x2, n)
                if r2.tolist() != [float(k // n) for k in range(2 * L * n)]:
                    fail("placement", "tile of a 2-D tensor does not place copies consecutively")
            elif f == "repeat_rows":
                s, n = [int(v) for v in c["s"]], int(c["n"])
                x = torch.arange(math.prod(s), dtype=torch.float32).reshape(*s)
                snap = [(x.clone(), x._version)]
                r = U.repeat_rows(x, n)
                unchanged([x], snap, "repeat_rows")
                exp = [float(v) for v in fl(spec["t"]["src"])]
                if list(r.shape) != [int(v) for v in spec["t"]["shape"]] or r.reshape(-1).tolist() != exp:
                    fail("placement", "repeat_rows(shape %s, %d): shape %s / content differ from consecutive row copies" % (s, n, list(r.shape)))
            elif f == "merge_split":
                s, k = [int(v) for v in c["s"]], int(c["k"])
                x = torch.arange(math.prod(s), dtype=torch.float32).reshape(*s)
                snap = [(x.clone(), x._version)]
                m = U.merge_leading_dims(x, k)
                b = U.split_leading_dim(m, s[:k])
                unchanged([x], snap, "merge_leading_dims / split_leading_dim")
                if list(m.shape) != [int(v) for v in spec["merged"]["shape"]] or m.reshape(-1).tolist() != [float(v) for v in fl(spec["merged"]["src"])]:
                    fail("placement", "merge_leading_dims(shape %s, %d) -> %s" % (s, k, list(m.shape)))
                if list(b.shape) != s or not torch.equal(b, x):
                    fail("inverse", "split_leading_dim does not undo merge_leading_dims for shape %s, k=%d" % (s, k))
                # a reusable shape list with -1 must not be changed by the call
                shp = [-1] + s[1:k]
                before = list(shp)
                b2 = U.split_leading_dim(m, shp)
                if shp != before:
                    fail("argument_modified", "split_leading_dim modified its shape argument %s -> %s" % (before, shp))
                if list(b2.shape) != s:
                    fail("inverse", "split_leading_dim with -1 gives shape %s, expected %s" % (list(b2.shape), s))
            elif f == "sum_except_batch":
                if str(spec["o"]) != "sum":
                    continue
                s, nb = [int(v) for v in c["s"]], int(c["nb"])
                if s == [1] and nb in (0, 1):
                    # integer / boolean tensors (the mask constructors return bytes): every element is counted
                    # once, also when there are more of them than the element type can hold
                    for dt_, val in ((torch.uint8, 1), (torch.bool, True), (torch.int8, 100), (torch.int16, 30000)):
                        xi = torch.full((2, 600), val, dtype=dt_)
                        ri = U.sum_except_batch(xi, 1)
                        want_i = 600 * int(val)
                        if list(ri.shape) != [2] or [int(v) for v in ri.tolist()] != [want_i, want_i]:
                            fail("sum", "sum_except_batch of a [2, 600] %s tensor filled with %s returns %s (dtype %s), each row sums to %d" % (str(dt_).split(".")[-1], val, ri.tolist(), ri.dtype, want_i))
                            break
                # powers of two: the sum identifies exactly which elements were added
                N = math.prod(s)
                if N == 0:
                    x = torch.zeros(*s, dtype=torch.float64)
                    r = U.sum_except_batch(x, nb)
                    eshape = s[:nb]
                    if list(r.shape) != eshape or bool((r != 0).any()):
                        fail("sum", "sum_except_batch(shape %s, num_batch_dims=%d) returned shape %s; documented shape %s (sums over nothing are 0)" % (s, nb, list(r.shape), eshape))
                    continue
                x = (2.0 ** torch.arange(N, dtype=torch.float64)).reshape(*s)
                snap = [(x.clone(), x._version)]
                r = U.sum_except_batch(x, nb)
                unchanged([x], snap, "sum_except_batch")
                terms = fl(spec["r"]["terms"]) if N and nb > 0 else [spec["r"]["terms"][0]] if isinstance(spec["r"]["terms"], dict) else fl(spec["r"]["terms"])
                exp = [float(sum(2.0 ** int(i) for i in t)) for t in terms]
                eshape = [int(v) for v in spec["r"]["shape"]]
                if list(r.shape) != eshape or r.reshape(-1).tolist() != exp:
                    fail("sum", "sum_except_batch(shape %s, num_batch_dims=%d) returned shape %s values %s; documented shape %s values %s" % (s, nb, list(r.shape), r.reshape(-1).tolist()[:4], eshape, exp[:4]))
            elif f == "searchsorted":
                locs, xv = [float(v) for v in c["locs"]], float(c["x"])
                if str(spec["o"]) != "bin":
                    continue
                for dtype in (torch.float32, torch.float64):
                    bl = torch.tensor(locs, dtype=dtype)
                    x = torch.tensor([xv], dtype=dtype)
                    snap = [(bl.clone(), bl._version), (x.clone(), x._version)]
                    r = U.searchsorted(bl[None, :], x)
                    unchanged([bl, x], snap, "searchsorted")
                    if int(r) != int(spec["idx"]):
                        fail("bin", "searchsorted(%s, %s) = %d, half-open bin index is %d" % (locs, xv, int(r), int(spec["idx"])))
                    r2 = U.searchsorted(bl[None, :], x)
                    if int(r2) != int(r):
                        fail("bin", "second searchsorted call on the same locations gives %d, first gave %d" % (int(r2), int(r)))
                # locations and inputs of different precision (the same lattice in tenths: not representable):
                # the bin is the half-open bin of the input's actual value among the locations' actual values
                for ldt, xdt in ((torch.float64, torch.float32), (torch.float32, torch.float64)):
                    bl = torch.tensor([v / 10.0 for v in locs], dtype=torch.float64).to(ldt)
                    x = torch.tensor([xv / 10.0], dtype=torch.float64).to(xdt)
                    lv, xval = [float(v) for v in bl], float(x)
                    if not (lv[0] <= xval <= lv[-1]):
                        continue
                    want = max(k for k in range(len(lv) - 1) if lv[k] <= xval)
                    try:
                        got = int(U.searchsorted(bl[None, :], x))
                    except Exception as e:  # noqa
                        fail("bin", "searchsorted(%s locations, %s input) raised %r" % (str(ldt).split(".")[-1], str(xdt).split(".")[-1], e))
                        continue
                    if got != want and not (xval == lv[got] if 0 <= got < len(lv) else False):
                        fail("bin", "searchsorted(%s locations %s, %s input %.10g) = %d, the half-open bin of that value is %d" % (str(ldt).split(".")[-1], lv, str(xdt).split(".")[-1], xval, got, want))
            elif f == "cbrt":
                cv = float(c["c"])
                for dtype in (torch.float32, torch.float64):
                    x = torch.tensor([cv, -cv], dtype=dtype)
                    snap = [(x.clone(), x._version)]
                    r = U.cbrt(x)
                    unchanged([x], snap, "cbrt")
                    exp = torch.tensor([float(spec["r"]), -float(spec["r"])], dtype=dtype)
                    if not torch.allclose(r, exp, rtol=1e-5, atol=1e-6) or not bool(torch.isfinite(r).all()):
                        fail("value", "cbrt(%s) = %s, cube root is %s" % (x.tolist(), r.tolist(), exp.tolist()))
                    # the same cube scaled by 1000^k (cube root scales by 10^k): magnitudes near the ends of
                    # the precision's range, whose squares are not representable
                    if cv != 0:
                        for k in ((6, -8) if dtype == torch.float32 else (60, -70)):
                            xs_ = torch.tensor([cv, -cv], dtype=torch.float64) * (1000.0 ** k)
                            rs_ = U.cbrt(xs_.to(dtype)).double()
                            es_ = torch.tensor([float(spec["r"]), -float(spec["r"])], dtype=torch.float64) * (10.0 ** k)
                            if not bool(torch.isfinite(rs_).all()) or not torch.allclose(rs_, es_, rtol=1e-4 if dtype == torch.float32 else 1e-10, atol=0):
                                fail("value", "cbrt(%s) in %s = %s, cube root is %s" % (xs_.tolist(), str(dtype).split(".")[-1], rs_.tolist(), es_.tolist()))
                                break
            elif f == "logabsdet":
                m = torch.tensor([[float(v) for v in row] for row in c["m"]], dtype=torch.float64)
                snap = [(m.clone(), m._version)]
                r = U.logabsdet(m)
                unchanged([m], snap, "logabsdet")
                det = int(spec["det"])
                exp = math.log(abs(det)) if det != 0 else -math.inf
                if (det == 0 and float(r) != -math.inf) or (det != 0 and abs(float(r) - exp) > 1e-10):
                    fail("value", "logabsdet(%s) = %s, log|det| = %s" % (m.tolist(), float(r), exp))
            elif f == "logabsdet_scaled":
                n, cnum, cden = int(c["m"]["n"]), int(c["m"]["num"]), int(c["m"]["den"])
                g = torch.Generator().manual_seed(n + cnum)
                perm = torch.randperm(n, generator=g)
                for dtype in (torch.float32, torch.float64):
                    sign = torch.where(torch.arange(n) % 3 == 0, -1.0, 1.0).to(dtype)
                    m = (torch.eye(n, dtype=dtype)[perm] * sign[None, :]) * (cnum / cden)
                    snap = [(m.clone(), m._version)]
                    r = U.logabsdet(m)
                    unchanged([m], snap, "logabsdet")
                    exp = int(spec["pow"]) * math.log(cnum / cden)
                    if not math.isfinite(float(r)) or abs(float(r) - exp) > 1e-4 * max(1.0, abs(exp)):
                        fail("value", "logabsdet(%g * signed permutation of size %d, %s) = %s, log|det| = %d log(%g) = %.6f" % (cnum / cden, n, str(dtype).split(".")[-1], float(r), n, cnum / cden, exp))
            elif f == "mask":
                kind, feat = str(c["kind"]), int(c["feat"])
                # Utils.tla gives the result as a function of the call alone: it does not depend on what
                # a caller did to an earlier result (masks are routinely edited in place: mask[i] = 0,
                # 1 - mask via mask.mul_(-1).add_(1))
                if kind in ("alt_even", "alt_odd", "mid"):
                    first = U.create_alternating_binary_mask(feat, even=(kind == "alt_even")) if kind != "mid" else U.create_mid_split_binary_mask(feat)
                    first.mul_(0).add_(1)
                    first[0] = 0
                if kind in ("alt_even", "alt_odd"):
                    r = U.create_alternating_binary_mask(feat, even=(kind == "alt_even"))
                    if [int(v) for v in r.tolist()] != [int(v) for v in spec["m"]]:
                        fail("mask", "create_alternating_binary_mask(%d, even=%s) = %s" % (feat, kind == "alt_even", r.tolist()))
                elif kind == "mid":
                    r = U.create_mid_split_binary_mask(feat)
                    if [int(v) for v in r.tolist()] != [int(v) for v in spec["m"]]:
                        fail("mask", "create_mid_split_binary_mask(%d) = %s, documented %s" % (feat, r.tolist(), [int(v) for v in spec["m"]]))
                else:
                    for seed in range(4):
                        torch.manual_seed(seed)
                        r = U.create_random_binary_mask(feat)
                        if int(r.sum()) != int(spec["count"]) or r.numel() != feat or not set(r.tolist()) <= {0, 1}:
                            fail("mask", "create_random_binary_mask(%d) = %s, documented count %d" % (feat, r.tolist(), int(spec["count"])))
                            break
            elif f == "typecheck":
                v = tokval(c["t"])
                got = {"bool": U.is_bool(v), "int": U.is_int(v), "pos": U.is_positive_int(v), "nonneg": U.is_nonnegative_int(v), "pow2": bool(U.is_power_of_two(v))}
                exp = {k: bool(spec[k]) for k in got}
                if {k: bool(x) for k, x in got.items()} != exp:
                    fail("typecheck", "predicates on %r: %s, documented %s" % (v, got, exp))
        except Exception as e:  # noqa
            fail("raises", "%s raised %r" % (f, e))
    # helpers without a discrete model: get_temperature (relation), numpy ints
    return out


def extras():
    """Relations for helpers whose values are not discrete."""
    import numpy as np
    import torch
    from nflows import utils as U

    fails = []
    for mx in (0.5, 3.0, 10.0, 250.0):
        for bound in (0.9, 1 - 1e-3):
            t = U.get_temperature(mx, bound)
            tv = float(t)
            ok = abs(tv - 1.0) < 1e-6 and float(torch.sigmoid(torch.tensor(mx))) <= bound + 1e-6 or abs(float(torch.sigmoid(torch.tensor(tv * mx))) - bound) < 1e-4
            if not ok or tv > 1.0 + 1e-6 or tv <= 0:
                fails.append({"call": {"f": "get_temperature", "max_value": mx, "bound": bound}, "f": "get_temperature", "clause": "relation", "detail": "get_temperature(%s, %s) = %s: sigmoid(T*max) = %s" % (mx, bound, tv, float(torch.sigmoid(torch.tensor(tv * mx))))})
    if U.is_int(np.int64(3)) or U.is_positive_int(3.0):
        fails.append({"call": {"f": "typecheck", "t": "numpy/float"}, "f": "typecheck", "clause": "typecheck", "detail": "numpy integers / floats must not pass is_int (documented: isinstance(x, int))"})
    return fails


def main(run, replay=None):
    run.rule = (
        "cases = every helper call enumerated by TLC (shapes with <= 3 dims of size <= 3, repetition counts <= 3, all "
        "num_batch_dims, four location vectors x 21 inputs, cubes, 256 integer matrices, mask sizes 1..7, type tokens), executed on "
        "the real helpers; non-trivial = all of them except calls on single-element tensors"
    )
    thorough = run.tier == "thorough"
    consts = {"MaxDims": 3, "MaxSize": 4 if thorough else 3, "MaxReps": 4 if thorough else 3}
    res = T.run_tlc("Utils", T.cfg(constants=consts, invariants=INVS), dump=True, name="utils", workers=4)
    run.model_must_hold(res, "Utils")
    run.add_tlc(res, "Utils %s" % consts)
    states = parse_dump(res.dump)
    if replay:
        c = replay["case"]["call"]
        sts = [s for s in states if {k: (list(v) if isinstance(v, tuple) else v) for k, v in s["call"].items()} == c]
        out = task(sts)
        fails = out["fails"] + [f for f in extras() if f["call"] == c]
        for f in fails:
            run.violation({"f": f["f"], "clause": f["clause"]}, "replayed: " + f["detail"], replay["case"])
        return
    fails = []
    for out in pmap(task, [states[i::8] for i in range(8)], 8):
        run.evaluations += out["n"]
        fails += out["fails"]
    fails += extras()
    for s in states:
        c = s["call"]
        if "s" in c and all(int(v) == 1 for v in c["s"]):
            continue
        run.nontrivial.add(repr(sorted((k, repr(v)) for k, v in c.items())))
    ex = next(s for s in states if str(s["call"]["f"]) == "repeat_rows" and [int(v) for v in s["call"]["s"]] == [2, 3] and int(s["call"]["n"]) == 2)
    run.sample({"call": "repeat_rows(arange(6).reshape(2,3), 2)", "documented_source_index_of_each_output_element": [int(v) for v in fl(ex["out"]["t"]["src"])]})
    ex2 = next(s for s in states if str(s["call"]["f"]) == "searchsorted" and int(s["call"]["x"]) == 10 and len(s["call"]["locs"]) == 4)
    run.sample({"call": "searchsorted([0,2,5,10], 10)", "documented_bin": int(ex2["out"]["idx"])})
    seen = set()
    for f in fails:
        key = (f["f"], f["clause"], repr(f["call"]))
        if key in seen:
            continue
        seen.add(key)
        run.violation({"f": f["f"], "clause": f["clause"]}, "%s: %s" % (f["f"], f["detail"]), {"call": f["call"]})
    run.exhaustive = True
    run.assumptions = ["gaussian_kde_log_eval is covered by C05; tensor2numpy / get_num_parameters are trivial wrappers and not modelled"]
