"""C14 - normalisation layers follow their documented life-cycle over every history.

(S) TLC checks spec/ActNormLife.tla and spec/BatchNormLife.tla (exact rational running statistics).
(R) Lock-step: every edge of both state graphs is walked on the real ActNorm / BatchNorm; after
    every step the real state dict, outputs, log-dets and exceptions are compared with the spec state
    (the property's quantifier asks for exactly this reference-model comparison).
"""
from __future__ import annotations

import contextlib

import math
import os
from vcore.pool import pmap
from fractions import Fraction

from vcore import tlc as T
from vcore.tlaval import parse_dot, rat
from vcore.walk import covering_walks

AN_PROPS = ["InitExactlyOnce", "InitOnlyByTrainingForward", "FirstBatchNormalised", "EvalAndInverseNeverInit", "ReloadKeepsState", "LoadRestoresCheckpoint"]
BN_PROPS = ["MomentumRule", "EvalUsesRunning", "TrainUsesBatch", "InverseOnlyInEval"]

BN_BATCHES = [
    [[0, 1], [2, 1], [4, 4]],
    [[1, 0], [3, 2], [-1, 5], [1, 1]],
    [[2, 2], [0, -2]],
    # far from the origin (integers: exact in float32): a variance computed as E[x^2] - E[x]^2 cancels here
    [[1000, -2001], [1002, -2000], [1001, -2002]],
]


def tla_seq(v):
    if isinstance(v, (list, tuple)):
        return "<<" + ", ".join(tla_seq(x) for x in v) + ">>"
    return str(v)


def bn_wrapper(name, mom):
    return (
        "---- MODULE %s ----\nEXTENDS BatchNormLife\nMCBatches == %s\nMCMomentum == <<%d, %d>>\n====\n"
        % (name, tla_seq(BN_BATCHES), mom.numerator, mom.denominator)
    )


def bn_cfg(maxu, unbiased=True, props=True, with_load=False):
    s = "SPECIFICATION Spec\nCONSTANTS\n Batches <- MCBatches\n Momentum <- MCMomentum\n MaxUpdates = %d\n Unbiased = %s\n WithLoad = %s\n" % (maxu, "TRUE" if unbiased else "FALSE", "TRUE" if with_load else "FALSE")
    if props:
        s += "INVARIANT TypeOK\nINVARIANT RunningBounded\n" + "".join("PROPERTY %s\n" % p for p in BN_PROPS)
    return s


# ----------------------------------------------------------------------------- ActNorm lock-step
def an_batches(torch, seed):
    g = torch.Generator().manual_seed(1000 + seed)
    return {
        1: torch.randn(6, 3, generator=g) * torch.tensor([0.5, 2.0, 3.0]) + torch.tensor([1.0, -2.0, 0.3]),
        2: torch.randn(4, 3, generator=g) * 1.7 - 0.4,
        3: torch.randn(3, 3, 2, 3, generator=g) * torch.tensor([2.0, 0.3, 1.0]).view(1, 3, 1, 1) + 0.8,
        # one image: a batch of a single item still has per-channel statistics (2 x 3 pixels)
        4: torch.randn(1, 3, 2, 3, generator=g) * torch.tensor([0.7, 1.5, 2.5]).view(1, 3, 1, 1) - 1.1,
        # features of very different (tiny but legal) scales: the statistics are the batch's, nothing added
        5: torch.randn(8, 3, generator=g) * torch.tensor([1e-5, 1.0, 3e-4]) + torch.tensor([0.0, 0.5, 0.0]),
    }


def an_stats(torch, x):
    """Per-feature statistics the documented initialisation is based on (both variance kinds)."""
    if x.dim() == 4:
        x = x.permute(0, 2, 3, 1).reshape(-1, x.shape[1])
    x = x.double()
    out = {}
    for kind, unb in (("unbiased", True), ("biased", False)):
        std = x.std(dim=0, unbiased=unb)
        mu = (x / std).mean(dim=0)
        out[kind] = (-torch.log(std), -mu)
    return out


class Host:
    """Three ways a user switches modes and saves / loads: on the layer itself, through train(bool),
    and through an enclosing container (nn.Module.eval() reaches children via child.train(False);
    a parent's load_state_dict never calls a child's load_state_dict)."""

    def __init__(self, make, variant):
        from nflows.transforms.base import CompositeTransform

        self.make, self.variant = make, variant
        self.m = make()
        self.box = self._wrap(self.m)

    def _wrap(self, m):
        """parent: an enclosing CompositeTransform; flow: the layer is the transform of a Flow, whose
        transform_to_noise is the data -> noise pass."""
        from nflows.distributions.normal import StandardNormal
        from nflows.flows.base import Flow
        from nflows.transforms.base import CompositeTransform

        if self.variant == "parent":
            return CompositeTransform([m])
        if self.variant == "flow":
            return Flow(m, StandardNormal([1]))
        return None

    def forward(self, x):
        """(outputs, logabsdet or None)"""
        if self.variant == "flow":
            return self.box.transform_to_noise(x), None
        return self.m.forward(x)

    def train(self):
        if self.variant == "direct":
            self.m.train()
        elif self.variant == "train_arg":
            self.m.train(True)
        else:
            self.box.train()

    def eval(self):
        if self.variant == "direct":
            self.m.eval()
        elif self.variant == "train_arg":
            self.m.train(False)
        else:
            self.box.eval()

    def save_load_fresh(self, scramble=None):
        from nflows.transforms.base import CompositeTransform

        src = self.box if self.box is not None else self.m
        sd = {k: v.clone() for k, v in src.state_dict().items()}
        self.m = self.make()
        if scramble:
            scramble(self.m)
        self.box = self._wrap(self.m)
        (self.box if self.box is not None else self.m).load_state_dict(sd)


    def save(self):
        src = self.box if self.box is not None else self.m
        self.ckpt = {k: v.clone() for k, v in src.state_dict().items()}

    def load_saved(self):
        """the checkpoint goes back into the SAME object (through the container in the parent / flow variants)"""
        (self.box if self.box is not None else self.m).load_state_dict({k: v.clone() for k, v in self.ckpt.items()})

    def load_from(self, donor):
        """load_state_dict into the existing object (through the container in the parent variant)."""
        from nflows.transforms.base import CompositeTransform

        if self.box is not None:
            self.box.load_state_dict({k: v.clone() for k, v in self._wrap(donor).state_dict().items()})
        else:
            self.m.load_state_dict({k: v.clone() for k, v in donor.state_dict().items()})


VARIANTS = ["direct", "train_arg", "parent", "flow"]


def an_walk_task(task):
    import torch

    torch.set_num_threads(1)
    from nflows.transforms.normalization import ActNorm

    walks, seed = task[0], task[1]
    variant = task[2] if len(task) > 2 else "direct"
    B = an_batches(torch, seed)
    fails, steps = [], 0
    kinds_seen = set()

    def expect_params(p):
        if p["kind"] == "default":
            z = torch.zeros(3, dtype=torch.float64)
            return {"unbiased": (z, z), "biased": (z, z)}
        return an_stats(torch, B[int(p["b"])])

    for walk in walks:
        host = Host(lambda: ActNorm(3), variant)
        m = host.m
        hist = []
        for name, args, dst in walk:
            hist.append([name] + [int(a) for a in args])
            steps += 1
            out = lad = exc = None
            x = None
            try:
                if name == "Train":
                    host.train()
                elif name == "Eval":
                    host.eval()
                elif name == "SaveLoadFresh":
                    host.save_load_fresh()
                    m = host.m
                elif name == "Save":
                    host.save()
                elif name == "LoadSaved":
                    host.load_saved()
                elif name == "Forward":
                    x = B[int(args[0])]
                    # every second call is a gradient-free pass (a warm-up / calibration sweep): the life-cycle
                    # does not depend on whether autograd is recording
                    with (torch.no_grad() if steps % 2 == 0 else contextlib.nullcontext()):
                        out, lad = host.forward(x.clone())
                    out, lad = out.detach(), (lad.detach() if lad is not None else None)
                elif name == "Inverse":
                    x = B[int(args[0])]
                    out, lad = m.inverse(x.clone())
            except Exception as e:  # noqa
                exc = e

            def fail(clause, detail):
                fails.append({"layer": "ActNorm", "clause": clause, "detail": detail, "history": list(hist), "seed": seed, "variant": variant})

            if exc is not None:
                fail("call_raises", repr(exc)[:200])
                break
            # ---- lock-step on the abstract state
            if bool(m.training) != bool(dst["training"]):
                fail("mode", "training flag %s, model %s" % (m.training, dst["training"]))
            if bool(m.initialized) != bool(dst["initialized"]):
                clause = "reinit_or_missing_init"
                fail(clause, "initialized=%s but the life-cycle model says %s" % (bool(m.initialized), bool(dst["initialized"])))
            exp = expect_params(dst["params"])
            ls, sh = m.log_scale.detach().double(), m.shift.detach().double()
            okk = [k for k, (els, esh) in exp.items() if torch.allclose(ls, els, atol=2e-5, rtol=1e-5) and torch.allclose(sh, esh, atol=2e-5, rtol=1e-5)]
            if not okk:
                fail("params", "log_scale/shift %s %s differ from the ones documented for %s" % (ls.tolist(), sh.tolist(), dict(dst["params"])))
            elif dst["params"]["kind"] == "batch":
                kinds_seen.update(okk)
            res = dst["res"]
            if name in ("Forward", "Inverse") and not fails:
                used = expect_params(res["used"])
                k = okk[0] if okk else "unbiased"
                uls, ush = used[k]
                shp = (1, -1, 1, 1) if x.dim() == 4 else (1, -1)
                hw = x.shape[2] * x.shape[3] if x.dim() == 4 else 1
                xd = x.double()
                if name == "Forward":
                    eo = torch.exp(uls).view(shp) * xd + ush.view(shp)
                    el = hw * uls.sum() * torch.ones(x.shape[0], dtype=torch.float64)
                else:
                    eo = (xd - ush.view(shp)) / torch.exp(uls).view(shp)
                    el = -hw * uls.sum() * torch.ones(x.shape[0], dtype=torch.float64)
                if out.shape != eo.shape or not torch.allclose(out.double(), eo, atol=1e-4, rtol=1e-4):
                    fail("output", "%s output differs from scale*x+shift of the model parameters" % name)
                if lad is not None and (lad.shape != el.shape or not torch.allclose(lad.double(), el, atol=1e-4, rtol=1e-4)):
                    fail("logabsdet", "%s logabsdet %s vs model %s" % (name, lad.tolist(), el.tolist()))
                if name == "Forward" and res["didInit"]:
                    # self-checking clause of the property: zero mean, unit variance per feature/channel
                    o = out.detach().double()
                    if o.dim() == 4:
                        o = o.permute(0, 2, 3, 1).reshape(-1, o.shape[1])
                    mean = o.mean(0).abs().max().item()
                    vu = (o.var(0, unbiased=True) - 1).abs().max().item()
                    vb = (o.var(0, unbiased=False) - 1).abs().max().item()
                    if mean > 1e-4 or min(vu, vb) > 1e-4:
                        fail("first_batch_not_normalised", "first training batch: |mean|=%.3g |var-1|=%.3g" % (mean, min(vu, vb)))
            if fails and fails[-1]["history"] is hist or (fails and fails[-1]["history"] == hist):
                break
    return {"fails": fails, "steps": steps, "kinds": sorted(kinds_seen)}


# ----------------------------------------------------------------------------- BatchNorm lock-step
def bn_walk_task(task):
    import torch

    torch.set_num_threads(1)
    from nflows.transforms.base import InverseNotAvailable
    from nflows.transforms.normalization import BatchNorm

    walks, mom, seed, dtype_name = task[:4]
    variant = task[4] if len(task) > 4 else "direct"
    eps = task[5] if len(task) > 5 else 1e-5
    dtype = getattr(torch, dtype_name)
    tol = 2e-5 if dtype == torch.float32 else 1e-10
    B = {i + 1: torch.tensor(b, dtype=dtype) for i, b in enumerate(BN_BATCHES)}
    fails, steps = [], 0
    g = torch.Generator().manual_seed(seed)

    def fresh():
        m = BatchNorm(2, eps=eps, momentum=float(mom))
        with torch.no_grad():
            m.unconstrained_weight.copy_(torch.tensor([0.3, 1.2]))
            m.bias.copy_(torch.tensor([-0.7, 0.4]))
        return m.to(dtype)

    def vec(v):
        return torch.tensor([float(rat(q)) for q in v], dtype=torch.float64)

    def scramble(mod):
        with torch.no_grad():
            mod.unconstrained_weight.zero_()
            mod.bias.zero_()

    for walk in walks:
        host = Host(fresh, variant)
        m = host.m
        hist = []
        for name, args, dst in walk:
            hist.append([name] + [int(a) for a in args])
            steps += 1
            out = lad = exc = None
            try:
                if name == "Train":
                    host.train()
                elif name == "Eval":
                    host.eval()
                elif name == "SaveLoadFresh":
                    host.save_load_fresh(scramble)
                    m = host.m
                elif name == "Forward":
                    with (torch.no_grad() if steps % 2 == 0 else contextlib.nullcontext()):
                        out, lad = host.forward(B[int(args[0])].clone())
                    out, lad = out.detach(), (lad.detach() if lad is not None else None)
                elif name == "Inverse":
                    out, lad = m.inverse(B[int(args[0])].clone())
                elif name == "LoadDonor":
                    donor = fresh()
                    donor.train()
                    donor.forward(B[int(args[0])].clone())
                    host.load_from(donor)
            except Exception as e:  # noqa
                exc = e

            def fail(clause, detail):
                fails.append({"layer": "BatchNorm", "clause": clause, "detail": detail, "history": list(hist), "seed": seed, "momentum": [mom.numerator, mom.denominator], "dtype": dtype_name, "variant": variant, "eps": eps})

            res = dst["res"]
            nfail = len(fails)
            if name == "Inverse" and res["o"] == "InverseNotAvailable":
                if not isinstance(exc, InverseNotAvailable):
                    fail("inverse_in_training", "inverse in training mode must raise InverseNotAvailable, got %r" % (exc if exc else "a value"))
            elif exc is not None:
                fail("call_raises", repr(exc)[:200])
            if bool(m.training) != bool(dst["training"]):
                fail("mode", "training flag %s, model %s" % (m.training, dst["training"]))
            erm, erv = vec(dst["rm"]), vec(dst["rv"])
            if not torch.allclose(m.running_mean.double(), erm, atol=tol, rtol=tol):
                fail("running_mean", "running_mean %s, momentum rule gives %s" % (m.running_mean.tolist(), erm.tolist()))
            if not torch.allclose(m.running_var.double(), erv, atol=tol, rtol=tol):
                fail("running_var", "running_var %s, momentum rule gives %s" % (m.running_var.tolist(), erv.tolist()))
            if out is not None and exc is None and len(fails) == nfail:
                x = B[int(args[0])].double()
                w = (torch.nn.functional.softplus(m.unconstrained_weight.detach().double()) + m.eps)
                b = m.bias.detach().double()
                mean, var = vec(res["mean"]), vec(res["var"])
                sd_ = torch.sqrt(var + m.eps)
                if name == "Forward":
                    eo = w * ((x - mean) / sd_) + b
                    el = (torch.log(w) - 0.5 * torch.log(var + m.eps)).sum() * torch.ones(x.shape[0], dtype=torch.float64)
                else:
                    eo = sd_ * ((x - b) / w) + mean
                    el = -(torch.log(w) - 0.5 * torch.log(var + m.eps)).sum() * torch.ones(x.shape[0], dtype=torch.float64)
                otol = 5e-3 if dtype == torch.float32 else 1e-8
                if out.shape != eo.shape or not torch.allclose(out.double(), eo, atol=otol, rtol=otol):
                    fail("output", "%s output uses other statistics than the %s ones of the model (max diff %.3g)" % (name, res.get("stats", "running"), float((out.double() - eo).abs().max())))
                if lad is not None and (lad.shape != el.shape or not torch.allclose(lad.double(), el, atol=otol, rtol=otol)):
                    fail("logabsdet", "%s logabsdet %s vs model %s" % (name, lad.tolist()[:2], el.tolist()[:2]))
            if len(fails) > nfail:
                break
    return {"fails": fails, "steps": steps}


def annotate(g, walks):
    return [[(g.edges[ei][2], g.edges[ei][3], g.states[g.edges[ei][1]]) for ei in w] for w in walks]


def chunks(lst, n):
    k = max(1, (len(lst) + n - 1) // n)
    return [lst[i : i + k] for i in range(0, len(lst), k)]


def actnorm_scale_cases(seed):
    """Data-dependent initialisation on badly scaled data (single precision): whatever the scale of the first
    training batch - 1e-25 ... 1e20 per feature - that batch comes out with zero mean and unit variance."""
    import warnings

    warnings.filterwarnings("ignore")
    import torch
    from nflows import transforms as TR

    n, fails = 0, []
    g = torch.Generator().manual_seed(seed + 1)
    for shape in ((64, 3), (16, 3, 2, 2)):
        for scale in (1e-25, 1e-12, 1.0, 1e12, 1e20):
            m = TR.ActNorm(3)
            m.train()
            x = (torch.randn(shape, generator=g) * torch.tensor([0.5, 1.0, 2.0]).reshape((1, 3) + (1,) * (len(shape) - 2)) + 0.3) * scale
            n += 1
            try:
                with torch.no_grad():
                    y, lad = m(x.clone())
            except Exception as e:  # noqa
                fails.append({"layer": "ActNorm", "clause": "init_on_scaled_data", "history": [["scale", repr(scale)], ["shape", repr(shape)]], "seed": seed, "variant": "scaled-data", "detail": "ActNorm first training-mode forward on data of scale %g raised %r" % (scale, e)})
                continue
            flat = y.transpose(0, 1).reshape(3, -1)
            ok = bool(torch.isfinite(y).all()) and bool((flat.mean(1).abs() < 1e-3).all()) and bool(((flat.std(1) - 1).abs() < 1e-3).all())
            if not ok:
                fails.append({"layer": "ActNorm", "clause": "init_on_scaled_data", "history": [["scale", repr(scale)], ["shape", repr(shape)]], "seed": seed, "variant": "scaled-data", "detail": "ActNorm initialised by a batch of scale %g (shape %s): the batch comes out with per-feature mean %s and std %s (log_scale %s)" % (scale, tuple(shape), [round(float(v), 4) for v in flat.mean(1)], [round(float(v), 4) for v in flat.std(1)], [round(float(v), 2) for v in m.log_scale])})
    return n, fails


def flow_level_cases(seed):
    """The momentum rule at the level of the flows that place batch-norm layers between their stages: after training
    passes, EVERY batch-norm position holds the momentum blend of the statistics of ITS OWN inputs, and in evaluation
    mode normalises with them (a position is identified by the order in which the layers are called)."""
    import warnings

    warnings.filterwarnings("ignore")
    import torch
    from nflows import flows as FL
    from nflows.transforms.normalization import BatchNorm

    n, fails = 0, []
    builds = {
        "SimpleRealNVP(batch_norm_between_layers)": lambda: FL.SimpleRealNVP(4, 8, num_layers=3, num_blocks_per_layer=1, batch_norm_between_layers=True),
        "MaskedAutoregressiveFlow(batch_norm_between_layers)": lambda: FL.MaskedAutoregressiveFlow(3, 8, num_layers=3, num_blocks_per_layer=1, batch_norm_between_layers=True),
    }
    for name, build in builds.items():
        torch.manual_seed(seed + 2)
        flow = build()
        g = torch.Generator().manual_seed(seed + 5)
        with torch.no_grad():
            for p_ in flow.parameters():
                p_.add_(0.3 * torch.randn(p_.shape, generator=g))
        positions = [t for t in flow._transform._transforms if isinstance(t, BatchNorm)]
        if len(positions) < 2:
            continue
        calls = []
        hooks = [m.register_forward_pre_hook(lambda mod, args: calls.append((mod, args[0].detach().clone()))) for m in set(positions)]
        D = 4 if "RealNVP" in name else 3
        expect = [(p_.running_mean.clone(), p_.running_var.clone()) for p_ in positions]   # as constructed
        flow.train()
        for step in range(2):
            calls.clear()
            with torch.no_grad():
                flow.log_prob(torch.randn(64, D, generator=g) * 1.5 + 0.7)
            if len(calls) != len(positions):
                break
            for k, (mod, xin) in enumerate(calls):
                mom = positions[k].momentum
                expect[k] = ((1 - mom) * expect[k][0] + mom * xin.mean(0), (1 - mom) * expect[k][1] + mom * xin.var(0))
        for h in hooks:
            h.remove()
        n += 1
        for k, pos in enumerate(positions):
            if not torch.allclose(pos.running_mean, expect[k][0], atol=1e-5) or not torch.allclose(pos.running_var, expect[k][1], atol=1e-5):
                fails.append({"layer": "BatchNorm", "clause": "flow_level_momentum_rule", "flow": name, "history": [["flow", name]], "seed": seed, "variant": "flow-level", "detail": "%s: after two training passes batch-norm position %d of %d holds running mean %s / variance %s, the momentum blend of the statistics of its own inputs is %s / %s" % (name, k + 1, len(positions), [round(float(v), 4) for v in pos.running_mean], [round(float(v), 4) for v in pos.running_var], [round(float(v), 4) for v in expect[k][0]], [round(float(v), 4) for v in expect[k][1]])})
                break
        # a layer's mode changes only through train() / eval() (BatchNormLife: Train / Eval are the only actions that
        # write `training`): batch-norm positions frozen with .eval() inside a flow that is being trained stay frozen
        # across sampling and density calls, and their statistics stay what they were
        torch.manual_seed(seed + 3)
        flow = build()
        positions = [t for t in flow._transform._transforms if isinstance(t, BatchNorm)]
        with torch.no_grad():
            flow.train()
            flow.log_prob(torch.randn(64, D, generator=g) * 1.5 + 0.7)
            for p_ in positions:
                p_.eval()
            before = [(p_.running_mean.clone(), p_.running_var.clone()) for p_ in positions]
            n += 1
            for call, fn in (("sample", lambda: flow.sample(5)), ("sample_and_log_prob", lambda: flow.sample_and_log_prob(5)), ("transform_to_noise", lambda: flow.transform_to_noise(torch.randn(16, D, generator=g))), ("log_prob", lambda: flow.log_prob(torch.randn(16, D, generator=g) * 2.0 - 0.4))):
                try:
                    fn()
                except Exception as e:  # noqa
                    fails.append({"layer": "BatchNorm", "clause": "call_raises", "flow": name, "history": [["flow", name], ["frozen", call]], "seed": seed, "variant": "flow-level", "detail": "%s: %s on a training-mode flow whose batch-norm layers are in evaluation mode raised %r" % (name, call, e)})
                    break
                bad = [k for k, p_ in enumerate(positions) if p_.training]
                if bad or not flow.training:
                    fails.append({"layer": "BatchNorm", "clause": "mode", "flow": name, "history": [["flow", name], ["frozen", call]], "seed": seed, "variant": "flow-level", "detail": "%s: %s switched the mode of %s (flow.training=%s); only train() / eval() change a mode" % (name, call, "batch-norm positions %s back to training" % bad if bad else "the flow", flow.training)})
                    break
                if any(not torch.equal(p_.running_mean, b[0]) or not torch.equal(p_.running_var, b[1]) for p_, b in zip(positions, before)):
                    fails.append({"layer": "BatchNorm", "clause": "frozen_statistics_written", "flow": name, "history": [["flow", name], ["frozen", call]], "seed": seed, "variant": "flow-level", "detail": "%s: %s updated the running statistics of a batch-norm layer that is in evaluation mode" % (name, call)})
                    break
    return n, fails


def main(run, replay=None):
    run.rule = (
        "cases = steps of walks covering every edge of the ActNormLife / BatchNormLife state graphs, executed on the real "
        "layers with the state dict and results compared after every step; non-trivial = distinct edges whose action is a "
        "forward/inverse call or a save+load"
    )
    if replay and replay["case"].get("variant") == "scaled-data":
        for f in actnorm_scale_cases(replay["case"]["seed"])[1]:
            if f["history"] == replay["case"]["history"]:
                run.violation({"layer": f["layer"], "clause": f["clause"]}, "replayed: " + f["detail"], replay["case"])
        return
    if replay and replay["case"].get("variant") == "flow-level":
        for f in flow_level_cases(replay["case"]["seed"])[1]:
            run.violation({"layer": f["layer"], "clause": f["clause"]}, "replayed: " + f["detail"], replay["case"])
        return
    if replay:
        c = replay["case"]
        # re-run the recorded history alone through the lock-step driver
        walks = _history_walk(c)
        out = an_walk_task((walks, c["seed"], c.get("variant", "direct"))) if c["layer"] == "ActNorm" else bn_walk_task((walks, Fraction(*c["momentum"]), c["seed"], c.get("dtype", "float32"), c.get("variant", "direct"), c.get("eps", 1e-5)))
        for f in out["fails"]:
            run.violation({"layer": f["layer"], "clause": f["clause"]}, "replayed: " + f["detail"], c)
        return
    thorough = run.tier == "thorough"
    nproc = min(16, os.cpu_count() or 4)
    # ---------------- ActNorm
    res = T.run_tlc("ActNormLife", T.cfg(constants={"NumBatches": 5}, invariants=["TypeOK", "InitializedIffFromBatch"], properties=AN_PROPS), dot=True, name="actnorm")
    run.model_must_hold(res, "ActNormLife")
    run.add_tlc(res, "ActNormLife", require_actions=["Forward", "Inverse", "SaveLoadFresh", "Save", "LoadSaved", "Train", "Eval"])
    g = parse_dot(res.dot)
    walks = annotate(g, covering_walks(g, g.init[0]))
    for e in g.edges:
        if e[2] in ("Forward", "Inverse", "SaveLoadFresh", "LoadSaved"):
            run.nontrivial.add(("AN",) + e)
    tasks = []
    for seed in range(6 if thorough else 2):
        for ch in chunks(walks, 4):
            for variant in VARIANTS:
                tasks.append((ch, run.seed * 100 + seed, variant))
    fails = []
    if True:
        for out in pmap(an_walk_task, tasks, nproc):
            run.evaluations += out["steps"]
            fails += out["fails"]
            if out["kinds"] and "unbiased" not in out["kinds"]:
                run.note_drift("ActNorm initialises with the biased standard deviation (pinned tree: unbiased)")
    run.sample({"layer": "ActNorm", "walk_prefix": [[n, list(a), dict(d["params"])] for n, a, d in walks[0][:8]]})
    # ---------------- BatchNorm
    # (momentum, MaxUpdates, with load_state_dict into the live layer)
    # (the boundary momenta too: 0 never moves the running statistics, 1 replaces them - the constructor accepts both)
    configs = [(Fraction(1, 2), 4, False), (Fraction(1, 10), 3, False), (Fraction(1, 4), 1, True), (Fraction(0, 1), 2, False), (Fraction(1, 1), 2, False)]
    if thorough:
        configs = [(Fraction(1, 2), 5, False), (Fraction(1, 10), 4, False), (Fraction(1, 4), 4, False), (Fraction(1, 2), 2, True), (Fraction(0, 1), 3, False), (Fraction(1, 1), 3, False)]
    for mom, maxu, with_load in configs:
        name = "MC_BN_%d_%d" % (mom.numerator, mom.denominator)
        res = T.run_tlc(name, bn_cfg(maxu, with_load=with_load), wrapper=bn_wrapper(name, mom), dot=True, name=name)
        run.model_must_hold(res, name)
        run.add_tlc(res, "BatchNormLife momentum=%s maxupdates=%d load=%s" % (mom, maxu, with_load), require_actions=["Forward", "Inverse", "SaveLoadFresh", "Train", "Eval"] + (["LoadDonor"] if with_load else []))
        g = parse_dot(res.dot)
        walks = annotate(g, covering_walks(g, g.init[0]))
        for e in g.edges:
            if e[2] in ("Forward", "Inverse", "SaveLoadFresh", "LoadDonor"):
                run.nontrivial.add((name,) + e)
        # the layer's own eps: the default and a large one (alternating over the chunks; thorough: both)
        tasks = [(ch, mom, run.seed, dt, variant, e) for dt in (["float32", "float64"] if thorough else ["float32"]) for vi, variant in enumerate(VARIANTS) for ci, ch in enumerate(chunks(walks, 6))
                 for e in ((1e-5, 0.1) if thorough else ((1e-5, 0.1)[(ci + vi + run.seed) % 2],))]
        bfails = []
        if True:
            for out in pmap(bn_walk_task, tasks, nproc):
                run.evaluations += out["steps"]
                bfails += out["fails"]
        if bfails and all(f["clause"] in ("running_var", "output", "logabsdet") for f in bfails):
            # the property does not fix the variance kind: retry against the biased-variance model
            res2 = T.run_tlc(name, bn_cfg(maxu, unbiased=False, props=False, with_load=with_load), wrapper=bn_wrapper(name, mom), dot=True, name=name + "_biased", coverage=False)
            g2 = parse_dot(res2.dot)
            walks2 = annotate(g2, covering_walks(g2, g2.init[0]))
            b2 = []
            if True:
                for out in pmap(bn_walk_task, [(ch, mom, run.seed, "float32") for ch in chunks(walks2, nproc)], nproc):
                    b2 += out["fails"]
            if not b2:
                run.note_drift("BatchNorm follows the momentum rule with the biased batch variance (pinned tree: unbiased)")
                bfails = []
        fails += bfails
        w0 = walks[0][:6]
        run.sample({"layer": "BatchNorm", "momentum": str(mom), "walk_prefix": [[n, list(a), {"rm": [str(rat(q)) for q in d["rm"]], "rv": [str(rat(q)) for q in d["rv"]]}] for n, a, d in w0]})
    nfl, ffl = flow_level_cases(run.seed)
    run.evaluations += nfl
    fails += ffl
    nfl, ffl = actnorm_scale_cases(run.seed)
    run.evaluations += nfl
    fails += ffl
    seen = set()
    for f in fails:
        key = (f["layer"], f["clause"], f.get("variant"), tuple(map(tuple, f["history"])))
        if key in seen:
            continue
        seen.add(key)
        case = {k: f[k] for k in f if k not in ("detail",)}
        run.violation({"layer": f["layer"], "clause": f["clause"]}, "%s (%s mode switching) %s after %s: %s" % (f["layer"], f.get("variant"), f["clause"], f["history"][-6:], f["detail"]), case)
    run.traces = 0
    run.exhaustive = True
    run.extra["lockstep_steps"] = run.evaluations
    run.assumptions = [
        "the reference model is the documented behaviour (property quantifier); the variance kind (biased / unbiased) is not fixed by the property and either is accepted if used consistently",
        "BatchNorm histories bounded by MaxUpdates training-mode forwards (exact denominators), four integer batches (one far from the origin), a separate configuration with load_state_dict into the live layer; ActNorm over four batches (two 2-D, an image batch, a single image)",
        "float comparisons: running statistics 2e-5 (float32), outputs 5e-3 relative (eps=1e-5 amplifies rounding when the running variance is 0)",
    ]


def _history_walk(c):
    """Rebuild an annotated walk for a recorded history by re-running TLC and following labels."""
    if c["layer"] == "ActNorm":
        res = T.run_tlc("ActNormLife", T.cfg(constants={"NumBatches": 5}), dot=True, coverage=False)
    else:
        mom = Fraction(*c["momentum"])
        name = "MC_BN_%d_%d" % (mom.numerator, mom.denominator)
        loads = any(h[0] == "LoadDonor" for h in c["history"])
        nupd = sum(1 for h in c["history"] if h[0] == "Forward")
        res = T.run_tlc(name, bn_cfg(min(nupd, 2) if loads else 6, props=False, with_load=loads), wrapper=bn_wrapper(name, mom), dot=True, coverage=False)
    g = parse_dot(res.dot)
    cur = g.init[0]
    walk = []
    for h in c["history"]:
        for ei in g.out.get(cur, []):
            s, d, name, args = g.edges[ei]
            if name == h[0] and [int(a) for a in args] == h[1:]:
                walk.append((name, args, g.states[d]))
                cur = d
                break
        else:
            raise T.MachineryError("history step %s not in the model" % (h,))
    return [walk]
