"""C19 - single precision agrees with double precision and stays finite.

(S) TLC: Spline.tla supplies the lattice (incl. knots, end points, tail junctions, where discriminants
    vanish) with the exact rational value as the common reference of both precisions.
(R) every lattice case runs in float32 and float64 (both directions): finite, no exception, dtype
    preserved, values within single-precision accuracy scaled by the exact slope.  Zoo sweep: every
    transform / flow as a float32 model and its float64 twin (same state dict) on generic, scaled and offset
    inputs of moderate magnitude, evaluation mode in both directions and training mode for batch-statistics
    layers.
"""
from __future__ import annotations

import warnings

from vcore import splinerun
from vcore.pool import pmap


def inputs_for(torch, e, seed):
    """Input variants of moderate magnitude for the forward direction."""
    x = e.x(6, seed)
    outs = [("generic", x)]
    if not e.has("bounded01") and not e.has("discrete"):
        outs.append(("scaled x4", x * 4.0))
        outs.append(("offset +6", x * 0.5 + 6.0))
        if e.kind in ("dist", "flow"):
            # a dozen units out: densities around exp(-150) - far below the single-precision range, their
            # logarithms are ordinary numbers
            outs.append(("offset +12", x * 0.5 + 12.0))
        if e.has("noparams") and x.dim() == 2:
            g = torch.linspace(-15.0, 15.0, 6 * x.shape[1]).reshape(6, -1)
            outs.append(("grid -15..15", g))
            # far out on both sides (single precision saturates long before double does): the outputs and
            # log-dets of a map defined on the whole line stay finite and agree
            outs.append(("grid -60..60", torch.linspace(-60.0, 60.0, 6 * x.shape[1]).reshape(6, -1)))
    return outs


def zoo_task(names):
    warnings.filterwarnings("ignore")
    import torch

    torch.set_num_threads(1)
    from vcore import zoo

    Z = zoo.by_name()
    out = {"n": 0, "fails": [], "skipped": []}
    for name in names:
        e = Z[name]
        if e.has("umnn"):
            out["skipped"].append(name + ": UMNN keeps float32 internals (third-party integrator)")
            continue
        if e.has("discrete"):
            continue
        for seed in (0, 1):
            try:
                m32 = zoo.prepare(e, e.build(seed), seed)
                if seed == 1 and e.kind == "transform" and e.has("inv"):
                    # the float64 twin as users get it: a single-precision model that has already been used
                    # (evaluation mode, inverse direction first - what sampling does) and is then converted
                    m64 = zoo.prepare(e, e.build(seed), seed)
                    m64.eval()
                    with torch.no_grad():
                        c_ = e.ctx(6, seed)
                        try:
                            m64.inverse(e.y(6, seed), c_) if c_ is not None else m64.inverse(e.y(6, seed))
                        except Exception:  # noqa  (reported by the inverse direction below)
                            pass
                    m64 = m64.double()
                else:
                    m64 = e.build(seed + 50)
                    m64.load_state_dict(m32.state_dict())
                    m64 = m64.double()
            except Exception as ex:  # noqa
                out["skipped"].append("%s: %r" % (name, ex))
                break
            c32 = e.ctx(6, seed)
            c64 = c32.double() if c32 is not None else None
            modes = ["eval"] + (["train"] if e.has("batch_coupled_train") else [])
            stop = False
            for mode in modes:
                for label, x in inputs_for(torch, e, seed):
                    if name == "CompositeCDF" and label != "generic":
                        continue  # sigmoid -> CDF -> logit: conditioning grows like 1 / (1 - sigmoid(x))
                    if mode == "train":
                        x = x * 0.05 + 20.0 if label == "offset +6" else x
                    for direction in ("forward", "inverse"):
                        if direction == "inverse" and (not e.has("inv") or e.kind != "transform" or mode == "train"):
                            continue
                        xin = e.y(6, seed) if direction == "inverse" and label == "generic" else x
                        if direction == "inverse" and label != "generic":
                            continue
                        m32.train(mode == "train")
                        m64.train(mode == "train")
                        sd = {k: v.clone() for k, v in m32.state_dict().items()}
                        out["n"] += 1
                        case = {"kind": "zoo", "name": name, "seed": seed, "mode": mode, "inputs": label, "dir": direction}
                        try:
                            with torch.no_grad():
                                if e.kind == "transform":
                                    f32, f64 = getattr(m32, direction), getattr(m64, direction)
                                    r32 = f32(xin, c32) if c32 is not None else f32(xin)
                                    r64 = f64(xin.double(), c64) if c64 is not None else f64(xin.double())
                                else:
                                    r32 = (m32.log_prob(xin, c32) if c32 is not None else m32.log_prob(xin),)
                                    r64 = (m64.log_prob(xin.double(), c64) if c64 is not None else m64.log_prob(xin.double()),)
                        except Exception as ex:  # noqa
                            out["fails"].append(dict(case, clause="raises", detail="%s %s (%s, %s inputs): %r" % (name, direction, mode, label, ex)))
                            stop = True
                            break
                        finally:
                            if mode == "train":  # keep both models on the same running statistics
                                m32.load_state_dict(sd)
                                m64.load_state_dict(sd)
                        for a, b, what in zip(r32, r64, ("outputs", "logabsdet")):
                            if e.kind != "transform":
                                what = "log_prob"
                            if a.dtype != torch.float32 or b.dtype != torch.float64:
                                out["fails"].append(dict(case, clause="dtype_not_preserved", detail="%s %s: %s has dtype %s for float32 inputs / %s for float64 inputs" % (name, direction, what, a.dtype, b.dtype)))
                                stop = True
                                break
                            if not bool(torch.isfinite(b).all()):
                                continue  # not a moderate input for this transform (float64 itself overflows)
                            if not bool(torch.isfinite(a).all()):
                                out["fails"].append(dict(case, clause="f32_nonfinite", detail="%s %s (%s inputs, %s mode): float32 %s is not finite where float64 is" % (name, direction, label, mode, what)))
                                stop = True
                                break
                            err = ((a.double() - b).abs() / (1.0 + b.abs())).max().item()
                            tol = 2e-4 if what != "outputs" else 1e-4
                            if e.has("large"):
                                tol = 2e-3  # 64 x 64 solves
                            if "Cubic" in name or "Quadratic" in name or mode == "train":
                                tol = 2e-3  # polynomial root finding / division by a small batch std
                            if err > tol:
                                i = int(((a.double() - b).abs() / (1.0 + b.abs())).reshape(-1).argmax())
                                out["fails"].append(dict(case, clause="f32_vs_f64", detail="%s %s (%s inputs, %s mode): %s float32 %.8g vs float64 %.8g (relative %.3g)" % (name, direction, label, mode, what, float(a.reshape(-1)[i]), float(b.reshape(-1)[i]), err)))
                                stop = True
                                break
                        if stop:
                            break
                    if stop:
                        break
                if stop:
                    break
            if stop:
                break
    return out


def main(run, replay=None):
    run.rule = (
        "cases = spline lattice points in float32 and float64 (both directions) and zoo models as float32 / float64 twins on "
        "generic, scaled, offset and grid inputs (evaluation mode both directions, training mode for batch-statistics layers); "
        "non-trivial = distinct spline parameter sets and (zoo model, input variant, direction, mode) tuples"
    )
    thorough = run.tier == "thorough"
    if replay:
        c = replay["case"]
        if c.get("kind") == "spline":
            return splinerun.replay_spline(run, "C19", c)
        if c.get("kind") == "reload_converted":
            from vcore import reload as RL

            for r in RL.replay(run, c):
                run.violation({"kind": "reload_converted", "model": c["name"]}, "replayed: " + r, c)
            return
        for f in zoo_task([c["name"]])["fails"]:
            run.violation({"kind": "zoo", "name": c["name"], "clause": f["clause"]}, "replayed: " + f["detail"], c)
        return
    splinerun.run_lattice(run, "C19", thorough)
    from vcore import zoo as _z

    names = [e.name for e in _z.entries()]
    fails, skipped = [], []
    for out in pmap(zoo_task, [names[i::16] for i in range(16)], 16):
        run.evaluations += out["n"]
        fails += out["fails"]
        skipped += out["skipped"]
    run.extra["zoo_skipped"] = skipped
    for n in names:
        run.nontrivial.add(("zoo", n))
    seen = set()
    for f in fails:
        key = (f["name"], f["clause"], f["mode"], f["dir"])
        if key in seen:
            continue
        seen.add(key)
        run.violation({"kind": "zoo", "name": f["name"], "clause": f["clause"], "mode": f["mode"]}, f["detail"], {k: v for k, v in f.items() if k != "detail"})
    # the protocols of spec/Reload.tla that end in a conversion to double precision: a model that was loaded, used
    # in evaluation mode (caches filled in float32) and then converted must behave like its own copy converted
    # from empty caches
    from vcore import reload as RL

    seen = set()
    for f in RL.run_leg(run, converted=True):
        if f["name"] in seen:
            continue
        seen.add(f["name"])
        run.violation({"kind": "reload_converted", "model": f["name"], "used_after": f["proto"]["used_after"]}, f["detail"], {k: v for k, v in f.items() if k != "detail"})
    run.exhaustive = True
    run.assumptions = [
        "conversion protocols (Reload.tla): 1152 histories that end in .double(); quick tier 6 per model, thorough 60; agreement within 1e-4 with the model's own copy converted from empty weight caches, same dtypes, neither raises",
        "moderate magnitude = inputs within +-15 (elementwise maps), randn x4 / +6 offsets, training batches 20 + 0.05 randn; cases where float64 itself is non-finite are not moderate and are skipped",
        "tolerance 1e-4 relative on outputs, 2e-4 on log-dets (2e-3 for the quadratic / cubic spline inverses, which solve polynomials); off-lattice cancellation is only sampled",
    ]
