"""C11 - linear-family accessors all describe one and the same affine map.

(S) TLC checks spec/LinAlg.tla (over RatLin / Rat): on a lattice of integer / rational parameters of the LU,
    QR, SVD, naive and Householder parameterisations, W W^-1 = I, |det W| = product of the diagonal
    parameters, Householder products orthogonal, initial Householder vectors usable and cancelling in pairs.
(R) every state is loaded into the real class (pre-images of softplus / exp): weight(), weight_inverse(),
    logabsdet(), the combined accessors, matrix(), forward and inverse must agree with each other
    (self-checking) and with the exact model (drift); Householder vectors are also rescaled (a reflection
    does not depend on the vector's length); default and random initialisations must be finite and invertible.
"""
from __future__ import annotations

import math
import warnings

from vcore import tlc as T
from vcore.pool import pmap
from vcore.tlaval import parse_dump, rat

INVS = ["InverseIsInverse", "LogAbsDetIsDet", "Orthogonal", "InitIsIdentityOrReflection", "Usable"]
EPS = 1e-3


def sp_inv(y):
    # softplus^-1; for large y, log(expm1(y)) = y + log1p(-exp(-y)) without overflow
    return y + math.log1p(-math.exp(-y)) if y > 30 else math.log(math.expm1(y))


def mat(v):
    return [[float(rat(x)) for x in row] for row in v]


def build(torch, p, qscale=1.0):
    from nflows import transforms as TR

    cls, n = str(p["cls"]), int(p["n"])
    f64 = torch.float64
    tv = lambda v: torch.tensor([float(x) for x in v], dtype=f64)
    # the floor `eps` of the positive diagonals is a constructor argument: the default and two others, chosen by the
    # state (only where every diagonal entry of the state lies above the floor)
    eps = EPS
    if cls in ("LU", "SVD"):
        dmin = min(float(rat(d)) for d in p["d"])
        pick = (EPS, 0.05, 0.25)[(sum(int(d[0]) + int(d[1]) for d in p["d"]) + n + len(str(p.get("lo", p.get("q1", ""))))) % 3]
        eps = pick if dmin > pick + 1e-3 else EPS
    if cls == "LU":
        m = TR.LULinear(n, eps=eps).double()
        with torch.no_grad():
            m.lower_entries.copy_(tv(p["lo"]))
            m.upper_entries.copy_(tv(p["up"]))
            m.unconstrained_upper_diag.copy_(torch.tensor([sp_inv(float(rat(d)) - eps) for d in p["d"]], dtype=f64))
    elif cls == "QR":
        m = TR.QRLinear(n, num_householder=len(p["qs"])).double()
        with torch.no_grad():
            m.upper_entries.copy_(tv(p["up"]))
            m.log_upper_diag.copy_(torch.tensor([math.log(float(rat(d))) for d in p["d"]], dtype=f64))
            m.orthogonal.q_vectors.copy_(qscale * torch.tensor([[float(x) for x in q] for q in p["qs"]], dtype=f64))
    elif cls == "SVD":
        m = TR.SVDLinear(n, num_householder=2, eps=eps).double()
        with torch.no_grad():
            m.unconstrained_diagonal.copy_(torch.tensor([sp_inv(float(rat(d)) - eps) for d in p["d"]], dtype=f64))
            m.orthogonal_1.q_vectors.copy_(qscale * torch.tensor([[float(x) for x in q] for q in p["q1"]], dtype=f64))
            m.orthogonal_2.q_vectors.copy_(qscale * torch.tensor([[float(x) for x in q] for q in p["q2"]], dtype=f64))
    elif cls == "Naive":
        m = TR.NaiveLinear(n, orthogonal_initialization=False).double()
    elif cls == "Householder":
        m = TR.HouseholderSequence(n, len(p["qs"])).double()
        with torch.no_grad():
            m.q_vectors.copy_(qscale * torch.tensor([[float(x) for x in q] for q in p["qs"]], dtype=f64))
    elif cls == "HouseholderInit":
        m = TR.HouseholderSequence(n, len(p["qs"])).double()
    else:
        raise ValueError(cls)
    if "b" in p:
        with torch.no_grad():
            m.bias.copy_(torch.tensor([float(rat(b)) for b in p["b"]], dtype=f64))
    return m


def check_state(torch, st, seed):
    p = st["par"]
    cls, n = str(p["cls"]), int(p["n"])
    W = torch.tensor(mat(st["W"]), dtype=torch.float64)
    Wi = torch.tensor(mat(st["Winv"]), dtype=torch.float64)
    absdet = float(rat(st["absdet"]))
    fails, drift = [], []
    g = torch.Generator().manual_seed(seed)
    x = torch.randn(4, n, generator=g, dtype=torch.float64)
    I = torch.eye(n, dtype=torch.float64)
    tol = 1e-9
    case = {"cls": cls, "n": n, "par": {k: (str(v)) for k, v in p.items()}}

    def fail(clause, detail, **kw):
        fails.append(dict(case, clause=clause, detail=detail, **kw))

    for qscale in ((1.0, 1e-4, 1e3) if cls in ("QR", "SVD", "Householder") else (1.0,)):
        try:
            m = build(torch, p, qscale)
            if cls == "Naive":
                with torch.no_grad():
                    m._weight.copy_(W)
        except Exception as e:  # noqa
            if cls == "HouseholderInit":
                fail("constructor", "HouseholderSequence(%d, %d) raised %r" % (n, len(p["qs"]), e))
            else:
                drift.append("%s: cannot load lattice parameters: %r" % (cls, e))
            return fails, drift
        m.eval()
        tag = dict(qscale=qscale)
        try:
            with torch.no_grad():
                if cls in ("Householder", "HouseholderInit"):
                    M = m.matrix()
                    y, lad = m.forward(x)
                    xr, lad2 = m.inverse(y)
                    if not bool(torch.isfinite(M).all() and torch.isfinite(y).all()):
                        fail("nonfinite", "HouseholderSequence(%d, %d) produces non-finite values (q_vectors %s)" % (n, len(p["qs"]), m.q_vectors.tolist()), **tag)
                        continue
                    if not torch.allclose(M @ M.t(), I, atol=tol):
                        fail("not_orthogonal", "matrix() is not orthogonal (|M M^T - I| = %.3g, vector scale %g)" % (float((M @ M.t() - I).abs().max()), qscale), **tag)
                    if not torch.allclose(y, x @ M.t(), atol=tol):
                        fail("forward_vs_matrix", "forward(x) differs from x @ matrix()^T by %.3g" % float((y - x @ M.t()).abs().max()), **tag)
                    if not torch.allclose(xr, x, atol=tol) or bool((lad != 0).any()) or bool((lad2 != 0).any()):
                        fail("roundtrip", "inverse(forward(x)) differs from x by %.3g (vector scale %g)" % (float((xr - x).abs().max()), qscale), **tag)
                    if not torch.allclose(M, W, atol=tol):
                        drift.append("%s %s: matrix() differs from the exact model by %.3g" % (cls, case["par"].get("qs"), float((M - W).abs().max())))
                    if cls == "HouseholderInit" and [[int(v) for v in r] for r in m.q_vectors.tolist()] != [[int(v) for v in q] for q in p["qs"]]:
                        drift.append("HouseholderSequence(%d, %d) initial vectors %s differ from the specification's %s" % (n, len(p["qs"]), m.q_vectors.tolist(), [list(q) for q in p["qs"]]))
                    continue
                w, wi, l = m.weight(), m.weight_inverse(), m.logabsdet()
                w2, l2 = m.weight_and_logabsdet()
                wi3, l3 = m.weight_inverse_and_logabsdet()
                y, lad = m.forward(x)
                xr, ladi = m.inverse(y)
                b = m.bias
                # the same passes through the weight cache, both directions on one instance, either order
                cached = []
                for order in ("forward-first", "inverse-first"):
                    m.use_cache(True)
                    m.cache.invalidate()
                    if order == "forward-first":
                        yc, l_f = m.forward(x)
                        xc, l_i = m.inverse(yc)
                        _, l_f2 = m.forward(x)
                    else:
                        xc, l_i = m.inverse(y)
                        yc, l_f = m.forward(xc)
                        _, l_f2 = m.inverse(y)
                        l_f2 = -l_f2
                    cached.append((order, l_f, l_i, l_f2, xc))
                    m.use_cache(False)
                    m.cache.invalidate()
        except Exception as e:  # noqa
            fail("accessor_raises", "%s accessor / pass raised %r" % (cls, e), **tag)
            continue
        allv = [w, wi, l, w2, l2, wi3, l3, y, lad, xr, ladi]
        if not all(bool(torch.isfinite(t).all()) for t in allv):
            fail("nonfinite", "%s returns non-finite values" % cls, **tag)
            continue
        if not torch.allclose(w @ wi, I, atol=1e-8) or not torch.allclose(wi @ w, I, atol=1e-8):
            fail("inverse_accessor", "weight() @ weight_inverse() differs from I by %.3g" % float((w @ wi - I).abs().max()), **tag)
        sld = torch.linalg.slogdet(w)[1]
        if abs(float(sld) - float(l)) > 1e-8:
            fail("logabsdet_accessor", "logabsdet() = %.9g but log|det weight()| = %.9g" % (float(l), float(sld)), **tag)
        if not torch.allclose(y, x @ w.t() + b, atol=1e-8):
            fail("forward_vs_weight", "forward(x) differs from x @ weight()^T + bias by %.3g" % float((y - (x @ w.t() + b)).abs().max()), **tag)
        if not torch.allclose(lad, l.expand(4), atol=1e-8) or not torch.allclose(ladi, -l.expand(4), atol=1e-8):
            fail("pass_logabsdet", "forward / inverse logabsdet %s / %s vs logabsdet() %.9g" % (lad[0].item(), ladi[0].item(), float(l)), **tag)
        if not torch.allclose(xr, x, atol=1e-7):
            fail("roundtrip", "inverse(forward(x)) differs from x by %.3g" % float((xr - x).abs().max()), **tag)
        for order, l_f, l_i, l_f2, xc in cached:
            if not torch.allclose(l_f, l.expand(4), atol=1e-8) or not torch.allclose(l_i, -l.expand(4), atol=1e-8) or not torch.allclose(l_f2, l.expand(4), atol=1e-8):
                fail("pass_logabsdet", "with the cache on (%s): forward / inverse logabsdet %.9g / %.9g (third call %.9g) vs logabsdet() %.9g" % (order, float(l_f[0]), float(l_i[0]), float(l_f2[0]), float(l)), **tag)
                break
            if not torch.allclose(xc, x, atol=1e-7):
                fail("roundtrip", "with the cache on (%s): the inverse pass differs from the pre-image by %.3g" % (order, float((xc - x).abs().max())), **tag)
                break
        if not torch.allclose(w2, w, atol=1e-9) or abs(float(l2) - float(l)) > 1e-9:
            fail("combined_accessor", "weight_and_logabsdet() = (.., %.9g) vs weight() / logabsdet() %.9g" % (float(l2), float(l)), **tag)
        if not torch.allclose(wi3, wi, atol=1e-8) or abs(float(l3) - float(l)) > 1e-8:
            fail("combined_accessor", "weight_inverse_and_logabsdet() = (.., %.9g) vs weight_inverse() / logabsdet() %.9g" % (float(l3), float(l)), **tag)
        if not torch.allclose(w, W, atol=1e-8) or abs(float(l) - math.log(absdet)) > 1e-8 or not torch.allclose(wi, Wi, atol=1e-7):
            drift.append("%s %s: accessors differ from the exact model (weight %.3g, logabsdet %.3g)" % (cls, {k: v for k, v in case["par"].items() if k not in ("cls", "n")}, float((w - W).abs().max()), abs(float(l) - math.log(absdet))))
    return fails, drift


def task(t):
    warnings.filterwarnings("ignore")
    import torch

    torch.set_num_threads(1)
    states, seed = t
    out = {"n": 0, "fails": [], "drift": []}
    for st in states:
        f, d = check_state(torch, st, seed)
        out["n"] += 1
        out["fails"] += f
        out["drift"] += d[:2]
    return out


def init_task(seed):
    """Default and random initialisations of every class must give a finite, invertible transform."""
    warnings.filterwarnings("ignore")
    import torch

    torch.set_num_threads(1)
    from nflows import transforms as TR

    fails, n = [], 0
    cfgs = []
    for D in (1, 2, 3, 4):
        cfgs += [("LULinear", D, dict(identity_init=True)), ("LULinear", D, dict(identity_init=False)), ("NaiveLinear", D, dict(orthogonal_initialization=True)), ("NaiveLinear", D, dict(orthogonal_initialization=False))]
        for K in (1, 2, 3, 2 * D + 2, 2 * D + 3):
            cfgs.append(("QRLinear", D, dict(num_householder=K)))
            cfgs.append(("HouseholderSequence", D, dict(num_transforms=K)))
        for K in (2, 4, 2 * D + 2):
            cfgs += [("SVDLinear", D, dict(num_householder=K, identity_init=True)), ("SVDLinear", D, dict(num_householder=K, identity_init=False))]
    # wide layers: the determinant leaves the float range long before its logarithm does
    cfgs += [("NaiveLinear", 128, dict(orthogonal_initialization=False)), ("NaiveLinear", 200, dict(orthogonal_initialization=False)), ("LULinear", 128, dict(identity_init=False))]
    for name, D, kw in cfgs:
        torch.manual_seed(seed)
        n += 1
        case = {"cls": name, "n": D, "par": {k: str(v) for k, v in kw.items()}, "init": True}
        try:
            m = getattr(TR, name)(D, **kw)
        except Exception as e:  # constructor rejects: outside the quantifier
            continue
        m.eval()
        x = torch.randn(5, D)
        try:
            with torch.no_grad():
                y, lad = m.forward(x)
                xr, lad2 = m.inverse(y)
            ok = bool(torch.isfinite(y).all() and torch.isfinite(lad).all() and torch.isfinite(xr).all()) and torch.allclose(xr, x, atol=1e-3 * (1 + D / 8)) and torch.allclose(lad + lad2, torch.zeros_like(lad), atol=1e-3 * (1 + D / 8))
            if not ok:
                fails.append(dict(case, clause="init_not_usable", detail="%s(%d, %s) freshly constructed: forward / inverse give non-finite or inconsistent values" % (name, D, kw)))
        except Exception as e:  # noqa
            fails.append(dict(case, clause="init_not_usable", detail="%s(%d, %s) freshly constructed raises %r" % (name, D, kw, e)))
    return {"n": n, "fails": fails, "drift": []}


def history_task(task):
    """The accessors against the passes after a history (the failing histories TLC derives for the broken cache
    designs of LinearCache.tla): whatever happened before, forward is x -> W x + b with W = weight(), the inverse
    pass applies weight_inverse(), and both report logabsdet()."""
    warnings.filterwarnings("ignore")
    import torch

    torch.set_num_threads(1)
    from checks import c10

    cls, uc, variant, seed, label, hist = task
    out = {"n": 0, "fails": []}
    D = 3
    try:
        d = c10.Driver(cls, D, uc, seed, variant)
    except Exception:  # noqa
        return out
    for h in hist:
        d.apply(h[0], h[1:])
    m = d.m
    if not hasattr(m, "weight"):
        return out
    x = torch.randn(4, D, generator=torch.Generator().manual_seed(seed), dtype=d.dtype())
    out["n"] += 1
    try:
        with torch.no_grad():
            y, lad = m.forward(x)
            W, Wi, L = m.weight(), m.weight_inverse(), m.logabsdet()
            xi, ladi = m.inverse(y)
    except Exception:  # noqa  (operations that stop working after a history are C10's business)
        return out
    tol = 1e-4 if d.dt == "f32" else 1e-9
    errs = {
        "forward pass vs x W^T + b with W = weight()": float((y - (x @ W.t() + m.bias)).abs().max()),
        "inverse pass vs (y - b) weight_inverse()^T": float((xi - ((y - m.bias) @ Wi.t())).abs().max()),
        "forward log-det vs logabsdet()": float((lad - L).abs().max()),
        "inverse log-det vs -logabsdet()": float((ladi + L).abs().max()),
    }
    bad = {k: v for k, v in errs.items() if not v <= tol * (1 + float(y.abs().max()))}
    if bad:
        k = max(bad, key=bad.get)
        out["fails"].append({"cls": cls, "n": D, "clause": "pass_disagrees_with_accessor_after_history", "history_kind": True, "task": [cls, uc, variant, seed, label, hist], "par": {"design": label}, "detail": "after the history %s (%s mode switching): %s differs by %.3g" % (hist, variant, k, bad[k])})
    return out


def main(run, replay=None):
    run.rule = (
        "cases = every parameter state of LinAlg.tla (five parameterisations x feature counts 1..3 x lattice parameters; "
        "Householder vectors also rescaled by 1e-4 and 1e3) plus default / random initialisations for 1..4 features; "
        "non-trivial = states with more than one feature"
    )
    thorough = run.tier == "thorough"
    consts = {"MaxD": 3, "MaxK": 9 if thorough else 7, "Rich": "TRUE" if thorough else "FALSE"}
    res = T.run_tlc("LinAlg", T.cfg(constants=consts, invariants=INVS), dump=True, name="linalg", workers=8, timeout=3000)
    run.model_must_hold(res, "LinAlg")
    run.add_tlc(res, "LinAlg %s" % consts)
    states = parse_dump(res.dump)
    if replay and replay["case"].get("history_kind"):
        for f in history_task(tuple(replay["case"]["task"]))["fails"]:
            run.violation({"cls": f["cls"], "clause": f["clause"]}, "replayed: " + f["detail"], replay["case"])
        return
    if replay:
        c = replay["case"]
        import torch

        if c.get("init"):
            out = init_task(run.seed)
            fs = [f for f in out["fails"] if f["cls"] == c["cls"] and f["n"] == c["n"] and f["par"] == c["par"]]
        else:
            fs = []
            for st in states:
                if str(st["par"]["cls"]) == c["cls"] and {k: str(v) for k, v in st["par"].items()} == c["par"]:
                    fs += check_state(torch, st, run.seed)[0]
        for f in fs:
            run.violation({"cls": f["cls"], "clause": f["clause"]}, "replayed: " + f["detail"], c)
        return
    fails = []
    for out in pmap(task, [(states[i::24], run.seed) for i in range(24) if states[i::24]]):
        run.evaluations += out["n"]
        fails += out["fails"]
        for d in out["drift"][:2]:
            run.note_drift(d)
    out = init_task(run.seed)
    run.evaluations += out["n"]
    fails += out["fails"]
    # accessors vs passes after a history: the failing histories TLC derives for broken cache designs
    from checks import c10

    hists = []
    for label, kw in [("no invalidation on load_state_dict", dict(load=False)), ("no invalidation on train()", dict(train=False)), ("train() drops the cache only while using_cache is on", dict(train_off=False)), ("cached path taken in training mode while the parameters are frozen", dict(frozen_cached=True))]:
        bres = T.run_tlc("LinearCache", T.cfg(constants=c10.consts(False, True, **kw), properties=["Transparent"], view="View"), name="lc_broken", coverage=False, workers=1)
        if bres.ok:
            raise T.MachineryError("LinearCache.tla does not discriminate the design '%s'" % label)
        run.states += bres.distinct
        run.transitions += bres.generated
        h = c10.history_of_counterexample(bres.stdout)
        if h:
            hists.append((label, h))
    htasks = [(cls, uc, variant, run.seed * 1000 + 700 + i, label, h) for i, (label, h) in enumerate(hists) for cls in ("LULinear", "QRLinear", "SVDLinear", "NaiveLinear") for uc in (False, True) for variant in c10.VARIANTS]
    for out in pmap(history_task, htasks):
        run.evaluations += out["n"]
        fails += out["fails"]
    run.extra["histories_from_LinearCache_counterexamples"] = [[l, h] for l, h in hists]
    for st in states:
        if int(st["par"]["n"]) > 1:
            run.nontrivial.add(repr(sorted((k, str(v)) for k, v in st["par"].items())))
    s0 = next(s for s in states if str(s["par"]["cls"]) == "QR" and int(s["par"]["n"]) == 2)
    run.sample({"class": "QR", "q_vectors": [list(map(int, q)) for q in s0["par"]["qs"]], "exact_weight": [[str(rat(x)) for x in r] for r in s0["W"]], "exact_absdet": str(rat(s0["absdet"]))})
    seen = set()
    for f in fails:
        key = (f["cls"], f["clause"], f["n"], repr(f["par"]) if f.get("init") else "")
        if key in seen:
            continue
        seen.add(key)
        run.violation({"cls": f["cls"], "clause": f["clause"], "n": f["n"]}, "%s (features %d): %s" % (f["cls"], f["n"], f["detail"]), {k: v for k, v in f.items() if k != "detail"})
    run.exhaustive = True
    run.assumptions = ["feature counts 1..3 on the parameter lattice (determinant by cofactor expansion), 1..4 for initialisations; float64"]
