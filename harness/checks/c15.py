"""C15 - saving and reloading a model reproduces the same function.

Uses the Session engine (spec/Session.tla, TraceSession.tla): histories before saving are paths of
the specification's state graph (fresh, optimiser steps, data-dependent initialisation, training-mode
batch-norm passes, mode switches, calls); SaveLoadFresh builds a fresh model under a *different*
seed, loads the state dict and compares forward / inverse / log_prob / sample (fixed RNG) bit for bit.
TLC judges the recorded steps: verdict reload_differs is the violation.
"""
from __future__ import annotations

from checks.c13 import replay_case, run_sessions

VERDICTS = {"reload_differs", "reinitialised_after_reload"}

F = ["Call:fwdlike", "plain"]
PATTERNS = [
    [["SaveLoadFresh"]],
    [["TrainStep"], ["TrainStep"], ["SaveLoadFresh"], ["SaveLoadFresh"]],
    [F, ["SaveLoadFresh"], F, ["SaveLoadFresh"]],
    [F, ["TrainStep"], F, ["Eval"], F, ["SaveLoadFresh"], ["Eval"], F, ["SaveLoadFresh"]],
    [["Eval"], F, ["Train"], F, F, ["TrainStep"], ["SaveLoadFresh"], F, ["TrainStep"], ["SaveLoadFresh"]],
]


def main(run, replay=None):
    run.rule = (
        "cases = recorded steps of sessions on every zoo model (edge cover of the Session graph, pattern histories "
        "fresh / trained / data-dependent init / batch-norm passes before each save, random walks); non-trivial = distinct "
        "(model, operation, input kind, preceding action); each SaveLoadFresh compares a model rebuilt under another seed"
    )
    if replay and replay["case"].get("kind") == "reload":
        from vcore import reload as RL

        for r in RL.replay(run, replay["case"]):
            run.violation({"kind": "reload", "model": replay["case"]["name"]}, "replayed: " + r, replay["case"])
        return
    if replay:
        return replay_case(run, replay["case"], VERDICTS)
    thorough = run.tier == "thorough"
    traces = run_sessions(
        run, VERDICTS, thorough, n_random=10 if thorough else 2, rand_len=40 if thorough else 25, cover=True,
        max_cover_steps=None if thorough else 400, seeds=(0, 1, 2) if thorough else (0,), patterns=PATTERNS,
    )
    reloads = sum(1 for t in traces for ev in t["ev"] if ev["a"] == "SaveLoadFresh")
    keys_bad = sorted({t["name"] for t in traces for ev in t["ev"] if ev["a"] == "SaveLoadFresh" and not ev["keysMatch"]})
    for n in keys_bad:
        run.note_drift("state-dict keys of a fresh %s differ from the saved ones" % n)
    run.extra["reloads_compared"] = reloads
    # every checkpoint protocol of spec/Reload.tla on the zoo models
    from vcore import reload as RL

    seen = set()
    for f in RL.run_leg(run):
        if f["name"] in seen:
            continue
        seen.add(f["name"])
        run.violation({"kind": "reload", "model": f["name"], "route": f["proto"]["route"], "eval_first": f["proto"]["eval_first"], "used": f["proto"]["used"]}, f["detail"], {k: v for k, v in f.items() if k != "detail"})
    run.exhaustive = thorough
    run.assumptions = [
        "same function = bit-identical forward, inverse, log_prob, transform_to_noise and fixed-seed sample on probe inputs in evaluation mode",
        "checkpoint protocols (Reload.tla): 1152 combinations of source history, destination mode / smoke runs before the load, route (direct, through a container, a plain dict without _metadata), train()/eval() afterwards and evaluation-mode use after the load; quick tier: 14 protocols per model, thorough: 300 (the protocols that end in a conversion to double precision are run by C19)",
        "the fresh model is built by the same zoo constructor under a different torch seed and with differently perturbed parameters",
    ]
