"""C17 - out-of-domain inputs are rejected, in-domain inputs never fail.

(S) TLC: spec/Spline.tla (InDomainAccepted / OutOfDomainRejected on the exact bin search incl. the float
    absorption fact; derives the crash of an unclamped bin search for tail bounds >= 32 in float32) and
    spec/Scalar.tla (domains of Exp / Tanh / Sigmoid / Logit / CauchyCDF inverses with open / closed ends,
    the probed element anywhere in a batch).
(R) every lattice case and every scalar state is executed on the real code (float32 and float64, 1-ulp
    neighbours, denormals, -0.0): outcome class must be Value (finite) or InputOutsideDomain as specified;
    anything else (IndexError, AssertionError, NaN) is a violation.  Large tail bounds / boxes are probed
    in addition (1e3, 1e4).
"""
from __future__ import annotations

import warnings

from vcore import splinerun
from vcore import tlc as T
from vcore.pool import pmap
from vcore.tlaval import parse_dump


def concrete(torch, t, cls, dt):
    """Concrete float for an input class of Scalar.tla (None if the class does not exist)."""
    inf = float("inf")
    lo = float(t["lo"])
    hi = inf if str(t["hi"]) == "inf" else float(t["hi"])
    tt = lambda v: torch.tensor(v, dtype=dt)
    nxt = lambda v, d: float(torch.nextafter(tt(v), tt(d)))
    tiny = 1e-30 if dt == torch.float32 else 1e-300
    if cls == "far_below":
        return lo - 1.5
    if cls == "below_tiny":
        return lo - tiny if lo != 0 else -5e-324 if dt == torch.float64 else -1e-45
    if cls == "below_ulp":
        return nxt(lo, -inf) if lo != 0 else -1e-9
    if cls == "at_lo":
        return lo
    if cls == "above_lo_ulp":
        return nxt(lo, inf) if lo != 0 else 1e-30
    if cls == "inside":
        return 0.3 if hi != inf else 2.5
    if hi == inf:
        return {"below_hi_ulp": 1e30, "at_hi": 3.0e38 if dt == torch.float32 else 1e300, "above_hi_ulp": 7.0, "above_tiny": 1e-3, "far_above": 50.0}[cls]
    if cls == "below_hi_ulp":
        return nxt(hi, -inf)
    if cls == "at_hi":
        return hi
    if cls == "above_hi_ulp":
        return nxt(hi, inf)
    if cls == "above_tiny":
        return hi + (1e-6 if dt == torch.float32 else 1e-12)
    if cls == "far_above":
        return hi + 1.5
    raise ValueError(cls)


def scalar_task(states):
    warnings.filterwarnings("ignore")
    import torch

    torch.set_num_threads(1)
    from nflows.transforms import nonlinearities as NL
    from nflows.transforms import base as TB
    from nflows.transforms.base import InputOutsideDomain

    objs = {
        "Exp.inverse": (NL.Exp(), "inverse"), "Tanh.inverse": (NL.Tanh(), "inverse"), "Sigmoid.inverse": (NL.Sigmoid(temperature=0.7), "inverse"),
        "Logit.forward": (NL.Logit(temperature=1.3), "forward"), "CauchyCDF.inverse": (NL.CauchyCDF(), "inverse"), "CauchyCDFInverse.forward": (NL.CauchyCDFInverse(), "forward"),
    }
    out = {"n": 0, "fails": []}
    for st in states:
        t, cls = st["tr"], str(st["cls"])
        name = str(t["name"])
        obj, meth = objs[name]
        mode, via = str(st["mode"]), str(st["via"])
        obj.train(mode == "train")
        if via == "composite":
            obj = TB.CompositeTransform([obj])
        elif via == "inverse":
            obj, meth = TB.InverseTransform(obj), ("forward" if meth == "inverse" else "inverse")
        if via != "direct":
            obj.train(mode == "train")
        for dtn in ("float32", "float64"):
            dt = getattr(torch, dtn)
            v = concrete(torch, t, cls, dt)
            inside = concrete(torch, t, "inside", dt)
            rows = int(st["batch"])
            x = torch.full((rows, 3), inside, dtype=dt)
            x.view(-1)[int(st["pos"]) - 1 + (rows - 1) * 3 * (1 if int(st["pos"]) == 3 else 0) * 0] = v
            out["n"] += 1
            case = {"kind": "scalar", "transform": name, "cls": cls, "value": repr(v), "dtype": dtn, "batch": rows, "pos": int(st["pos"]), "mode": mode, "via": via}
            try:
                y, lad = getattr(obj, meth)(x)
                got = "Value"
            except InputOutsideDomain:
                got = "InputOutsideDomain"
            except Exception as e:  # noqa
                got = "Crash:%r" % (e,)
            want = str(st["outcome"])
            # the float actually stored may coincide with the end point (e.g. lo - tiny == lo in this dtype)
            stored = float(x.view(-1)[int(st["pos"]) - 1])
            lo = float(t["lo"])
            hi = float("inf") if str(t["hi"]) == "inf" else float(t["hi"])
            if stored == lo and cls != "at_lo":
                want = "Value" if bool(t["loClosed"]) else "InputOutsideDomain"
            if stored == hi and cls != "at_hi":
                want = "Value" if bool(t["hiClosed"]) else "InputOutsideDomain"
            if got != want:
                clause = "out_of_domain_accepted" if want == "InputOutsideDomain" and got == "Value" else "in_domain_rejected" if got == "InputOutsideDomain" else "wrong_error"
                out["fails"].append(dict(case, clause=clause, detail="%s on %s (%s, %s, batch of %d rows, %s mode, called %s): %s, specified %s" % (name, repr(stored), cls, dtn, rows, mode, via, got[:120], want)))
            elif got == "Value" and not bool(torch.isfinite(y).all() and torch.isfinite(lad).all()):
                out["fails"].append(dict(case, clause="in_domain_nonfinite", detail="%s on in-domain input %s (%s, %s) returns non-finite values %s / %s" % (name, repr(stored), cls, dtn, y.view(-1)[:3].tolist(), lad.tolist()[:2])))
    return out


def large_bounds():
    """Spline transforms with large tail bounds / boxes: inputs exactly on the bound (the lattice covers
    tail bounds up to 64)."""
    warnings.filterwarnings("ignore")
    import torch
    from nflows.transforms import nonlinearities as NL
    from nflows.transforms.base import InputOutsideDomain

    fails, n = [], 0
    # large bounds, and bounds that are not representable in float32 (0.7, 3.3, ...)
    for B in (31.0, 32.0, 1e3, 1e4, 0.7, 3.3, 17.3, 1000.1):
        for nm, cls in (("Linear", NL.PiecewiseLinearCDF), ("Quadratic", NL.PiecewiseQuadraticCDF), ("Cubic", NL.PiecewiseCubicCDF), ("RQ", NL.PiecewiseRationalQuadraticCDF)):
            for dtn in ("float32", "float64"):
                dt = getattr(torch, dtn)
                torch.manual_seed(0)
                m = cls([2], num_bins=3, tails="linear", tail_bound=B).to(dt)
                x = torch.tensor([[B, -B], [0.5 * B, float(torch.nextafter(torch.tensor(B, dtype=dt), torch.tensor(0.0, dtype=dt)))], [2 * B, -3 * B]], dtype=dt)
                for meth in ("forward", "inverse"):
                    n += 1
                    case = {"kind": "large_bound", "family": nm, "bound": B, "dtype": dtn, "dir": meth}
                    try:
                        y, lad = getattr(m, meth)(x)
                        if not bool(torch.isfinite(y).all() and torch.isfinite(lad).all()):
                            fails.append(dict(case, clause="in_domain_nonfinite", detail="Piecewise%sCDF(tail_bound=%s).%s on inputs on the bound returns non-finite values (%s)" % (nm, B, meth, dtn)))
                    except Exception as e:  # noqa
                        fails.append(dict(case, clause="in_domain_crash", detail="Piecewise%sCDF(tail_bound=%s).%s with an input exactly on the bound raises %r (%s)" % (nm, B, meth, e, dtn)))
    # bounded splines on a box whose limits are not float32-representable, inputs exactly on the limits
    from nflows.transforms import splines

    L, R_, Bo, To = -2.3, 4.1, 0.1, 0.7
    for dtn in ("float32", "float64"):
        dt = getattr(torch, dtn)
        lim = lambda v: float(torch.tensor(v, dtype=dt))
        z = lambda k: torch.zeros(3, k, dtype=dt)
        calls = {
            "Linear": lambda x, inv: splines.linear_spline(x, z(3), inverse=inv, left=L, right=R_, bottom=Bo, top=To),
            "Quadratic": lambda x, inv: splines.quadratic_spline(x, z(3), z(4), inverse=inv, left=L, right=R_, bottom=Bo, top=To),
            "Cubic": lambda x, inv: splines.cubic_spline(x, z(3), z(3), z(1), z(1), inverse=inv, left=L, right=R_, bottom=Bo, top=To),
            "RQ": lambda x, inv: splines.rational_quadratic_spline(x, z(3), z(3), z(4), inverse=inv, left=L, right=R_, bottom=Bo, top=To),
        }
        for nm, fn in calls.items():
            for inv in (False, True):
                lo, hi = (Bo, To) if inv else (L, R_)
                # the limits as the caller has them in this dtype (never outside the python-float box)
                a = lim(lo) if lim(lo) >= lo else float(torch.nextafter(torch.tensor(lo, dtype=dt), torch.tensor(float("inf"), dtype=dt)))
                b = lim(hi) if lim(hi) <= hi else float(torch.nextafter(torch.tensor(hi, dtype=dt), torch.tensor(-float("inf"), dtype=dt)))
                x = torch.tensor([a, b, 0.5 * (lo + hi)], dtype=dt)
                n += 1
                case = {"kind": "large_bound", "family": nm, "bound": "box[%s,%s]->[%s,%s]" % (L, R_, Bo, To), "dtype": dtn, "dir": "inverse" if inv else "forward"}
                try:
                    y, lad = fn(x, inv)
                    if not bool(torch.isfinite(y).all() and torch.isfinite(lad).all()):
                        fails.append(dict(case, clause="in_domain_nonfinite", detail="%s spline on box limits returns non-finite values (%s, %s)" % (nm, case["dir"], dtn)))
                except Exception as e:  # noqa
                    fails.append(dict(case, clause="in_domain_rejected" if type(e).__name__ == "InputOutsideDomain" else "in_domain_crash", detail="%s spline %s on inputs exactly on the limits of box [%s, %s] -> [%s, %s] raises %r (%s)" % (nm, case["dir"], L, R_, Bo, To, e, dtn)))
    return n, fails


def zoo_domain_task(names):
    """Transforms whose documented domain is the whole real line (everything in the zoo that is not flagged
    as living on the unit box) accept every finite input, near and far - through every wrapper that builds
    them (coupling layers with an unconditional transform, autoregressive layers, CDF layers with tails)."""
    warnings.filterwarnings("ignore")
    import torch

    torch.set_num_threads(1)
    from nflows.transforms.base import InputOutsideDomain
    from vcore import zoo

    Z = zoo.by_name()
    out = {"n": 0, "fails": []}
    for name in names:
        e = Z[name]
        try:
            m = zoo.prepare(e, e.build(0), 0)
            m.eval()
        except Exception:  # noqa
            continue
        x, c = e.x(5, 0), e.ctx(5, 0)
        for label, xin in (("generic", x), ("x 6", x * 6.0), ("offset -40", x - 40.0), ("offset +40", x + 40.0)):
            out["n"] += 1
            try:
                with torch.no_grad():
                    m.forward(xin, c) if c is not None else m.forward(xin)
            except InputOutsideDomain:
                out["fails"].append({"kind": "zoo_domain", "transform": name, "inputs": label, "clause": "in_domain_rejected", "dtype": "float32", "detail": "%s is defined on the whole real line but forward raises InputOutsideDomain on %s inputs (max |x| = %.3g)" % (name, label, float(xin.abs().max()))})
                break
            except Exception:  # noqa  (other failures are other properties' business)
                pass
    return out


def bounded_layer_cases():
    """The unit-box splines as the layers build them (coupling and autoregressive layers with tails=None): a value
    outside [0, 1] at a TRANSFORMED position is out of domain and must be rejected in either direction, in
    training and evaluation mode, with and without autograd recording; the end points and interior values
    (whatever the identity features hold) must be accepted with finite results."""
    warnings.filterwarnings("ignore")
    import torch
    from nflows import transforms as TR
    from nflows.nn import nets
    from nflows.transforms.base import InputOutsideDomain

    def net(i, o):
        return nets.ResidualNet(i, o, hidden_features=6, num_blocks=1)

    builders = {}
    for fam in ("Linear", "Quadratic", "Cubic", "RationalQuadratic"):
        builders["Piecewise%sCouplingTransform" % fam] = (lambda fam=fam: getattr(TR, "Piecewise%sCouplingTransform" % fam)([1, -1, 1], net, num_bins=4), [0, 2])
    builders["MaskedPiecewiseLinearAutoregressiveTransform"] = (lambda: TR.MaskedPiecewiseLinearAutoregressiveTransform(4, 3, 6, num_blocks=1), [0, 1, 2])
    builders["MaskedPiecewiseQuadraticAutoregressiveTransform"] = (lambda: TR.MaskedPiecewiseQuadraticAutoregressiveTransform(3, 6, num_bins=4, num_blocks=1), [0, 1, 2])
    builders["MaskedPiecewiseCubicAutoregressiveTransform"] = (lambda: TR.MaskedPiecewiseCubicAutoregressiveTransform(4, 3, 6, num_blocks=1), [0, 1, 2])
    builders["MaskedPiecewiseRationalQuadraticAutoregressiveTransform"] = (lambda: TR.MaskedPiecewiseRationalQuadraticAutoregressiveTransform(3, 6, num_bins=4, num_blocks=1), [0, 1, 2])
    n, fails = 0, []
    for name, (build, tpos) in builders.items():
        torch.manual_seed(5)
        try:
            m = build()
        except Exception:  # noqa
            continue
        for mode in ("eval", "train"):
            m.train(mode == "train")
            for grad in (True, False):
                for direction in ("forward", "inverse"):
                    for label, v, want in (("1.5", 1.5, "out"), ("-0.25", -0.25, "out"), ("1.001", 1.001, "out"), ("-1e-3", -1e-3, "out"), ("0.0", 0.0, "in"), ("1.0", 1.0, "in"), ("0.37", 0.37, "in")):
                        for pos in (tpos[0], tpos[-1]):
                            x = torch.tensor([[0.3, 0.6, 0.45], [0.5, 0.2, 0.7], [0.8, 0.4, 0.1]])
                            x[1, pos] = v
                            n += 1
                            try:
                                with torch.set_grad_enabled(grad):
                                    y, lad = getattr(m, direction)(x)
                                got = "Value" if bool(torch.isfinite(y).all()) and bool(torch.isfinite(lad).all()) else "NonFinite"
                            except InputOutsideDomain:
                                got = "InputOutsideDomain"
                            except Exception as e:  # noqa
                                got = "Crash:" + type(e).__name__
                            ok = (got == "InputOutsideDomain") if want == "out" else (got == "Value")
                            if not ok:
                                # the inverse of an autoregressive layer evaluates later features on partially inverted rows;
                                # an end point may legitimately round across the box there, so only the forward direction and
                                # the first transformed position are binding for end points
                                if want == "in" and label in ("0.0", "1.0") and (direction == "inverse" or pos != tpos[0]) and got == "InputOutsideDomain":
                                    continue
                                fails.append({"kind": "bounded_layer", "transform": name, "cls": label, "dir": direction, "mode": mode, "grad": grad, "pos": pos, "dtype": "float32",
                                              "clause": "out_of_domain_accepted" if want == "out" and got == "Value" else ("in_domain_rejected" if want == "in" else "wrong_failure"),
                                              "detail": "%s.%s (tails=None, %s mode, autograd %s): value %s at transformed position %d -> %s, specified %s" % (name, direction, mode, "on" if grad else "off", label, pos, got, "InputOutsideDomain" if want == "out" else "a finite value")})
    return n, fails


def mixed_precision_cases():
    """Bounded CDF layers (single-precision parameters, as constructed) given double-precision data that lies outside
    the unit box by less than single precision resolves: the value IS outside, it must be rejected - whether
    the layer computes in the data's precision or in its own."""
    warnings.filterwarnings("ignore")
    import torch
    from nflows.transforms import nonlinearities as NL
    from nflows.transforms.base import InputOutsideDomain

    n, fails = 0, []
    for fam in ("Linear", "Quadratic", "Cubic", "RationalQuadratic"):
        torch.manual_seed(3)
        try:
            m = getattr(NL, "Piecewise%sCDF" % fam)([2], num_bins=4)
        except Exception:  # noqa
            continue
        m.eval()
        for label, v in (("1 + 1e-9", 1.0 + 1e-9), ("1 + 2e-8", 1.0 + 2e-8), ("-1e-12", -1e-12), ("-1e-60", -1e-60)):
            for direction in ("forward", "inverse"):
                x = torch.tensor([[0.3, 0.6], [0.5, v]], dtype=torch.float64)
                n += 1
                try:
                    with torch.no_grad():
                        y, _ = getattr(m, direction)(x)
                    got = "Value"
                except InputOutsideDomain:
                    got = "InputOutsideDomain"
                except Exception:  # noqa  (a layer may refuse mixed precision altogether: that is a rejection too)
                    got = "other_error"
                if got == "Value":
                    fails.append({"kind": "mixed_precision", "transform": "Piecewise%sCDF" % fam, "clause": "out_of_domain_accepted", "dtype": "float64 data / float32 layer", "cls": label, "dir": direction, "detail": "Piecewise%sCDF.%s (unit box, float32 parameters) accepts the float64 input %s and returns %s" % (fam, direction, label, y[1].tolist())})
    return n, fails


def main(run, replay=None):
    run.rule = (
        "cases = spline lattice points (in-domain, on the end points, outside) of every parameter set in both directions, "
        "scalar-domain states (transform x input class x batch position x train/eval mode x direct / composite / inverse-wrapper call) in float32 and float64, and large tail bounds; "
        "non-trivial = distinct spline parameter sets and scalar states that probe a boundary class"
    )
    if replay:
        c = replay["case"]
        if c.get("kind") == "spline":
            return splinerun.replay_spline(run, "C17", c)
        if c.get("kind") == "zoo_domain":
            for f in zoo_domain_task([c["transform"]])["fails"]:
                run.violation({"kind": "zoo_domain", "clause": f["clause"], "transform": f["transform"]}, "replayed: " + f["detail"], c)
            return
        if c.get("kind") == "mixed_precision":
            for f in mixed_precision_cases()[1]:
                if (f["transform"], f["cls"], f["dir"]) == (c["transform"], c["cls"], c["dir"]):
                    run.violation({"kind": "mixed_precision", "clause": f["clause"], "transform": f["transform"]}, "replayed: " + f["detail"], c)
            return
        if c.get("kind") == "bounded_layer":
            for f in bounded_layer_cases()[1]:
                if all(f[k] == c[k] for k in ("transform", "cls", "dir", "mode", "grad", "pos")):
                    run.violation({"kind": "bounded_layer", "clause": f["clause"], "transform": f["transform"]}, "replayed: " + f["detail"], c)
            return
        if c.get("kind") == "large_bound":
            n, fails = large_bounds()
            for f in fails:
                if all(f[k] == c[k] for k in ("family", "bound", "dtype", "dir")):
                    run.violation({"kind": "large_bound", "clause": f["clause"]}, "replayed: " + f["detail"], c)
            return
        res = T.run_tlc("Scalar", T.cfg(), dump=True, coverage=False, workers=2)
        sts = [s for s in parse_dump(res.dump) if str(s["tr"]["name"]) == c["transform"] and str(s["cls"]) == c["cls"] and int(s["batch"]) == c["batch"] and int(s["pos"]) == c["pos"] and str(s["mode"]) == c.get("mode", "train") and str(s["via"]) == c.get("via", "direct")]
        for f in scalar_task(sts)["fails"]:
            if f["dtype"] == c["dtype"]:
                run.violation({"kind": "scalar", "clause": f["clause"]}, "replayed: " + f["detail"], c)
        return
    thorough = run.tier == "thorough"
    splinerun.run_lattice(run, "C17", thorough)
    res = T.run_tlc("Scalar", T.cfg(invariants=["InDomainAccepted", "OutOfDomainRejected", "EndPointsFollowClosedness"]), dump=True, name="scalar", workers=2)
    run.model_must_hold(res, "Scalar")
    run.add_tlc(res, "Scalar domains")
    states = parse_dump(res.dump)
    fails = []
    for out in pmap(scalar_task, [states[i::8] for i in range(8)], 8):
        run.evaluations += out["n"]
        fails += out["fails"]
    n, lf = large_bounds()
    run.evaluations += n
    fails += lf
    n, lf = mixed_precision_cases()
    run.evaluations += n
    fails += lf
    n, lf = bounded_layer_cases()
    run.evaluations += n
    fails += lf
    from vcore import zoo as _z

    znames = [e.name for e in _z.entries() if e.kind == "transform" and not e.has("bounded01") and not e.has("discrete") and not e.has("umnn") and e.name not in ("Logit", "Logit/eps", "CauchyCDFInverse")]
    for out in pmap(zoo_domain_task, [znames[i::8] for i in range(8)], 8):
        run.evaluations += out["n"]
        fails += out["fails"]
    for s in states:
        if str(s["cls"]) != "inside":
            run.nontrivial.add((str(s["tr"]["name"]), str(s["cls"]), int(s["batch"]), int(s["pos"]), str(s["mode"]), str(s["via"])))
    run.sample({"scalar_state": {"transform": "Tanh.inverse", "class": "at_hi", "specified": "InputOutsideDomain (open interval)"}})
    seen = set()
    for f in fails:
        key = (f["kind"], f.get("transform"), f.get("family"), f.get("bound"), f.get("cls") if f["kind"] != "bounded_layer" else None, f["clause"], f["dtype"], f.get("mode"), f.get("via"))
        if key in seen:
            continue
        seen.add(key)
        run.violation({"kind": f["kind"], "clause": f["clause"], "transform": f.get("transform"), "family": f.get("family")}, f["detail"], {k: v for k, v in f.items() if k != "detail"})
    run.exhaustive = True
    run.assumptions = [
        "float facts used by the model: x + 1e-6 == x iff ulp(x)/2 > 1e-6 (float32: x >= 32)",
        "domains as documented by the raise conditions of the pinned tree (Exp and Tanh inverses: open; Sigmoid / Logit / CauchyCDF: closed, clamped by eps)",
    ]
