"""C05 - base distributions are normalised, sample their own density and report true means.

(S) TLC: spec/Dist.tla - exact Bernoulli masses over {0,1}^D (rational sums = 1), mixture weights, the
    MG1 matrices (A A^-1 = I, |det| = 1), the number of 1/2 log(2 pi) and log-sigma terms of the Gaussian
    family per event shape, the kernel-density normaliser, and the enumeration of cases.
(R) every case on the real classes: exact summation for the Bernoulli, the symbolic Gaussian log-density
    (units from the specification) at random points, composite Gauss-Legendre quadrature of exp(log_prob) in
    one and two dimensions (the method the property prescribes) for Gaussians, the MADE mixture per context
    row, the kernel-density evaluator, the box priors (volume x density) and the 4-dimensional truncated
    prior; mean() shape and value; samplers as deterministic functions of a harness-controlled stream.
"""
from __future__ import annotations

import math
import warnings

from vcore import tlc as T
from vcore.pool import pmap
from vcore.tlaval import parse_dump, rat

HL2P = 0.5 * math.log(2 * math.pi)


def mog_sigma_fails(torch, dd):
    """One mixture component: feature D is N(mu, sigma) given the others.  The density's mu and sigma are read
    off its gradient / curvature in x_D; the sampler under the constant stream z = 1 must return mu + sigma
    (also for narrow components and a non-default floor).  Returns failure messages."""
    import copy as _copy

    from nflows.nn.nde.made import MixtureOfGaussiansMADE

    msgs = []
    for narrow, eps_ in ((None, 1e-2), (-6.0, 1e-2), (None, 0.5)):
        torch.manual_seed(7 + dd)
        net = MixtureOfGaussiansMADE(features=dd, hidden_features=8, context_features=None, num_blocks=1, num_mixture_components=1, epsilon=eps_)
        if narrow is not None:
            with torch.no_grad():
                net.final_layer.bias[2::3] = narrow
                net.final_layer.weight[2::3] *= 0.0
        net.eval()
        orig_r = torch.randn
        torch.randn = lambda *size, **kw: torch.ones(*size)
        try:
            xs = net.sample(2)
        finally:
            torch.randn = orig_r
        xq = xs.clone().double().requires_grad_(True)
        netd = _copy.deepcopy(net).double()
        lp = netd.log_prob(xq).sum()
        (g1,) = torch.autograd.grad(lp, xq, create_graph=True)
        g2 = torch.autograd.grad(g1[:, dd - 1].sum(), xq)[0][:, dd - 1]
        sig = (-1.0 / g2).sqrt()
        mu = xq[:, dd - 1].detach() + sig ** 2 * g1[:, dd - 1].detach()
        err = float((xs[:, dd - 1].double() - (mu + sig)).abs().max() / sig.min())
        if not err < 1e-3:
            msgs.append("MixtureOfGaussiansMADE(features=%d, 1 component, epsilon=%g%s): under the stream z = 1 the sampler returns mu + %.4g sigma of the density's component (density sigma %.4g)" % (dd, eps_, ", narrow component" if narrow else "", 1.0 + float(((xs[:, dd - 1].double() - mu - sig) / sig)[0]), float(sig[0])))
    return msgs


def case_task(states):
    warnings.filterwarnings("ignore")
    import torch

    torch.set_num_threads(1)
    from nflows import distributions as D
    from nflows.distributions import uniform as U
    from nflows.distributions.mixture import MADEMoG
    from nflows.utils import torchutils
    from vcore.quad import integrate

    out = {"n": 0, "fails": []}
    for st in states:
        cls, par, facts = str(st["cls"]), st["par"], st["facts"]
        out["n"] += 1
        case = {"cls": cls, "par": {k: str(v) for k, v in par.items()}}

        def fail(clause, detail):
            out["fails"].append(dict(case, clause=clause, detail=detail))

        try:
            if cls == "Bernoulli":
                p = [float(rat(v)) for v in par["p"]]
                n = len(p)
                d = D.ConditionalIndependentBernoulli([n])
                ctx = torch.tensor([[math.log(q / (1 - q)) for q in p]], dtype=torch.float64)
                xs = torch.tensor([[(i >> k) & 1 for k in range(n)] for i in range(2 ** n)], dtype=torch.float64)
                lp = d.log_prob(xs, ctx.expand(2 ** n, n))
                tot = float(torch.exp(lp).sum())
                if abs(tot - 1.0) > 1e-9:
                    fail("not_normalised", "Bernoulli p=%s: masses over {0,1}^%d sum to %.12g" % (p, n, tot))
                exp = torch.tensor([math.prod(q if b else 1 - q for q, b in zip(p, row)) for row in xs.tolist()], dtype=torch.float64)
                if not torch.allclose(torch.exp(lp), exp, atol=1e-12):
                    fail("density", "Bernoulli p=%s: masses %s differ from prod p^x (1-p)^(1-x)" % (p, torch.exp(lp).tolist()))
                # the same lattice far out on the logit scale (saturated units, single and double precision):
                # the masses still sum to one and every one of them is a number
                for dt_, big in ((torch.float32, 20.0), (torch.float32, 60.0), (torch.float64, 45.0)):
                    sat = torch.tensor([[big * (1.0 if q >= 0.5 else -1.0) * (1 + 0.1 * k) for k, q in enumerate(p)]], dtype=dt_)
                    lps = d.log_prob(xs.to(dt_), sat.expand(2 ** n, n))
                    tot_s = float(torch.exp(lps.double()).sum())
                    if not bool(torch.isnan(lps).logical_not().all()) or abs(tot_s - 1.0) > 1e-5:
                        fail("not_normalised", "Bernoulli with logits %s (%s): log-masses %s sum to %s" % (sat.tolist()[0], str(dt_).split(".")[-1], lps.tolist()[:4], tot_s))
                        break
                mu = d.mean(ctx)
                if tuple(mu.shape) != (1, n) or not torch.allclose(mu, torch.tensor([p], dtype=torch.float64), atol=1e-12):
                    fail("mean", "Bernoulli mean %s for p=%s" % (mu.tolist(), p))
                # sampler as a function of the uniform stream
                orig = torch.rand
                torch.rand = lambda *size, **kw: torch.linspace(0.01, 0.99, math.prod(size)).reshape(*size)
                try:
                    s = d.sample(4, ctx)
                finally:
                    torch.rand = orig
                noise = torch.linspace(0.01, 0.99, 4 * n).reshape(1, 4, n)
                if tuple(s.shape) != (1, 4, n) or not torch.equal(s, (noise < torch.tensor(p)).to(s.dtype)):
                    fail("sampler", "Bernoulli sample is not (u < p) for the controlled uniform stream")
            elif cls == "Gaussian":
                shape = [int(v) for v in par["shape"]]
                units = int(facts["units"])
                rows = int(par["rows"])
                g = torch.Generator().manual_seed(units + rows)
                nel = math.prod(shape)
                mu = torch.randn(rows, *shape, generator=g, dtype=torch.float64)
                ls = 0.5 * torch.randn(rows, *shape, generator=g, dtype=torch.float64)
                if rows >= 2:
                    ls.view(rows, -1)[1, 0] = -8.0    # a very confident coordinate (std 3.4e-4)
                    ls.view(rows, -1)[1, -1] = 2.0
                x = mu + torch.exp(ls) * torch.randn(rows, *shape, generator=g, dtype=torch.float64)
                models = []
                if bool(par["conditional"]):
                    d = D.ConditionalDiagonalNormal(shape)
                    ctx = torch.cat([mu.reshape(rows, -1), ls.reshape(rows, -1)], dim=1)
                    models.append(("ConditionalDiagonalNormal", d, ctx, mu, ls))
                    if len(shape) >= 2:
                        # structured context: parameters split along the LAST axis of an encoder output that
                        # keeps the event's leading dimensions ([rows, 2, 2*3] for event shape [2, 3])
                        models.append(("ConditionalDiagonalNormal/structured-context", D.ConditionalDiagonalNormal(shape), torch.cat([mu, ls], dim=-1), mu, ls))
                else:
                    z = torch.zeros(rows, *shape, dtype=torch.float64)
                    models.append(("StandardNormal", D.StandardNormal(shape), None, z, z))
                    dn = D.DiagonalNormal(shape).double()
                    with torch.no_grad():
                        dn.mean_.copy_(mu[:1].reshape(dn.mean_.shape))
                        dn.log_std_.copy_(ls[:1].reshape(dn.log_std_.shape))
                    models.append(("DiagonalNormal", dn, None, mu[:1].expand_as(mu), ls[:1].expand_as(ls)))
                for name, d, ctx, m_, l_ in models:
                    if name == "DiagonalNormal":
                        # history: another parameter set, evaluation mode, used; then these parameters arrive
                        # through load_state_dict (rows odd: written in place) while still in evaluation mode
                        want_sd = {k: v.clone() for k, v in d.state_dict().items()}
                        with torch.no_grad():
                            d.mean_.add_(0.7)
                            d.log_std_.add_(1.1)
                        d.eval()
                        d.log_prob(x)
                        if rows % 2 == 0:
                            d.load_state_dict(want_sd)
                        else:
                            with torch.no_grad():
                                d.mean_.copy_(want_sd["mean_"])
                                d.log_std_.copy_(want_sd["log_std_"])
                    lp = d.log_prob(x, ctx) if ctx is not None else d.log_prob(x)
                    exp = (-0.5 * ((x - m_) / torch.exp(l_)) ** 2).reshape(rows, -1).sum(1) - l_.reshape(rows, -1).sum(1) - units * HL2P
                    if tuple(lp.shape) != (rows,) or not torch.allclose(lp.double(), exp, atol=1e-9):
                        fail("density", "%s%s: log_prob %s, -1/2|z|^2 - sum(log sigma) - %d * 1/2 log(2 pi) = %s" % (name, shape, lp.tolist(), units, exp.tolist()))
                    mean = d.mean(ctx) if ctx is not None else d.mean()
                    want = m_ if ctx is not None else m_[0]
                    if not torch.is_tensor(mean) or tuple(mean.shape) != tuple(want.shape) or not torch.allclose(mean.double(), want, atol=1e-9):
                        fail("mean", "%s%s: mean() returns %s, expected a tensor of shape %s equal to the location" % (name, shape, (tuple(mean.shape) if torch.is_tensor(mean) else type(mean).__name__), tuple(want.shape)))
                    if ctx is not None:
                        # the sampler as a function of a controlled normal stream: draw (i, j) must be
                        # mean_i + std_i * z_ij (each row with its OWN location and scale)
                        orig = torch.randn
                        torch.randn = lambda *size, **kw: (torch.arange(math.prod(size[0] if len(size) == 1 and isinstance(size[0], (tuple, list)) else size), dtype=torch.float64) * 0.25 - 1.0).reshape(*(size[0] if len(size) == 1 and isinstance(size[0], (tuple, list)) else size))
                        try:
                            smp = d.sample(3, ctx)
                        finally:
                            torch.randn = orig
                        z = (torch.arange(rows * 3 * nel, dtype=torch.float64) * 0.25 - 1.0).reshape(rows, 3, *shape)
                        want_s = m_.unsqueeze(1) + torch.exp(l_).unsqueeze(1) * z
                        if tuple(smp.shape) != tuple(want_s.shape) or not torch.allclose(smp.double(), want_s, atol=1e-9):
                            fail("sampler", "%s%s: sample(3, %d context rows) is not mean_i + std_i * z with the controlled normal stream (max diff %.3g)" % (name, shape, rows, float((smp.double() - want_s).abs().max()) if tuple(smp.shape) == tuple(want_s.shape) else -1))
                        # the same through batched generation (sample(n, context, batch_size)): every draw,
                        # standardised with ITS OWN row's location and scale, must be a value of the stream
                        torch.randn = lambda *size, **kw: (torch.arange(math.prod(size[0] if len(size) == 1 and isinstance(size[0], (tuple, list)) else size), dtype=torch.float64) * 0.25 - 1.0).reshape(*(size[0] if len(size) == 1 and isinstance(size[0], (tuple, list)) else size))
                        try:
                            smp_b = d.sample(4, ctx, batch_size=3)
                        finally:
                            torch.randn = orig
                        if tuple(smp_b.shape) == (rows, 4) + tuple(shape):
                            zz = (smp_b.double() - m_.unsqueeze(1)) / torch.exp(l_).unsqueeze(1) * 4.0
                            off = float((zz - torch.round(zz)).abs().max())
                            if off > 1e-6 * (1.0 + float(zz.abs().max())):
                                fail("sampler", "%s%s: sample(4, %d context rows, batch_size=3): a draw listed under a row is not mean_row + std_row * z for any z of the controlled stream (off by %.3g lattice units) - it was generated under another row's parameters" % (name, shape, rows, off))
                    if nel <= 2:
                        for r in range(rows if ctx is not None else 1):
                            bounds = [(float(m_[r].reshape(-1)[k]) - 12 * math.exp(float(l_[r].reshape(-1)[k])), float(m_[r].reshape(-1)[k]) + 12 * math.exp(float(l_[r].reshape(-1)[k]))) for k in range(nel)]
                            f = (lambda q, r=r: d.log_prob(q.reshape(-1, *shape), ctx[r : r + 1].expand(q.shape[0], *ctx.shape[1:]))) if ctx is not None else (lambda q: d.log_prob(q.reshape(-1, *shape)))
                            tot = integrate(f, bounds, panels=24, order=12)
                            if abs(tot - 1.0) > 1e-5:
                                fail("not_normalised", "%s%s: exp(log_prob) integrates to %.8f" % (name, shape, tot))
            elif cls == "MG1":
                low, high = torch.tensor([0.0, 0.0, 0.0]), torch.tensor([10.0, 10.0, 1.0 / 3.0])
                d = U.MG1Uniform(low=low, high=high)
                torch.manual_seed(0)
                s = d.sample((64,))
                lp = d.log_prob(s)
                vol = float(torch.prod(high - low))  # |det A_inv| = 1 (Dist.tla)
                mass = torch.exp(lp.sum(-1) if lp.dim() > 1 else lp) * vol
                if not torch.allclose(mass, torch.ones_like(mass), atol=1e-5):
                    fail("not_normalised", "MG1Uniform: density x volume = %s" % mass[:4].tolist())
                if not torch.allclose(d._to_parameters(d._to_noise(s)), s, atol=1e-5):
                    fail("sampler", "MG1Uniform: _to_parameters(_to_noise(x)) != x")
                noise = d._to_noise(s)
                if bool((noise < low - 1e-5).any() or (noise > high + 1e-5).any()):
                    fail("sampler", "MG1Uniform samples map to noise outside the box")
            elif cls == "KDE":
                n, dd = int(par["n"]), int(par["d"])
                g = torch.Generator().manual_seed(n * 7 + dd)
                smp = torch.randn(n, dd, generator=g, dtype=torch.float64)
                std = n ** (-1.0 / (dd + 4))
                bounds = [(float(smp[:, k].min()) - 10 * std, float(smp[:, k].max()) + 10 * std) for k in range(dd)]
                tot = integrate(lambda q: torchutils.gaussian_kde_log_eval(smp, q[:, None, :]), bounds, panels=32, order=12)
                if abs(tot - 1.0) > 1e-5:
                    fail("not_normalised", "gaussian_kde_log_eval with %d centres in %d dimension(s) integrates to %.8f" % (n, dd, tot))
                q = torch.randn(3, dd, generator=g, dtype=torch.float64)
                ref = torch.logsumexp(-0.5 * ((q[:, None, :] - smp[None]) ** 2).sum(-1) / std ** 2 - math.log(n) - dd * HL2P - dd * math.log(std), dim=1)
                got = torchutils.gaussian_kde_log_eval(smp, q[:, None, :])
                if not torch.allclose(got, ref, atol=1e-9):
                    fail("density", "gaussian_kde_log_eval (%d centres, %d dims): %s vs the mixture of %d-unit Gaussians %s" % (n, dd, got.tolist(), dd, ref.tolist()))
            elif cls == "MoG3":
                k, arch, draw = int(par["k"]), str(par["arch"]), int(par["draw"])
                torch.manual_seed(100 * draw + k)      # the random masks are drawn from the global generator
                m = MADEMoG(3, 12, None, num_blocks=2, num_mixture_components=k, use_residual_blocks=(arch == "residual"), random_mask=(arch == "feedforward_random")).double()
                g = torch.Generator().manual_seed(5 + draw)
                with torch.no_grad():
                    for p_ in m.parameters():
                        p_.add_(0.15 * torch.randn(p_.shape, generator=g, dtype=torch.float64))
                m.eval()
                # product trapezoid rule with step 0.1 on [-9, 9]^3, and the same with step 0.2 (every second node):
                # for components wider than the step both are exact to many digits; if they disagree the density is
                # too narrow somewhere for this grid and there is no verdict
                ax = torch.linspace(-9.0, 9.0, 181, dtype=torch.float64)
                fine = coarse = 0.0
                with torch.no_grad():
                    gy, gz = torch.meshgrid(ax, ax, indexing="ij")
                    for i0, x0 in enumerate(ax):
                        q = torch.stack([x0.expand_as(gy), gy, gz], dim=-1).reshape(-1, 3)
                        dens = torch.exp(m.log_prob(q)).reshape(181, 181)
                        fine += float(dens.sum()) * 0.1 ** 3
                        if i0 % 2 == 0:
                            coarse += float(dens[::2, ::2].sum()) * 0.2 ** 3
                if abs(fine - coarse) > 2e-4:
                    out["skipped"] = out.get("skipped", 0) + 1
                elif abs(fine - 1.0) > 2e-3:
                    fail("not_normalised", "MADEMoG(features=3, components=%d, %s blocks, mask draw %d): exp(log_prob) integrates to %.6f over R^3" % (k, arch, draw, fine))
            elif cls == "MoG":
                dd, k, rows = int(par["d"]), int(par["k"]), int(par["rows"])
                torch.manual_seed(dd * 10 + k)
                m = MADEMoG(dd, 8, 2 if rows else None, num_blocks=1, num_mixture_components=k).double()
                g = torch.Generator().manual_seed(5)
                with torch.no_grad():
                    for p_ in m.parameters():
                        p_.add_(0.3 * torch.randn(p_.shape, generator=g, dtype=torch.float64))
                m.eval()
                ctxs = torch.randn(rows, 2, generator=g, dtype=torch.float64) if rows else [None]
                if k >= 2:
                    # ancestral sampling: the component of feature f must be drawn with the mixture weights the
                    # density uses (softmax of the logits given the features sampled so far)
                    import torch.distributions as TD

                    seen = []
                    orig_cat = TD.Categorical

                    class Spy(orig_cat):
                        def __init__(self, *a, **kw):
                            super().__init__(*a, **kw)
                            seen.append(self.probs.detach().clone())

                    import nflows.nn.nde.made as nde_made

                    nde_made.distributions.Categorical = Spy
                    import copy

                    m32 = copy.deepcopy(m).float()   # the sampler allocates float32 tensors
                    c32 = ctxs.float() if rows else None
                    try:
                        with torch.no_grad():
                            smp = m32.sample(3, c32) if rows else m32.sample(3)
                    finally:
                        nde_made.distributions.Categorical = orig_cat
                    flat = smp.reshape(-1, dd)
                    cflat = c32.repeat_interleave(3, dim=0) if rows else None
                    with torch.no_grad():
                        outp = m32._made.forward(flat, context=cflat).reshape(flat.shape[0], dd, k, 3)
                    want = torch.softmax(outp[..., 0], dim=-1)
                    if len(seen) != dd:
                        fail("sampler", "MADEMoG.sample built %d categorical distributions for %d features" % (len(seen), dd))
                    else:
                        for f_ in range(dd):
                            if seen[f_].shape != want[:, f_].shape or not torch.allclose(seen[f_], want[:, f_], atol=1e-5):
                                fail("sampler", "MADEMoG(features=%d, components=%d): feature %d is sampled with component probabilities %s, the density's mixture weights are %s" % (dd, k, f_, seen[f_][0].tolist(), want[0, f_].tolist()))
                                break
                if k == 1:
                    for msg in mog_sigma_fails(torch, dd):
                        fail("sampler", msg)
                if k == 2 and dd == 1 and not rows:
                    # a network with dropout, in evaluation mode: the density after sampling is the density before
                    # sampling (the one the samples follow), a function of its argument, and it integrates to one
                    torch.manual_seed(31)
                    md = MADEMoG(1, 8, None, num_blocks=1, num_mixture_components=2, dropout_probability=0.4).double()
                    md.eval()
                    qd = torch.linspace(-3.0, 3.0, 41, dtype=torch.float64).reshape(-1, 1)
                    with torch.no_grad():
                        before = md.log_prob(qd)
                        try:
                            md.float().sample(3)
                            md.double()
                        except Exception:  # noqa
                            md.double()
                        after1, after2 = md.log_prob(qd), md.log_prob(qd)
                    if not torch.equal(after1, after2) or not torch.allclose(before, after1, atol=1e-6):
                        fail("sampler", "MADEMoG with dropout, evaluation mode: log_prob after sample() differs from log_prob before it by %.3g (and between two calls by %.3g): the density is no longer the one that was sampled from" % (float((before - after1).abs().max()), float((after1 - after2).abs().max())))
                    elif any(mod.training for mod in md.modules()):
                        fail("sampler", "MADEMoG with dropout: sample() in evaluation mode leaves sub-modules in training mode")
                for r in range(max(rows, 1)):
                    c = ctxs[r : r + 1] if rows else None
                    f = (lambda q: m.log_prob(q, c.expand(q.shape[0], -1))) if rows else (lambda q: m.log_prob(q))
                    tot = integrate(f, [(-14.0, 14.0)] * dd, panels=56 if dd == 1 else 40, order=10)
                    if abs(tot - 1.0) > 2e-5:
                        fail("not_normalised", "MADEMoG(features=%d, components=%d)%s: exp(log_prob) integrates to %.8f" % (dd, k, " context row %d" % r if rows else "", tot))
            elif cls == "Box":
                d = U.BoxUniform(low=torch.tensor([-1.0, 2.0]), high=torch.tensor([3.0, 2.5]))
                x = torch.tensor([[0.0, 2.25], [2.9, 2.01], [3.5, 2.2], [0.0, 1.0]])
                lp = d.log_prob(x)
                if tuple(lp.shape) != (4,) or abs(float(torch.exp(lp[0])) * 4.0 * 0.5 - 1.0) > 1e-6 or abs(float(torch.exp(lp[1])) * 2.0 - 1.0) > 1e-6 or float(lp[2]) != -math.inf or float(lp[3]) != -math.inf:
                    fail("not_normalised", "BoxUniform log_prob %s on inside / outside points (volume 2)" % lp.tolist())
                # a batch of boxes (volumes 2 and 4), and one-dimensional boxes that are not reinterpreted:
                # every box normalises by its OWN volume
                db = U.BoxUniform(low=torch.tensor([[-1.0, 2.0], [0.0, 0.0]]), high=torch.tensor([[3.0, 2.5], [1.0, 4.0]]))
                lpb = db.log_prob(torch.tensor([[0.0, 2.25], [0.5, 1.0]]))
                if tuple(lpb.shape) != (2,) or not torch.allclose(torch.exp(lpb), torch.tensor([0.5, 0.25]), atol=1e-6):
                    fail("not_normalised", "a batch of two boxes (volumes 2 and 4): densities %s inside the boxes, expected [0.5, 0.25]" % torch.exp(lpb).tolist())
                # a double-precision box that is narrow against its offset (single precision cannot hold its bounds)
                lo64 = torch.tensor([1000.0, -1.0], dtype=torch.float64)
                hi64 = torch.tensor([1000.0001, 1.0], dtype=torch.float64)
                d64 = U.BoxUniform(low=lo64, high=hi64)
                g64 = torch.Generator().manual_seed(3)
                pts = lo64 + (hi64 - lo64) * torch.rand(64, 2, generator=g64, dtype=torch.float64)
                lp64 = d64.log_prob(pts)
                vol = float(((hi64 - lo64)).prod())
                if tuple(lp64.shape) != (64,) or not torch.allclose(torch.exp(lp64.double()) * vol, torch.ones(64, dtype=torch.float64), atol=1e-6):
                    fail("not_normalised", "BoxUniform([1000, -1], [1000.0001, 1]) in double precision: density x volume = %s on points inside the box (expected 1 everywhere)" % sorted(set(round(float(v), 4) for v in torch.exp(lp64.double()) * vol))[:4])
                torch.manual_seed(5)
                s64 = d64.sample((200,))
                if bool((s64.double() < lo64).any() or (s64.double() > hi64).any()):
                    fail("sampler", "BoxUniform([1000, -1], [1000.0001, 1]) in double precision: %d of 200 samples fall outside the box" % int(((s64.double() < lo64) | (s64.double() > hi64)).any(-1).sum()))
                if not torch.allclose(d64.mean.double(), (lo64 + hi64) / 2, atol=1e-7):
                    fail("mean", "BoxUniform([1000, -1], [1000.0001, 1]) in double precision: mean %s, centre of the box %s" % (d64.mean.tolist(), ((lo64 + hi64) / 2).tolist()))
                d0 = U.BoxUniform(low=torch.tensor([0.0, 1.0]), high=torch.tensor([2.0, 5.0]), reinterpreted_batch_ndims=0)
                lp0 = d0.log_prob(torch.tensor([1.0, 2.0]))
                if tuple(lp0.shape) != (2,) or not torch.allclose(torch.exp(lp0), torch.tensor([0.5, 0.25]), atol=1e-6):
                    fail("not_normalised", "two one-dimensional boxes (reinterpreted_batch_ndims=0): densities %s, expected [0.5, 0.25]" % torch.exp(lp0).tolist())
            elif cls == "LotkaVolterra":
                d = U.LotkaVolterraOscillating()
                tot = integrate(lambda q: d.log_prob(q.float()), [(-5.0, 2.0)] * 4, panels=1, order=26)
                if abs(tot - 1.0) > 2e-4:
                    fail("not_normalised", "LotkaVolterraOscillating: exp(log_prob) integrates to %.6f over its box" % tot)
                torch.manual_seed(1)
                s = d.sample((50,))
                if tuple(s.shape) != (50, 4) or bool((s < -5).any() or (s > 2).any()) or not bool(torch.isfinite(d.log_prob(s)).all()):
                    fail("sampler", "LotkaVolterraOscillating samples leave the support")
        except Exception as e:  # noqa
            import traceback

            fail("raises", "%s %s raised %r (%s)" % (cls, case["par"], e, traceback.format_exc().splitlines()[-3].strip()))
    return out


def main(run, replay=None):
    run.rule = (
        "cases = states of Dist.tla (Bernoulli probability vectors for D <= 3, Gaussian event shapes x conditional x context "
        "rows, MG1, mixtures, kernel-density sizes, MADE mixtures x context rows, box priors); non-trivial = all but the "
        "one-dimensional single-component ones"
    )
    thorough = run.tier == "thorough"
    res = T.run_tlc("Dist", T.cfg(constants={"Deep": "TRUE" if thorough else "FALSE"}, invariants=["BernoulliNormalised", "MixtureWeightsSumToOne", "MG1VolumePreserving", "GaussianUnits", "KDEUnits"]), dump=True, name="dist", workers=4)
    run.model_must_hold(res, "Dist")
    run.add_tlc(res, "Dist")
    states = [s for s in parse_dump(res.dump) if str(s["cls"]) != "Mixture"]
    if replay:
        c = replay["case"]
        sts = [s for s in states if str(s["cls"]) == c["cls"] and {k: str(v) for k, v in s["par"].items()} == c["par"]]
        for f in case_task(sts)["fails"]:
            run.violation({"cls": f["cls"], "clause": f["clause"]}, "replayed: " + f["detail"], c)
        return
    fails = []
    for out in pmap(case_task, [[s] for s in states]):
        run.evaluations += out["n"]
        fails += out["fails"]
    for s in states:
        run.nontrivial.add(repr(sorted((k, str(v)) for k, v in s["par"].items())))
    b = next(s for s in states if str(s["cls"]) == "Bernoulli" and len(s["par"]["p"]) == 2)
    run.sample({"class": "Bernoulli", "p": [str(rat(v)) for v in b["par"]["p"]], "exact_total_mass": str(rat(b["facts"]["total"]))})
    seen = set()
    for f in fails:
        key = (f["cls"], f["clause"], repr(f["par"]))
        if key in seen:
            continue
        seen.add(key)
        run.violation({"cls": f["cls"], "clause": f["clause"]}, f["detail"], {k: v for k, v in f.items() if k != "detail"})
    run.exhaustive = True
    run.assumptions = [
        "the Gaussian integral is a stated fact; densities are integrated by composite Gauss-Legendre quadrature in 1-2 (4 for the truncated prior) dimensions, tolerance 1e-5 (2e-4 for the 4-D tensor rule)",
        "'samples follow the density' is decided through samplers as deterministic functions of a controlled stream (Bernoulli here, conditional Gaussian in C04); torch's generators are trusted",
    ]
