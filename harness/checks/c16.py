"""C16 - log_prob and transforms are differentiable with correct gradients.

(S) TLC: spec/GradFlow.tla enumerates (model kind, mode, cache, preceding call, result, leaf) cases with the
    statement that no leaf is detached by design; the linear-cache life-cycle (LinearCache.tla, C10) adds
    that cached calls support the same back-propagation as uncached ones.
(R) every case is executed on the zoo models of that kind in float64: back-propagation succeeds, every
    gradient is finite, every trainable parameter that influences the result (decided by finite differences)
    receives a gradient, and directional derivatives with respect to inputs, context and parameters equal
    central finite differences.  Inputs of smooth elementwise maps contain exact zeros.
"""
from __future__ import annotations

import warnings

from vcore import tlc as T
from vcore.pool import pmap
from vcore.tlaval import parse_dump


def entry_kind(e, m):
    from nflows.transforms.linear import Linear

    cache = any(isinstance(x, Linear) for x in m.modules())
    k = {"transform": "transform", "dist": "distribution", "flow": "flow"}[e.kind]
    return k, e._ctx is not None, cache


def zoo_task(t):
    warnings.filterwarnings("ignore")
    import torch

    torch.set_num_threads(1)
    from nflows.transforms.linear import Linear
    from vcore import zoo

    names, cases, seed = t
    Z = zoo.by_name()
    out = {"n": 0, "fails": [], "skipped": []}
    for name in names:
        e = Z[name]
        if e.has("illconditioned"):
            out["skipped"].append(name + ": inverse amplifies by 1e10 (finite differences are no reference)")
            continue
        if e.has("umnn") or e.has("discrete"):
            out["skipped"].append(name + (": UMNN (third-party autograd Function, float32 internals)" if e.has("umnn") else ": discrete distribution"))
            continue
        try:
            m = zoo.prepare(e, e.build(seed), seed).double()
        except Exception as ex:  # noqa
            out["skipped"].append("%s: %r" % (name, ex))
            continue
        if e.has("needs_init"):
            # data-dependent initialisation happens inside the first training-mode call: the Parameter objects
            # collected BEFORE that call (what an optimiser holds) are the ones that must receive the gradients
            try:
                mp = e.build(seed).double()
                mp.train()
                before = dict(mp.named_parameters())
                xin_p = e.x(5, seed, torch.float64)
                cin_p = e.ctx(5, seed, torch.float64)
                op = "forward" if e.kind == "transform" else "log_prob"
                r = getattr(mp, op)(xin_p, cin_p) if cin_p is not None else getattr(mp, op)(xin_p)
                r = r if isinstance(r, (tuple, list)) else (r,)
                sum((t_ * torch.linspace(0.5, 1.5, t_.numel(), dtype=torch.float64).reshape(t_.shape)).sum() for t_ in r).backward()
                after = dict(mp.named_parameters())
                out["n"] += 1
                for n_, p_ in before.items():
                    if after.get(n_) is not p_:
                        out["fails"].append({"name": name, "mode": "train", "cache": False, "hist": "pristine", "result": op, "wrt": "params", "seed": seed, "clause": "no_gradient", "leaf": n_, "detail": "%s: the first training-mode %s replaces the Parameter object %s - the object collected before the call (held by an optimiser) is no longer the module's and receives no gradient (grad is %s)" % (name, op, n_, "None" if p_.grad is None else "set")})
                        break
                    if p_.grad is None and after[n_].requires_grad and any(s_ in n_ for s_ in ("log_scale", "shift")):
                        out["fails"].append({"name": name, "mode": "train", "cache": False, "hist": "pristine", "result": op, "wrt": "params", "seed": seed, "clause": "no_gradient", "leaf": n_, "detail": "%s: %s receives no gradient from the call that initialises it" % (name, n_)})
                        break
            except Exception as ex:  # noqa
                out["skipped"].append("%s pristine: %r" % (name, ex))
        k, hasctx, hascache = entry_kind(e, m)
        g = torch.Generator().manual_seed(seed + 3)
        x0 = e.x(3, seed, torch.float64)
        y0 = e.y(3, seed, torch.float64)
        c0 = e.ctx(3, seed, torch.float64)
        if e.has("noparams") and e.kind == "transform" and "LeakyReLU" not in name and not e.has("bounded01") and x0.dim() == 2:
            x0[0, 0] = 0.0   # a smooth point of every smooth elementwise map
        wts = {}
        done = set()
        # fine-tuning practice: part of the model is frozen with requires_grad_(False).  "tail": the parameters of the
        # later half of the model (the earlier ones, the inputs and the context still get their true gradients
        # THROUGH the frozen part); "all": every parameter (inputs and context still do)
        pnames = [n for n, _ in m.named_parameters()]
        for frozen, cs in [(fz, cs_) for fz in (None, "tail", "all") for cs_ in cases]:
            if frozen is not None and (len(pnames) < (2 if frozen == "tail" else 1) or str(cs["hist"]) != "fresh" or bool(cs["useCache"])):
                continue
            if frozen == "all" and str(cs["wrt"]) == "params":
                continue
            cut = set(pnames[len(pnames) // 2:]) if frozen == "tail" else set(pnames) if frozen == "all" else set()
            for n_, p_ in m.named_parameters():
                p_.requires_grad_(n_ not in cut)
            if (str(cs["kind"]["k"]), bool(cs["kind"]["ctx"]), bool(cs["kind"]["cache"])) != (k, hasctx, hascache):
                continue
            mode, uc, hist, result, wrt = str(cs["mode"]), bool(cs["useCache"]), str(cs["hist"]), str(cs["result"]), str(cs["wrt"])
            if result == "inverse" and not e.has("inv"):
                continue
            if e.has("batch_coupled_train") and mode == "train" and result == "inverse":
                continue  # BatchNorm offers no inverse in training mode
            if wrt == "params" and (not any(True for _ in m.parameters()) or e.has("badscale")):
                continue  # (parameters of magnitude 1e-5: a finite-difference step of 1e-6 is no reference)
            if result == "sample_and_log_prob" and (not e.has("sample") or e.has("nonreparam") or (e.has("batch_coupled_train") and mode == "train")):
                continue  # no sampler, or one that is not reparameterised by design (mixture components, Bernoulli)
            key = (mode, uc, hist, result, wrt, frozen)
            if key in done:
                continue
            done.add(key)
            out["n"] += 1
            case = {"name": name, "mode": mode, "cache": uc, "hist": hist, "result": result, "wrt": wrt, "seed": seed, "frozen": frozen}
            sd = {kk: v.clone() for kk, v in m.state_dict().items()}
            m.train(mode == "train")
            for mod in m.modules():
                if isinstance(mod, Linear):
                    mod.use_cache(uc)
                    mod.cache.invalidate()   # every case starts from an empty cache
            xin = (y0 if result == "inverse" else x0).clone()
            # the preceding call is an inference call (under no_grad); with the cache on in evaluation
            # mode it leaves cached tensors that carry no autograd graph
            case["cache_filled_under_no_grad"] = bool(uc and mode == "eval" and hascache and hist != "fresh")

            def loss_fn(xv, cv):
                torch.manual_seed(1234)   # dropout masks (training mode) are part of the function under test
                if result == "sample_and_log_prob":
                    # the noise stream is the harness's (double precision, the same at every evaluation):
                    # what is differentiated is the map from parameters / context to samples and log-probs
                    orig_randn = torch.randn

                    def stream(*size, **kw):
                        shp = size[0] if len(size) == 1 and isinstance(size[0], (tuple, list, torch.Size)) else size
                        return orig_randn(*shp, generator=torch.Generator().manual_seed(4321), dtype=torch.float64)

                    torch.randn = stream
                    try:
                        r = m.sample_and_log_prob(2, context=cv) if cv is not None else m.sample_and_log_prob(2)
                    finally:
                        torch.randn = orig_randn
                else:
                    r = getattr(m, result)(xv, cv) if cv is not None else getattr(m, result)(xv)
                r = r if isinstance(r, (tuple, list)) else (r,)
                tot = 0.0
                for i, t_ in enumerate(r):
                    if i not in wts:
                        wts[i] = None
                    w = torch.randn(t_.shape, generator=torch.Generator().manual_seed(100 + i), dtype=torch.float64)
                    tot = tot + (t_ * w).sum()
                return tot

            try:
                with torch.no_grad():
                    if hist == "after_forward":
                        getattr(m, "forward" if e.kind == "transform" else "log_prob")(x0, c0) if c0 is not None else getattr(m, "forward" if e.kind == "transform" else "log_prob")(x0)
                    elif hist == "after_inverse" and e.kind == "transform" and e.has("inv") and not (e.has("batch_coupled_train") and mode == "train"):
                        m.inverse(y0, c0) if c0 is not None else m.inverse(y0)
                m.load_state_dict(sd) if mode == "train" else None
                xv = xin.clone().requires_grad_(True)
                cv = c0.clone().requires_grad_(True) if c0 is not None else None
                for p in m.parameters():
                    p.grad = None
                L = loss_fn(xv, cv)
                L.backward()
            except Exception as ex:  # noqa
                out["fails"].append(dict(case, clause="backward_raises", detail="%s %s (%s mode, cache %s, %s): evaluation + backward raised %r" % (name, result, mode, uc, hist, ex)))
                m.load_state_dict(sd)
                continue
            m.load_state_dict(sd)
            if wrt == "inputs":
                leaves = [("inputs", xv)]
            elif wrt == "context":
                leaves = [("context", cv)]
            else:
                leaves = [(n, p) for n, p in m.named_parameters() if p.requires_grad]   # (frozen parameters are not trainable ones)
            eps = 1e-6
            for lname, leaf in leaves:
                gr = leaf.grad
                if gr is not None and not bool(torch.isfinite(gr).all()):
                    out["fails"].append(dict(case, clause="nonfinite_gradient", leaf=lname, detail="%s %s (%s mode, cache %s): gradient w.r.t. %s is not finite" % (name, result, mode, uc, lname)))
                    break
                v = torch.randn(leaf.shape, generator=g, dtype=torch.float64)
                with torch.no_grad():
                    base = leaf.detach().clone()

                    def at(delta):
                        if wrt == "params":
                            leaf.copy_(base + delta * v)
                            # parameters changed: drop any cache (train() invalidates; restore the mode after)
                            val = None
                        xa = (base + delta * v) if wrt == "inputs" else xin
                        ca = (base + delta * v) if wrt == "context" else c0
                        if wrt == "params":
                            for mod in m.modules():
                                if isinstance(mod, Linear):
                                    mod.cache.invalidate()
                        val = float(loss_fn(xa, ca))
                        m.load_state_dict(sd) if mode == "train" else None
                        return val

                    try:
                        lp, lm = at(eps), at(-eps)
                    except Exception as ex:  # noqa
                        if wrt == "params":
                            leaf.copy_(base)
                        continue  # the perturbed point left the domain: no finite-difference reference
                    if wrt == "params":
                        leaf.copy_(base)
                        for mod in m.modules():
                            if isinstance(mod, Linear):
                                mod.cache.invalidate()
                fd = (lp - lm) / (2 * eps)
                an = float((gr * v).sum()) if gr is not None else 0.0
                scale = 1.0 + abs(fd)
                if gr is None and abs(fd) > 1e-5:
                    out["fails"].append(dict(case, clause="no_gradient", leaf=lname, detail="%s %s (%s mode, cache %s, %s): %s influences the result (finite difference %.6g) but receives no gradient" % (name, result, mode, uc, hist, lname, fd)))
                    break
                if abs(fd - an) > 2e-4 * scale:
                    out["fails"].append(dict(case, clause="wrong_gradient", leaf=lname, detail="%s %s (%s mode, cache %s, %s%s): directional derivative w.r.t. %s is %.8g by autograd, %.8g by central differences" % (name, result, mode, uc, hist, ", parameters frozen: %s" % frozen if frozen else "", lname, an, fd)))
                    break
        for p_ in m.parameters():
            p_.requires_grad_(True)
    return out


def wide_f32_cases():
    """Wide layers in single precision (as constructed): determinants of 1e-56 / 1e+56 are outside the float32 range,
    their logarithms and the gradients of those logarithms are ordinary numbers - finite, and equal to the
    double-precision twin's."""
    warnings.filterwarnings("ignore")
    import torch
    from nflows import transforms as TR

    n, fails = 0, []
    for name, build in (("LULinear(80), diagonal 0.2", lambda: TR.LULinear(80, identity_init=True)), ("LULinear(80), diagonal 5", lambda: TR.LULinear(80, identity_init=True)),
                        ("SVDLinear(80), diagonal 0.2", lambda: TR.SVDLinear(80, num_householder=4, identity_init=True)), ("OneByOneConvolution(80), diagonal 5", lambda: TR.OneByOneConvolution(80, identity_init=True))):
        torch.manual_seed(9)
        m = build()
        target = 0.2 if "0.2" in name else 5.0
        pname = "unconstrained_upper_diag" if hasattr(m, "unconstrained_upper_diag") else "unconstrained_diagonal"
        with torch.no_grad():
            getattr(m, pname).copy_(torch.log(torch.expm1(torch.full((80,), target - m.eps))))
        m64 = build().double()
        m64.load_state_dict({k: v.double() if v.dtype.is_floating_point else v for k, v in m.state_dict().items()})
        shape = (3, 80, 1, 2) if "Convolution" in name else (3, 80)
        x = torch.randn(shape, generator=torch.Generator().manual_seed(4))
        for mode in ("train", "eval"):
            n += 1
            res = {}
            for tag, mod, xin in (("float32", m, x), ("float64", m64, x.double())):
                mod.train(mode == "train")
                for p_ in mod.parameters():
                    p_.grad = None
                y, lad = mod(xin)
                (lad.sum() + 0.01 * y.sum()).backward()
                res[tag] = (lad.detach(), getattr(mod, pname).grad.detach())
            l32, g32 = res["float32"]
            l64, g64 = res["float64"]
            if not bool(torch.isfinite(l32).all() and torch.isfinite(g32).all()):
                fails.append({"name": name, "mode": mode, "cache": False, "hist": "fresh", "result": "forward", "wrt": "params", "seed": 0, "clause": "nonfinite_gradient", "wide_f32": True, "detail": "%s in float32 (%s mode): log-abs-det %s, gradient of the diagonal parameters finite: %s (float64: log-abs-det %.4f, all finite)" % (name, mode, l32.tolist()[:2], bool(torch.isfinite(g32).all()), float(l64[0]))})
            elif not torch.allclose(g32.double(), g64, rtol=1e-3, atol=1e-4):
                fails.append({"name": name, "mode": mode, "cache": False, "hist": "fresh", "result": "forward", "wrt": "params", "seed": 0, "clause": "wrong_gradient", "wide_f32": True, "detail": "%s in float32 (%s mode): gradient of the diagonal parameters differs from the float64 twin's by %.3g" % (name, mode, float((g32.double() - g64).abs().max()))})
    return n, fails


def main(run, replay=None):
    run.rule = (
        "cases = (zoo model, mode, cache, preceding call, result, leaf) enumerated by TLC from GradFlow.tla, each with a "
        "back-propagation and a central-difference check along a random direction; non-trivial = cases w.r.t. parameters or context"
    )
    res = T.run_tlc("GradFlow", T.cfg(invariants=["EveryInfluencingLeafReachesLoss", "CacheOnlyInEval"]), dump=True, name="gradflow", workers=4)
    run.model_must_hold(res, "GradFlow")
    run.add_tlc(res, "GradFlow")
    cases = parse_dump(res.dump)
    from vcore import zoo as _z

    names = [e.name for e in _z.entries()]
    if replay and replay["case"].get("wide_f32"):
        for f in wide_f32_cases()[1]:
            if f["name"] == replay["case"]["name"]:
                run.violation({"name": f["name"], "clause": f["clause"], "wrt": f["wrt"]}, "replayed: " + f["detail"], replay["case"])
        return
    if replay:
        c = replay["case"]
        out = zoo_task(([c["name"]], cases, c["seed"]))
        for f in out["fails"]:
            if all(f.get(k) == c.get(k) for k in ("mode", "cache", "hist", "result", "wrt", "frozen")):
                run.violation({"name": c["name"], "clause": f["clause"], "wrt": f["wrt"]}, "replayed: " + f["detail"], c)
        return
    thorough = run.tier == "thorough"
    fails, skipped = [], []
    for out in pmap(zoo_task, [([n], cases, run.seed + s) for n in names for s in ((0, 1) if thorough else (0,))]):
        run.evaluations += out["n"]
        fails += out["fails"]
        skipped += out["skipped"]
    nw, fw = wide_f32_cases()
    run.evaluations += nw
    fails += fw
    run.extra["skipped"] = sorted(set(skipped))
    for cs in cases:
        if str(cs["wrt"]) != "inputs":
            run.nontrivial.add(repr(sorted((k, repr(v)) for k, v in cs.items())))
    run.sample({"case": {k: (dict(v) if isinstance(v, dict) else v) for k, v in cases[len(cases) // 2].items()}})
    seen = set()
    for f in fails:
        key = (f["name"], f["clause"], f["result"], f["wrt"], f["mode"], f["cache"], f.get("frozen"))
        if key in seen:
            continue
        seen.add(key)
        run.violation({"name": f["name"], "clause": f["clause"], "wrt": f["wrt"], "mode": f["mode"], "cache": f["cache"], "cache_filled_under_no_grad": f.get("cache_filled_under_no_grad", False)}, f["detail"], {k: v for k, v in f.items() if k != "detail"})
    run.exhaustive = True
    run.assumptions = [
        "frozen variants: the later half of the parameter tensors, or all of them, with requires_grad False (fresh history, cache off)",
        "gradients are compared along one random direction per leaf with central differences (eps 1e-6, float64, tolerance 2e-4 relative): away from the finitely many kinks",
        "numerical equality of gradients rests on torch autograd for the built-in operators; UMNN (custom autograd Function) and discrete distributions are skipped",
    ]
