"""C06 - MADE conditioners are strictly autoregressive for every architecture and weight.

(S) TLC enumerates every architecture up to the bound and every random degree draw (spec/Made.tla) and
    proves Autoregressive etc. on the boolean path relation - i.e. for all weight values.
(R) spec -> code: final states of the exhaustive run are rebuilt as real networks (both copies and the
    mixture-of-Gaussians subclass), random draws injected through torch.randint; degrees, masks and the
    measured dependency pattern (all-ones weights: exact; generic weights / ReLU / batch-norm / dropout:
    subset) are compared with the specification, and autoregressiveness is checked on the real Jacobian.
(T) code -> spec: networks built with the real generator are logged layer by layer and validated by TLC
    against TraceMade.tla (the observed draw must be a behaviour of the specification).
"""
from __future__ import annotations

import json
import os
import random
import re

from vcore import tlc as T
from vcore.pool import pmap
from vcore.tlaval import parse_dump

INVS = ["Autoregressive", "FirstFeatureConstant", "HiddenBelowD", "Complete", "OutputsContiguous", "ResidualAlwaysBuildable"]


def made_classes():
    from nflows.nn.nde import made as nde
    from nflows.transforms import made as tm

    return {"transforms.made": tm.MADE, "nn.nde.made": nde.MADE, "nn.nde.MoG": nde.MixtureOfGaussiansMADE}


def build_net(copy, cfg, draws=None, ctx=None, activation="identity", bn=False, dropout=0.0):
    """Build a real MADE; `draws` (list of degree vectors) are injected through torch.randint."""
    import torch
    import torch.nn.functional as F

    cls = made_classes()[copy]
    act = (lambda x: x) if activation == "identity" else F.relu
    kw = dict(features=cfg["D"], hidden_features=cfg["H"], context_features=ctx, num_blocks=cfg["B"], use_residual_blocks=cfg["res"], random_mask=cfg["rnd"], activation=act, dropout_probability=dropout, use_batch_norm=bn)
    if copy == "nn.nde.MoG":
        if cfg["m"] % 3:
            return None
        kw["num_mixture_components"] = cfg["m"] // 3
        kw["custom_initialization"] = False
    else:
        kw["output_multiplier"] = cfg["m"]
    orig = torch.randint
    q = list(draws) if draws is not None else None
    problems = []

    def fake(low=0, high=None, size=None, **k):
        v = q.pop(0)
        if min(v) < low or max(v) >= high or len(v) != size[0]:
            problems.append("draw %s outside randint(low=%s, high=%s, size=%s)" % (v, low, high, size))
        return torch.tensor(v, dtype=torch.long)

    if q is not None:
        torch.randint = fake
    try:
        net = cls(**kw)
    finally:
        torch.randint = orig
    net._verif_problems = problems
    return net


def masked_layers(net):
    """(kind, module) for every MaskedLinear in construction order."""
    out = [("initial", net.initial_layer)]
    for b in net.blocks:
        if hasattr(b, "linear_layers"):
            out += [("res0", b.linear_layers[0]), ("res1", b.linear_layers[1])]
        else:
            out.append(("ff", b.linear))
    out.append(("final", net.final_layer))
    return out


def ones_pattern(net, D, ctx=None):
    """Dependency pattern of the real function with all-ones weights and zero biases (exact: no
    cancellation is possible).  Requires identity activation, no batch norm, no dropout."""
    import torch

    with torch.no_grad():
        for p in net.parameters():
            p.zero_()
        for _, lin in masked_layers(net):
            lin.weight.fill_(1.0)
        net.eval()
        x = torch.cat([torch.zeros(1, D), torch.eye(D)], 0)
        c = torch.zeros(D + 1, ctx) if ctx else None
        y = net(x, c) if ctx else net(x)
        J = (y[1:] - y[0:1]).t()  # [out, in]
    return [[1 if v != 0 else 0 for v in row] for row in J.tolist()]


def generic_violations(net, D, m, ctx, train, seed):
    """Full Jacobian (across batch rows too) at random points for generic weights; returns the list of
    (output unit, input feature) pairs that break autoregressiveness."""
    import torch

    g = torch.Generator().manual_seed(seed)
    with torch.no_grad():
        for p in net.parameters():
            p.copy_(torch.randn(p.shape, generator=g))
    net.train(train)
    B = 3 if train else 2
    x = torch.randn(B, D, generator=g)
    c = torch.randn(B, ctx, generator=g) if ctx else None
    torch.manual_seed(seed)
    f = (lambda z: net(z, c)) if ctx else (lambda z: net(z))
    J = torch.autograd.functional.jacobian(f, x)  # [B, out, B, D]
    bad = []
    nout = J.shape[1]
    for o in range(nout):
        feat = o // m  # 0-based feature of the output block
        sub = J[:, o, :, feat:]
        if bool((sub != 0).any()):
            js = sorted({int(j) + feat for j in (sub != 0).nonzero()[:, 2].tolist()})
            bad.append((o, js))
    return bad


def net_event(net, cfg, D, ctx=None, with_deps=True):
    layers = []
    for kind, lin in masked_layers(net):
        layers.append({"kind": kind, "degs": [int(v) for v in lin.degrees.tolist()], "mask": [[int(v) for v in row] for row in lin.mask.tolist()]})
    ev = {"cfg": cfg, "layers": layers}
    if with_deps:
        ev["deps"] = ones_pattern(net, D, ctx)
    return ev


def replay_task(task):
    """spec -> code for a chunk of final states."""
    import torch

    torch.set_num_threads(1)
    states, seed = task
    out = {"n": 0, "fails": [], "drift": []}
    for st in states:
        cfg, layers, reach, degs = st["cfg"], st["layers"], st["reach"], st["degs"]
        draws = [lay["degs"] for lay in layers if lay["kind"] in ("initial", "ff")] if cfg["rnd"] else None
        for copy in ("transforms.made", "nn.nde.made", "nn.nde.MoG"):
            for ctx in (None, 2):
                net = build_net(copy, cfg, draws=draws, ctx=ctx)
                if net is None:
                    continue
                out["n"] += 1
                for p in net._verif_problems:
                    out["drift"].append("%s %s: %s" % (copy, cfg, p))
                case = {"copy": copy, "cfg": cfg, "draws": draws, "ctx": ctx}
                real_layers = masked_layers(net)
                if [k for k, _ in real_layers] != [l["kind"] for l in layers]:
                    out["drift"].append("%s %s: layer kinds %s vs spec %s" % (copy, cfg, [k for k, _ in real_layers], [l["kind"] for l in layers]))
                    continue
                for (kind, lin), lay in zip(real_layers, layers):
                    if [int(v) for v in lin.degrees.tolist()] != lay["degs"]:
                        out["drift"].append("%s %s: degrees of %s layer %s vs spec %s" % (copy, cfg, kind, lin.degrees.tolist(), lay["degs"]))
                    if [[int(v) for v in r] for r in lin.mask.tolist()] != lay["mask"]:
                        out["drift"].append("%s %s: mask of %s layer differs from the specification" % (copy, cfg, kind))
                pat = ones_pattern(net, cfg["D"], ctx)
                m = cfg["m"]
                # property relation on the real function
                bad = [(o, [j + 1 for j, v in enumerate(row) if v and j >= o // m]) for o, row in enumerate(pat)]
                bad = [b for b in bad if b[1]]
                if bad:
                    out["fails"].append(dict(case, clause="all_ones_weights", detail="output unit %d (feature %d) depends on inputs %s" % (bad[0][0], bad[0][0] // m + 1, bad[0][1])))
                spec_pat = [[1 if (j + 1) in reach[o] else 0 for j in range(cfg["D"])] for o in range(len(reach))]
                if pat != spec_pat and not bad:
                    out["drift"].append("%s %s ctx=%s: dependency pattern %s differs from the specification's path relation %s" % (copy, cfg, ctx, pat, spec_pat))
        # inputs that are not [batch, features]: a single item [features] and [batch, time, features]
        D, m = cfg["D"], cfg["m"]
        for copy in ("transforms.made", "nn.nde.made"):
            net = build_net(copy, cfg, draws=draws, ctx=None)
            with torch.no_grad():
                for p_ in net.parameters():
                    p_.zero_()
                for _, lin in masked_layers(net):
                    lin.weight.fill_(1.0)
            net.eval()
            for shape in ((D,), (2, 2, D)):
                out["n"] += 1
                try:
                    with torch.no_grad():
                        x0 = torch.zeros(*shape)
                        y0 = net(x0)
                        bad = []
                        for j in range(D):
                            xj = x0.clone()
                            xj[..., j] = 1.0
                            dj = (net(xj) - y0).reshape(-1, D * m)[0]
                            bad += [(o, j + 1) for o in range(D * m) if j >= o // m and float(dj[o]) != 0.0]
                except Exception as e:  # noqa
                    out["drift"].append("%s %s: input of shape %s raised %r" % (copy, cfg, shape, e))
                    continue
                if bad:
                    out["fails"].append({"copy": copy, "cfg": cfg, "draws": draws, "ctx": None, "clause": "input_rank", "shape": list(shape), "detail": "input of shape %s: output unit %d (feature %d) depends on input %d" % (list(shape), bad[0][0], bad[0][0] // m + 1, bad[0][1])})
        # random masks: a network built under OTHER draws that receives this network's state dict must be
        # this network (masks and degrees travel) - and in particular autoregressive
        if cfg["rnd"]:
            for copy in ("transforms.made", "nn.nde.made"):
                src = build_net(copy, cfg, draws=draws, ctx=None)
                torch.manual_seed(seed + 991)
                dst = build_net(copy, cfg, draws=None, ctx=None)
                out["n"] += 1
                try:
                    dst.load_state_dict(src.state_dict())
                except Exception as e:  # noqa
                    out["drift"].append("%s %s: state dict of a random-mask network does not load into another one: %r" % (copy, cfg, e))
                    continue
                pat = ones_pattern(dst, D, None)
                bad = [(o, [j + 1 for j, v in enumerate(row) if v and j >= o // m]) for o, row in enumerate(pat)]
                bad = [b for b in bad if b[1]]
                if bad:
                    out["fails"].append({"copy": copy, "cfg": cfg, "draws": draws, "ctx": None, "seed": seed, "clause": "after_load", "detail": "random-mask network after loading another network's state dict: output unit %d (feature %d) depends on inputs %s" % (bad[0][0], bad[0][0] // m + 1, bad[0][1])})
        # generic weights, ReLU, batch norm / dropout, train and eval (subset relation)
        for copy, bn, dp, train in (("transforms.made", False, 0.0, False), ("nn.nde.made", True, 0.0, True), ("transforms.made", True, 0.3, True), ("nn.nde.made", False, 0.3, False)):
            net = build_net(copy, cfg, draws=draws, ctx=2, activation="relu", bn=bn, dropout=dp)
            out["n"] += 1
            bad = generic_violations(net, cfg["D"], cfg["m"], 2, train, seed)
            if bad:
                out["fails"].append({"copy": copy, "cfg": cfg, "draws": draws, "ctx": 2, "bn": bn, "dropout": dp, "train": train, "seed": seed, "clause": "generic_weights", "detail": "output unit %d (feature %d) has non-zero derivative w.r.t. inputs %s" % (bad[0][0], bad[0][0] // cfg["m"] + 1, [j + 1 for j in bad[0][1]])})
    return out


def trace_task(task):
    """code -> spec: build with the real generator, log."""
    import torch

    torch.set_num_threads(1)
    cfgs, seed = task
    nets, fails = [], []
    for i, cfg in enumerate(cfgs):
        for copy in ("transforms.made", "nn.nde.made", "nn.nde.MoG"):
            torch.manual_seed(seed * 7919 + i)
            try:
                net = build_net(copy, cfg)
            except Exception as e:  # constructor rejects
                nets.append({"copy": copy, "cfg": cfg, "rejected": repr(e)[:120]})
                continue
            if net is None:
                continue
            ev = net_event(net, cfg, cfg["D"])
            ev["copy"] = copy
            ev["seed"] = seed * 7919 + i
            m = cfg["m"]
            bad = [(o, [j + 1 for j, v in enumerate(row) if v and j >= o // m]) for o, row in enumerate(ev["deps"])]
            bad = [b for b in bad if b[1]]
            if bad:
                fails.append({"copy": copy, "cfg": cfg, "draws": None, "ctx": None, "seed": ev["seed"], "clause": "all_ones_weights", "detail": "real-RNG network: output unit %d depends on inputs %s" % (bad[0][0], bad[0][1])})
            nets.append(ev)
    return {"nets": nets, "fails": fails}


def wide_task(task):
    """Networks far beyond the bound TLC enumerates (hundreds of features): the construction rule of Made.tla -
    input degrees 1..D, output block f has degree f, a connection exists iff the degree comparison allows it -
    is evaluated by the harness on the real network's logged degrees and masks, and the dependency pattern of the
    real function is measured with all-ones weights."""
    import torch

    torch.set_num_threads(1)
    cfg, copy, seed = task
    fails = []
    torch.manual_seed(seed)
    try:
        net = build_net(copy, cfg)
    except Exception as e:  # noqa
        return {"n": 0, "fails": [], "drift": ["constructor rejected %s %s: %r" % (copy, cfg, e)]}
    if net is None:
        return {"n": 0, "fails": [], "drift": []}
    D, m = cfg["D"], cfg["m"]
    layers = masked_layers(net)
    def fail(clause, detail):
        fails.append({"copy": copy, "cfg": cfg, "draws": None, "ctx": None, "seed": seed, "clause": clause, "detail": detail, "wide": True})
    # degrees of the inputs (read off the first mask's columns is not possible; the final layer's degrees are logged)
    fin = [int(v) for v in layers[-1][1].degrees.tolist()]
    want = [f + 1 for f in range(D) for _ in range(m)]
    if fin != want:
        bad = next(i for i, (a, b) in enumerate(zip(fin, want)) if a != b) if len(fin) == len(want) else -1
        fail("wide_output_degrees", "%d features: output unit %d carries degree %s, the construction rule gives %s" % (D, bad, fin[bad] if bad >= 0 else len(fin), want[bad] if bad >= 0 else len(want)))
    deps = ones_pattern(net, D)
    for o, row in enumerate(deps):
        f = o // m
        late = [j + 1 for j, v in enumerate(row) if v and j >= f]
        if late:
            fail("wide_all_ones_weights", "%d features: output unit %d (feature %d) depends on inputs %s" % (D, o, f + 1, late[:6]))
            break
        # completeness: with hidden width >= D - 1 and sequential degrees every earlier input is reachable
        if not cfg["rnd"] and cfg["H"] >= D - 1 and any(row[j] == 0 for j in range(f)):
            fail("wide_incomplete", "%d features: output unit %d (feature %d) does not depend on input %d" % (D, o, f + 1, row.index(0) + 1))
            break
    return {"n": 1, "fails": fails, "drift": []}


def invalid_task(task):
    """Configurations Made.tla excludes (residual blocks with random masks: the skip connection needs degrees that
    never decrease): the real constructor refuses them - or, if it builds a network, that network must be
    autoregressive all the same."""
    import torch

    torch.set_num_threads(1)
    copy, seed = task
    out = {"n": 0, "fails": [], "drift": []}
    for D, H, B in ((3, 5, 1), (4, 6, 2), (5, 8, 2)):
        cfg = {"D": D, "H": H, "B": B, "m": 3 if copy == "nn.nde.MoG" else 1, "res": True, "rnd": True}
        torch.manual_seed(seed * 31 + D)
        try:
            net = build_net(copy, cfg)
        except Exception:  # noqa  (refused: what the specification says)
            continue
        if net is None:
            continue
        out["n"] += 1
        m = cfg["m"]
        deps = ones_pattern(net, D)
        bad = [(o, [j + 1 for j, v in enumerate(row) if v and j >= o // m]) for o, row in enumerate(deps)]
        bad = [b for b in bad if b[1]]
        if bad:
            out["fails"].append({"copy": copy, "cfg": cfg, "draws": None, "ctx": None, "seed": seed, "clause": "excluded_config_builds_and_leaks", "invalid": True, "detail": "residual blocks with random masks are accepted by the constructor and output unit %d (feature %d) depends on inputs %s" % (bad[0][0], bad[0][0] // m + 1, bad[0][1])})
        else:
            out["drift"].append("%s accepts residual blocks with random masks (%s); this network happens to be autoregressive" % (copy, cfg))
    return out


def use_task(task):
    """Walk the MadeUse graph on real networks; measure the dependency pattern at every Forward."""
    import torch

    torch.set_num_threads(1)
    cfgs, walks, seed = task
    out = {"n": 0, "fails": []}
    for ci, cfg in enumerate(cfgs):
        for copy, tied in [(c_, t_) for c_ in ("transforms.made", "nn.nde.made") for t_ in (False, True)]:
            if tied and (cfg["res"] or cfg["B"] < 2):
                continue
            torch.manual_seed(seed + ci)
            net = build_net(copy, cfg, ctx=None, activation="identity")
            if tied:
                # weight tying: two hidden layers share one Parameter (each keeps its own mask and degrees)
                net.blocks[1].linear.weight = net.blocks[0].linear.weight
            D, m = cfg["D"], cfg["m"]
            g = torch.Generator().manual_seed(seed + 17 * ci)
            wsets = {}
            for name in ("ones", "randA", "randB"):
                sd = {}
                for k, v in net.state_dict().items():
                    if k.endswith(("mask", "degrees")):
                        sd[k] = v.clone()
                    elif name == "ones":
                        sd[k] = torch.ones_like(v) if k.endswith("weight") else torch.zeros_like(v)
                    else:
                        sd[k] = 0.5 + torch.rand(v.shape, generator=g)  # positive: no cancellation
                wsets[name] = sd
            opt = torch.optim.SGD(net.parameters(), lr=1.0)
            for walk in walks:
                hist = []
                net.train()
                net.load_state_dict(wsets["ones"])
                for name, args in walk:
                    hist.append([name] + [str(a) for a in args])
                    if name == "Train":
                        net.train()
                    elif name == "Eval":
                        net.eval()
                    elif name == "SetWeights":
                        w, how = str(args[0]), str(args[1])
                        tgt = wsets[w]
                        if how == "load":
                            net.load_state_dict(tgt)
                        elif how == "inplace":
                            with torch.no_grad():
                                for k, p in net.named_parameters():
                                    p.copy_(tgt[k])
                        else:  # optimiser step landing exactly on the target weights
                            for k, p in net.named_parameters():
                                p.grad = (p.detach() - tgt[k])
                            opt.step()
                            opt.zero_grad(set_to_none=True)
                    elif name == "Forward":
                        out["n"] += 1
                        with torch.no_grad():
                            x = torch.cat([torch.zeros(1, D), torch.eye(D)], 0)
                            y = net(x)
                            J = (y[1:] - y[0:1]).t()
                        bad = [(o, [j + 1 for j in range(D) if j >= o // m and float(J[o, j]) != 0.0]) for o in range(J.shape[0])]
                        bad = [b for b in bad if b[1]]
                        if bad:
                            out["fails"].append({"copy": copy, "cfg": cfg, "draws": None, "ctx": None, "seed": seed + ci, "clause": "weights_after_history", "history": list(hist), "tied": tied, "detail": ("two hidden layers share their weight Parameter; " if tied else "") + "after %s output unit %d (feature %d) depends on inputs %s" % (hist[-4:], bad[0][0], bad[0][0] // m + 1, bad[0][1])})
                            break
    return out


def validate_nets(run, nets, bounds, name="made_nets"):
    """TraceMade.tla on logged networks; returns the number accepted, the others are drift (a network
    that breaks the property itself is reported by the caller from its measured pattern)."""
    if not nets:
        return 0
    path = os.path.join(T.scratch(), name + ".json")
    with open(path, "w") as f:
        json.dump({"nets": [{"cfg": n["cfg"], "layers": n["layers"], "deps": n["deps"]} for n in nets]}, f)
    cfgt = "SPECIFICATION TSpec\nINVARIANT TAutoregressive\nCONSTANTS MaxD = %d MaxH = %d MaxBlocks = 2 MaxMult = 3\n" % (bounds["MaxD"], bounds["MaxH"])
    cfgt = cfgt.replace("MaxBlocks = 2 MaxMult = 3", "MaxBlocks = %d MaxMult = %d" % (bounds.get("MaxBlocks", 2), bounds.get("MaxMult", 3)))
    tres = T.run_tlc("TraceMade", cfgt, workers=1, coverage=False, dump=True, env_extra={"TRACE_FILE": path}, name="trace_made", timeout=3000)
    if not tres.ok:
        raise T.MachineryError("TraceMade: %s\n%s" % (tres.violated, tres.stdout[-1500:]))
    run.states += tres.distinct
    run.transitions += tres.generated
    best = {}
    with open(tres.dump) as f:
        for blk in f.read().split("\n\n"):
            m1 = re.search(r"/\\ tid = (\d+)", blk)
            if not m1:
                continue
            tid = int(m1.group(1))
            l = int(re.search(r"/\\ l = (\d+)", blk).group(1))
            v = re.search(r'/\\ verdict = "(\w+)"', blk).group(1)
            if tid not in best or l > best[tid][0] or v != "ok":
                best[tid] = (l, v)
    accepted = 0
    for i, n in enumerate(nets):
        l, v = best.get(i + 1, (0, "missing"))
        if v == "ok" and l == len(n["layers"]) + 2:
            accepted += 1
        else:
            run.note_drift("network %s %s (seed %s) is not a behaviour of Made.tla: verdict %s at layer %d: %s" % (n["copy"], n["cfg"], n["seed"], v, l, [la["degs"] for la in n["layers"]]))
    return accepted


def to_py(v):
    if isinstance(v, dict):
        return {str(k): to_py(x) for k, x in v.items()}
    if isinstance(v, (tuple, list)):
        return [to_py(x) for x in v]
    if isinstance(v, frozenset):
        return sorted(to_py(x) for x in v)
    if isinstance(v, bool):
        return v
    return int(v) if isinstance(v, int) else str(v)


def main(run, replay=None):
    run.rule = (
        "cases = real MADE networks built from final states of the exhaustive Made.tla run (draws injected) and from the real "
        "generator; non-trivial = distinct (copy, architecture, degree draw, context) with more than one feature"
    )
    if replay and replay["case"].get("kind") == "assembly":
        from vcore import assembly

        for f in assembly.replay(run, replay["case"]):
            run.violation({"kind": "assembly", "clause": f["clause"]}, "replayed: " + f["detail"], replay["case"])
        return
    if replay and replay["case"].get("invalid"):
        c = replay["case"]
        for f in invalid_task((c["copy"], c["seed"]))["fails"]:
            run.violation({"copy": f["copy"], "clause": f["clause"]}, "replayed: " + f["detail"], c)
        return
    if replay and replay["case"].get("wide"):
        c = replay["case"]
        for f in wide_task((c["cfg"], c["copy"], c["seed"]))["fails"]:
            run.violation({"copy": f["copy"], "clause": f["clause"]}, "replayed: " + f["detail"], c)
        return
    if replay:
        c = replay["case"]
        import torch

        torch.set_num_threads(1)
        if c.get("clause") in ("input_rank", "after_load"):
            import torch as _t

            st = {"cfg": c["cfg"], "layers": [], "reach": [], "degs": []}
            # rebuild the state from TLC to get layers / reach
            res = T.run_tlc("Made", T.cfg(constants={"MaxD": max(4, c["cfg"]["D"]), "MaxH": max(3, c["cfg"]["H"]), "MaxBlocks": 2, "MaxMult": 3}, view="View"), dump=True, coverage=False, timeout=3000)
            from vcore.tlaval import parse_state as _ps

            for blk in re.split(r"^State \d+:\s*$", open(res.dump).read(), flags=re.M):
                if '/\\ phase = "done"' in blk:
                    s_ = _ps(blk)
                    if to_py(s_["cfg"]) == c["cfg"]:
                        st = {"cfg": c["cfg"], "layers": to_py(s_["layers"]), "reach": [set(int(j) for j in r) for r in s_["reach"]], "degs": to_py(s_["degs"])}
                        if c["draws"] is None or [l["degs"] for l in st["layers"] if l["kind"] in ("initial", "ff")] == c["draws"]:
                            break
            out = replay_task(([st], c.get("seed", run.seed)))
            bad = [f for f in out["fails"] if f["clause"] == c["clause"] and f["copy"] == c["copy"]]
        elif c.get("clause") == "weights_after_history":
            out = use_task(([c["cfg"]], [[(h[0], tuple(h[1:])) for h in c["history"]]], c["seed"]))
            bad = out["fails"]
        elif c.get("clause") == "generic_weights":
            net = build_net(c["copy"], c["cfg"], draws=c["draws"], ctx=c["ctx"], activation="relu", bn=c["bn"], dropout=c["dropout"])
            bad = generic_violations(net, c["cfg"]["D"], c["cfg"]["m"], c["ctx"], c["train"], c["seed"])
        else:
            if c.get("draws") is None and c.get("seed") is not None:
                torch.manual_seed(c["seed"])
            net = build_net(c["copy"], c["cfg"], draws=c["draws"], ctx=c["ctx"])
            pat = ones_pattern(net, c["cfg"]["D"], c["ctx"])
            m = c["cfg"]["m"]
            bad = [o for o, row in enumerate(pat) if any(v and j >= o // m for j, v in enumerate(row))]
        if bad:
            run.violation({"copy": c["copy"], "clause": c.get("clause")}, "replayed: network is not autoregressive: %s" % (bad[:3],), c)
        return
    thorough = run.tier == "thorough"
    bounds = {"MaxD": 5 if thorough else 4, "MaxH": 5 if thorough else 4, "MaxBlocks": 2, "MaxMult": 3 if thorough else 3}
    if not thorough:
        bounds["MaxH"] = 3  # with multiplier 3 (needed for the mixture subclass) keep the quick run short
    res = T.run_tlc("Made", T.cfg(constants=bounds, invariants=INVS, view="View"), dump=True, name="made", timeout=3000)
    run.model_must_hold(res, "Made")
    run.add_tlc(res, "Made exhaustive %s" % bounds, require_actions=["Configure", "DoInitial", "DoBlockFF", "BlockRes", "Final"])
    # final states -> real networks
    with open(res.dump) as f:
        txt = f.read()
    blocks = [b for b in re.split(r"^State \d+:\s*$", txt, flags=re.M) if '/\\ phase = "done"' in b]
    rnd = random.Random(run.seed)
    rnd.shuffle(blocks)
    from vcore.tlaval import parse_state

    seq_blocks = [b for b in blocks if "rnd |-> FALSE" in b]
    rnd_blocks = [b for b in blocks if "rnd |-> TRUE" in b]
    chosen = seq_blocks + rnd_blocks[: (3000 if thorough else 250)]
    states = []
    for b in chosen:
        st = parse_state(b)
        states.append({"cfg": to_py(st["cfg"]), "layers": to_py(st["layers"]), "reach": [set(int(j) for j in r) for r in st["reach"]], "degs": to_py(st["degs"])})
    run.extra["final_states_total"] = len(blocks)
    run.extra["final_states_replayed"] = len(states)
    nproc = min(16, os.cpu_count() or 4)
    chunks = [states[i::nproc * 2] for i in range(nproc * 2)]
    fails = []
    for out in pmap(replay_task, [(ch, run.seed) for ch in chunks if ch], nproc):
        run.evaluations += out["n"]
        fails += out["fails"]
        for d in out["drift"][:5]:
            run.note_drift(d)
    for st in states:
        if st["cfg"]["D"] > 1:
            run.nontrivial.add(json.dumps([st["cfg"], st["layers"][0]["degs"], [l["degs"] for l in st["layers"][1:-1]]]))
    if states:
        s0 = next((s for s in states if s["cfg"]["rnd"] and s["cfg"]["D"] >= 3), states[0])
        run.sample({"cfg": s0["cfg"], "layer_degrees": [l["degs"] for l in s0["layers"]], "reach": [sorted(r) for r in s0["reach"]]})
    # life after construction: weights arriving at any moment, in any mode (MadeUse.tla)
    from vcore.tlaval import parse_dot
    from vcore.walk import covering_walks

    ures = T.run_tlc("MadeUse", T.cfg(invariants=["AlwaysMasked"]), dot=True, name="madeuse", workers=2)
    run.model_must_hold(ures, "MadeUse")
    run.add_tlc(ures, "MadeUse", require_actions=["Train", "Eval", "Forward", "SetWeights"])
    ug = parse_dot(ures.dot)
    uwalks = [[(ug.edges[ei][2], ug.edges[ei][3]) for ei in w] for w in covering_walks(ug, ug.init[0])]
    ucfgs = [{"D": 3, "H": 4, "B": 1, "m": 2, "res": True, "rnd": False}, {"D": 4, "H": 5, "B": 2, "m": 1, "res": False, "rnd": True}, {"D": 2, "H": 3, "B": 0, "m": 3, "res": False, "rnd": False}]
    if thorough:
        ucfgs += [{"D": D, "H": H, "B": B, "m": 2, "res": r, "rnd": (not r) and B > 0} for D in (2, 3, 5) for H in (2, 6) for B in (0, 2) for r in (True, False)]
    for out in pmap(use_task, [([c], uwalks, run.seed + i) for i, c in enumerate(ucfgs)], nproc):
        run.evaluations += out["n"]
        fails += out["fails"]
    run.extra["madeuse_walk_steps"] = sum(len(w) for w in uwalks)
    # code -> spec: real generator
    cfgs = []
    for D in range(1, bounds["MaxD"] + 1):
        for H in range(1, bounds["MaxH"] + 1):
            for B in range(0, 3):
                for m in (1, 2, 3):
                    for resb, rn in ((True, False), (False, False), (False, True)):
                        cfgs.append({"D": D, "H": H, "B": B, "m": m, "res": resb, "rnd": rn})
    reps = 6 if thorough else 2
    tasks = [(cfgs[i::nproc], run.seed * 100 + r) for r in range(reps) for i in range(nproc)]
    nets = []
    for out in pmap(trace_task, tasks, nproc):
        nets += [n for n in out["nets"] if "rejected" not in n]
        fails += out["fails"]
        for n in out["nets"]:
            if "rejected" in n:
                run.note_drift("constructor rejected %s %s: %s" % (n["copy"], n["cfg"], n["rejected"]))
    run.evaluations += len(nets)
    accepted = validate_nets(run, nets, bounds)
    # networks with hundreds of features (beyond what TLC enumerates): 8-bit and 16-bit boundaries of the degree range
    wide = [({"D": D, "H": H, "B": 1, "m": mm, "res": r, "rnd": rn}, copy, run.seed + 3) for D, H in ((300, 300), (257, 40)) for copy, mm in (("transforms.made", 1), ("nn.nde.made", 2), ("nn.nde.MoG", 3)) for r, rn in ((True, False), (False, True))]
    for out in pmap(wide_task, wide, nproc):
        run.evaluations += out["n"]
        fails += out["fails"]
        for d in out["drift"]:
            run.note_drift(d)
    run.extra["wide_networks"] = len(wide)
    for out in pmap(invalid_task, [(copy, run.seed + k) for copy in ("transforms.made", "nn.nde.made", "nn.nde.MoG") for k in range(6)], nproc):
        run.evaluations += out["n"]
        fails += out["fails"]
        for d in out["drift"][:2]:
            run.note_drift(d)
    # (T) on networks nobody here configured: every MADE the repository's own test-suite constructs
    from vcore import suite

    sd = suite.run_suite("made")
    snets, seen_nets = [], set()
    for n in sd["made"]:
        m = n["cfg"]["m"]
        if n["deps"] is None:
            # batch norm / dropout: not measurable exactly; the pattern implied by the logged masks
            continue
        bad = [(o, [j + 1 for j, v in enumerate(row) if v and j >= o // m]) for o, row in enumerate(n["deps"])]
        bad = [b for b in bad if b[1]]
        if bad:
            fails.append({"copy": n["copy"], "cfg": n["cfg"], "draws": None, "ctx": n.get("ctx"), "clause": "suite_network", "test": n["test"], "detail": "network built by %s: output unit %d depends on inputs %s" % (n["test"], bad[0][0], bad[0][1])})
        n["seed"] = n["test"]
        # TLC replays the construction layer by layer: the largest networks only in the thorough tier,
        # identical constructions once
        sig = json.dumps([n["cfg"], n["layers"]], sort_keys=True)
        if sig in seen_nets or (not thorough and n["cfg"]["D"] * n["cfg"]["H"] > 1000):
            continue
        seen_nets.add(sig)
        snets.append(n)
    sb = {"MaxD": max([n["cfg"]["D"] for n in snets] + [1]), "MaxH": max([n["cfg"]["H"] for n in snets] + [1]), "MaxBlocks": max([n["cfg"]["B"] for n in snets] + [2]), "MaxMult": max([n["cfg"]["m"] for n in snets] + [3])}
    acc2 = validate_nets(run, snets, sb, name="suite_nets")
    run.evaluations += len(snets)
    run.extra["suite_networks"] = {"pytest": sd["pytest_tail"], "constructed": len(sd["made"]), "validated": len(snets), "accepted": acc2, "bounds": sb}
    run.traces = accepted + acc2
    if nets:
        n0 = next((n for n in nets if n["cfg"]["rnd"] and n["cfg"]["D"] >= 3 and n["cfg"]["B"] >= 1), nets[0])
        run.sample({"real_rng_network": n0["copy"], "cfg": n0["cfg"], "degrees": [la["degs"] for la in n0["layers"]], "deps": n0["deps"]})
    # system level: MaskedAutoregressiveFlow as assembled by its constructor (spec/Assembly.tla)
    from vcore import assembly

    for f in assembly.run_assembly(run, "maf"):
        run.violation({"kind": "assembly", "clause": f["clause"], "flow": "maf"}, "MaskedAutoregressiveFlow %s: %s" % (f["cfg"], f["detail"]), dict({k: v for k, v in f.items() if k != "detail"}, kind="assembly"))
    seen = set()
    for f in fails:
        key = (f["copy"], json.dumps(f["cfg"], sort_keys=True), f["clause"])
        if key in seen:
            continue
        seen.add(key)
        run.violation({"copy": f["copy"], "clause": f["clause"], "rnd": f["cfg"]["rnd"], "res": f["cfg"]["res"]}, "%s %s: %s" % (f["copy"], f["cfg"], f["detail"]), f)
    run.exhaustive = True
    run.assumptions = [
        "assembled flows (Assembly.tla): 1..4 features, 1..3 layers, reverse and (injected) random permutations, with / without batch norm between layers",
        "architectures up to the stated bound (features, hidden width, blocks, multiplier) are enumerated by TLC; beyond it 12 networks with 257 / 300 features, on which the harness evaluates the construction rule (output degrees, all-ones dependency pattern, completeness)",
        "dependency of the real function is measured with all-ones weights / identity activation (exact) and by autograd Jacobians for random weights, ReLU, batch norm (train and eval) and dropout (subset)",
    ]
