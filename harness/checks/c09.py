"""C09 - spline transformers are increasing bijections of their box, identity in the tails.

(S) TLC proves on the exact rational model (spec/Spline.tla, four families, bins 1..3, unit / asymmetric /
    tail boxes, degenerate and non-uniform parameters): StrictlyIncreasing, ContinuousAtKnots,
    ContinuousAtTailBound, EndPointsPinned, RangeWithinBox, TailIdentity, PositiveDerivative.
(R) every lattice case is executed on the real spline functions in float64 and float32 on a grid made of
    the lattice points (all knots, end points, tail junction) and their floating-point neighbours: monotone,
    inside the box, end points pinned, tails bit-identical with zero log-det, no jump across knots; values
    are compared with the exact model (drift).
"""
from __future__ import annotations

from vcore import splinerun


def extra_cases(run):
    """Configurations outside the lattice that the property names explicitly: one bin with tails."""
    import warnings

    warnings.filterwarnings("ignore")
    import torch
    from nflows.transforms import splines

    x = torch.tensor([-0.5, 0.0, 0.7, 1.0, -1.0, 2.0], dtype=torch.float64)
    fns = {
        "linear": lambda: splines.unconstrained_linear_spline(x, torch.zeros(6, 1, dtype=torch.float64), tail_bound=1.0),
        "quadratic": lambda: splines.unconstrained_quadratic_spline(x, torch.zeros(6, 1, dtype=torch.float64), torch.zeros(6, 0, dtype=torch.float64), tail_bound=1.0),
        "cubic": lambda: splines.unconstrained_cubic_spline(x, torch.zeros(6, 1, dtype=torch.float64), torch.zeros(6, 1, dtype=torch.float64), torch.zeros(6, 1, dtype=torch.float64), torch.zeros(6, 1, dtype=torch.float64), tail_bound=1.0),
        "rq": lambda: splines.unconstrained_rational_quadratic_spline(x, torch.zeros(6, 1, dtype=torch.float64), torch.zeros(6, 1, dtype=torch.float64), torch.zeros(6, 0, dtype=torch.float64), tail_bound=1.0),
    }
    for fam, fn in fns.items():
        run.case(("one-bin-tails", fam))
        try:
            y, lad = fn()
            ok = bool((y[1:4] >= y[0:3]).all()) and torch.equal(y[5:], x[5:]) and bool(torch.isfinite(y).all())
            if not ok:
                run.violation({"fam": fam, "clause": "one_bin_tails", "tails": True, "bins": 1}, "%s spline with linear tails and one bin: outputs %s" % (fam, y.tolist()), {"kind": "one_bin", "fam": fam})
        except Exception as e:  # noqa
            run.violation({"fam": fam, "clause": "one_bin_tails_raises", "tails": True, "bins": 1}, "%s spline with linear tails and num_bins = 1 raises %r" % (fam, e), {"kind": "one_bin", "fam": fam})


def layer_tail_cases(run):
    """The tails as the layers pass them on: every spline the library builds from (num_bins, tails, tail_bound) - the
    element-wise CDF transforms, the coupling layers (their conditioned spline AND the unconditional spline of the
    identity features) and the autoregressive layers - is the identity with zero log-det outside ITS tail bound,
    for bounds below, at and above one."""
    import warnings

    warnings.filterwarnings("ignore")
    import torch
    from nflows import transforms as TR
    from nflows.nn import nets
    from nflows.transforms import nonlinearities as NL

    def net(i, o):
        return nets.ResidualNet(i, o, hidden_features=6, num_blocks=1)

    for B in (0.5, 1.0, 2.5):
        layers = {}
        for fam in ("Linear", "Quadratic", "Cubic", "RationalQuadratic"):
            layers["Piecewise%sCDF" % fam] = lambda fam=fam: getattr(NL, "Piecewise%sCDF" % fam)([4], num_bins=4, tails="linear", tail_bound=B)
            layers["Piecewise%sCoupling+unconditional" % fam] = lambda fam=fam: getattr(TR, "Piecewise%sCouplingTransform" % fam)([1, 0, 1, 0], net, num_bins=4, tails="linear", tail_bound=B, apply_unconditional_transform=True)
            if fam in ("Quadratic", "RationalQuadratic"):   # (the linear / cubic autoregressive layers have no tails)
                layers["MaskedPiecewise%sAR" % fam] = lambda fam=fam: getattr(TR, "MaskedPiecewise%sAutoregressiveTransform" % fam)(4, 8, num_bins=4, num_blocks=1, tails="linear", tail_bound=B)
        for name, build in layers.items():
            run.case(("layer-tails", name, B))
            torch.manual_seed(11)
            try:
                m = build().double()
            except Exception as e:  # noqa
                run.note_drift("%s(tail_bound=%s) cannot be built: %r" % (name, B, e))
                continue
            g = torch.Generator().manual_seed(5)
            with torch.no_grad():
                for p_ in m.parameters():
                    p_.add_(0.5 * torch.randn(p_.shape, generator=g, dtype=torch.float64))
            m.eval()
            # every feature outside the bound, on both sides, at distances from a few percent to a few bounds
            x = torch.tensor([[1.04, -1.3, 1.9, -4.0], [-1.04, 1.3, -1.9, 4.0], [1.6, 1.08, -1.08, -1.6]], dtype=torch.float64) * B
            for direction in ("forward", "inverse"):
                try:
                    with torch.no_grad():
                        y, lad = getattr(m, direction)(x.clone())
                except Exception as e:  # noqa
                    run.violation({"layer": name, "clause": "tails_raise", "tail_bound": B}, "%s(tail_bound=%s).%s raises %r on inputs beyond the tail bound" % (name, B, direction, e), {"kind": "layer_tails", "layer": name, "B": B})
                    break
                if not torch.equal(y, x) or bool((lad != 0).any()):
                    run.violation({"layer": name, "clause": "tails_not_identity", "tail_bound": B}, "%s(tail_bound=%s).%s: inputs beyond the tail bound %s map to %s with log-det %s (the tails are the identity with zero log-det)" % (name, B, direction, x[0].tolist(), y[0].tolist(), lad.tolist()), {"kind": "layer_tails", "layer": name, "B": B})
                    break


def main(run, replay=None):
    run.rule = (
        "cases = lattice points of Spline.tla (per-bin theta in {0,1/4,1/2,3/4,1} of every bin plus one point on either side) "
        "for every parameter set, executed with their floating-point neighbours in float64 and float32; non-trivial = distinct "
        "parameter sets other than the one-bin linear spline"
    )
    if replay:
        c = replay["case"]
        if c.get("kind") == "one_bin":
            return extra_cases(run)
        if c.get("kind") == "layer_tails":
            return layer_tail_cases(run)
        return splinerun.replay_spline(run, "C09", c)
    splinerun.run_lattice(run, "C09", run.tier == "thorough")
    extra_cases(run)
    layer_tail_cases(run)
    run.exhaustive = True
    run.assumptions = [
        "parameters and inputs on the rational lattice of Spline.tla (bins 1..3, boxes [0,1], [-3,-1]->[-1,0], tails 1, 11/10, 64)",
        "continuity is judged on neighbours one ulp apart: a jump must stay below 64 ulp x slope bound",
    ]
