"""C09 - spline transformers are increasing bijections of their box, identity in the tails.

(S) TLC proves on the exact rational model (spec/Spline.tla, four families, bins 1..3, unit / asymmetric /
    tail boxes, degenerate and non-uniform parameters): StrictlyIncreasing, ContinuousAtKnots,
    ContinuousAtTailBound, EndPointsPinned, RangeWithinBox, TailIdentity, PositiveDerivative.
(R) every lattice case is executed on the real spline functions in float64 and float32 on a grid made of
    the lattice points (all knots, end points, tail junction) and their floating-point neighbours: monotone,
    inside the box, end points pinned, tails bit-identical with zero log-det, no jump across knots; values
    are compared with the exact model (drift).
"""
from __future__ import annotations

from vcore import splinerun


def extra_cases(run):
    """Configurations outside the lattice that the property names explicitly: one bin with tails."""
    import warnings

    warnings.filterwarnings("ignore")
    import torch
    from nflows.transforms import splines

    x = torch.tensor([-0.5, 0.0, 0.7, 1.0, -1.0, 2.0], dtype=torch.float64)
    fns = {
        "linear": lambda: splines.unconstrained_linear_spline(x, torch.zeros(6, 1, dtype=torch.float64), tail_bound=1.0),
        "quadratic": lambda: splines.unconstrained_quadratic_spline(x, torch.zeros(6, 1, dtype=torch.float64), torch.zeros(6, 0, dtype=torch.float64), tail_bound=1.0),
        "cubic": lambda: splines.unconstrained_cubic_spline(x, torch.zeros(6, 1, dtype=torch.float64), torch.zeros(6, 1, dtype=torch.float64), torch.zeros(6, 1, dtype=torch.float64), torch.zeros(6, 1, dtype=torch.float64), tail_bound=1.0),
        "rq": lambda: splines.unconstrained_rational_quadratic_spline(x, torch.zeros(6, 1, dtype=torch.float64), torch.zeros(6, 1, dtype=torch.float64), torch.zeros(6, 0, dtype=torch.float64), tail_bound=1.0),
    }
    for fam, fn in fns.items():
        run.case(("one-bin-tails", fam))
        try:
            y, lad = fn()
            ok = bool((y[1:4] >= y[0:3]).all()) and torch.equal(y[5:], x[5:]) and bool(torch.isfinite(y).all())
            if not ok:
                run.violation({"fam": fam, "clause": "one_bin_tails", "tails": True, "bins": 1}, "%s spline with linear tails and one bin: outputs %s" % (fam, y.tolist()), {"kind": "one_bin", "fam": fam})
        except Exception as e:  # noqa
            run.violation({"fam": fam, "clause": "one_bin_tails_raises", "tails": True, "bins": 1}, "%s spline with linear tails and num_bins = 1 raises %r" % (fam, e), {"kind": "one_bin", "fam": fam})


def main(run, replay=None):
    run.rule = (
        "cases = lattice points of Spline.tla (per-bin theta in {0,1/4,1/2,3/4,1} of every bin plus one point on either side) "
        "for every parameter set, executed with their floating-point neighbours in float64 and float32; non-trivial = distinct "
        "parameter sets other than the one-bin linear spline"
    )
    if replay:
        c = replay["case"]
        if c.get("kind") == "one_bin":
            return extra_cases(run)
        return splinerun.replay_spline(run, "C09", c)
    splinerun.run_lattice(run, "C09", run.tier == "thorough")
    extra_cases(run)
    run.exhaustive = True
    run.assumptions = [
        "parameters and inputs on the rational lattice of Spline.tla (bins 1..3, boxes [0,1], [-3,-1]->[-1,0], tails 1, 11/10, 64)",
        "continuity is judged on neighbours one ulp apart: a jump must stay below 64 ulp x slope bound",
    ]
