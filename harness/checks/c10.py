"""C10 - weight caching in linear transforms is transparent over every history.

(S) TLC checks spec/LinearCache.tla (repaired design) exhaustively for the three class shapes
    (alias / log-det graph) and derives the failing histories of the pinned and permissive designs.
(R) Every edge of the *permissive* design's state graph (every way a cache can go wrong:
    no invalidation on train / load / dtype change) is walked on the real classes; after each call
    outputs, log-dets and input gradients are compared with a freshly built uncached twin.
(T) The recorded histories (action, outcome, slot occupancy, flags) are validated by TLC against
    TraceLinearCache.tla (repaired design).  A rejection while the property holds is DRIFT.
"""
from __future__ import annotations

import json
import os
import random
import re
from vcore.pool import pmap

from vcore import tlc as T
from vcore.tlaval import parse_dot
from vcore.walk import covering_walks

CLASSES = {
    # name: (alias, lad_saves)
    "LULinear": (False, True),
    "QRLinear": (False, False),
    "SVDLinear": (False, True),
    "NaiveLinear": (True, True),
    "OneByOneConvolution": (False, True),
}

PROPS = ["Transparent", "SameOperationsModuloKnown", "CacheOnlyInEval", "CallFillsBoth"]
INVS = ["TypeOK", "TrainingHasNoCache", "CacheIsCurrent"]


def consts(alias, lad, load=True, apply_=True, train=True, inplace=False, copy_=True, train_off=None, frozen_cached=False):
    """load / apply_ / train: True (the step drops the cache), False (never), "either" (permissive)."""
    b = lambda x: "TRUE" if x else "FALSE"
    sset = lambda x: "{TRUE, FALSE}" if x == "either" else "{%s}" % b(x)
    return {
        "WeightAliasesParam": b(alias),
        "LadSaves": b(lad),
        "LoadInvalidates": sset(load),
        "ApplyInvalidates": sset(apply_),
        "TrainInvalidates": sset(train),
        "TrainInvalidatesOff": sset(train if train_off is None else train_off),
        "CachedWhenFrozen": sset(frozen_cached),
        "CopyDrops": sset(copy_),
        "WithInplace": b(inplace),
    }


# --------------------------------------------------------------------------- real objects
def build(cls, D, uc, seed):
    import torch
    from nflows.transforms.conv import OneByOneConvolution
    from nflows.transforms.linear import NaiveLinear
    from nflows.transforms.lu import LULinear
    from nflows.transforms.qr import QRLinear
    from nflows.transforms.svd import SVDLinear

    if cls == "LULinear":
        m = LULinear(D, using_cache=uc, identity_init=False)
    elif cls == "QRLinear":
        m = QRLinear(D, num_householder=3, using_cache=uc)
    elif cls == "SVDLinear":
        m = SVDLinear(D, num_householder=2, using_cache=uc, identity_init=False)
    elif cls == "NaiveLinear":
        m = NaiveLinear(D, orthogonal_initialization=False, using_cache=uc)
    elif cls == "OneByOneConvolution":
        m = OneByOneConvolution(D, using_cache=uc, identity_init=False)
    else:
        raise ValueError(cls)
    g = torch.Generator().manual_seed(seed)
    with torch.no_grad():
        for n, p in m.named_parameters():
            if n == "_weight":
                p.copy_(torch.eye(D) + 0.3 * torch.randn(D, D, generator=g))
            elif "q_vectors" in n:
                p.copy_(torch.randn(p.shape, generator=g) + 0.1)
            else:
                p.copy_(torch.rand(p.shape, generator=g) - 0.5)
        if D >= 32:
            for n, p in m.named_parameters():
                p.mul_(0.03)   # keep the wide layer well conditioned
        if D >= 32 and hasattr(m, "unconstrained_upper_diag"):
            # wide layer: a diagonal around 0.3 - the determinant (0.3^D) is far below the single-precision
            # range, its logarithm is an ordinary number
            m.unconstrained_upper_diag.copy_(torch.log(torch.expm1(torch.full((D,), 0.3) + 0.02 * torch.rand(D, generator=g))))
    return m


def perturb_state(m, g, amp=0.3):
    import torch

    sd = {}
    for k, v in m.state_dict().items():
        if v.dtype.is_floating_point:
            sd[k] = v + amp * torch.randn(v.shape, generator=g).to(v.dtype)
        else:
            sd[k] = v.clone()
    return sd


def classify_exc(e):
    s = str(e)
    if "second time" in s:
        return "raise_graph"
    if "inplace operation" in s or "in-place" in s:
        return "raise_inplace"
    if re.search(r"dtype|scalar type|Float|Double|same type", s):
        return "raise_dtype"
    return "raise_other"


class Driver:
    """Applies spec actions to a real object and records a trace."""

    def __init__(self, cls, D, uc, seed, variant="direct"):
        import torch
        from nflows.transforms.base import CompositeTransform

        self.torch = torch
        self.cls, self.D, self.uc0, self.seed = cls, D, uc, seed
        self.variant = variant
        self.m = build(cls, D, uc, seed)
        # "parent": the user switches modes, loads state and converts dtype on an enclosing container
        self.box = CompositeTransform([self.m]) if variant == "parent" else None
        self.g = torch.Generator().manual_seed(seed + 1)
        if cls == "OneByOneConvolution":
            self.x0 = torch.randn(2, D, 2, 3, generator=self.g, dtype=torch.float64)
        else:
            self.x0 = torch.randn(4, D, generator=self.g, dtype=torch.float64)
        self.w1 = torch.randn(self.x0.shape, generator=self.g, dtype=torch.float64)
        self.w2 = torch.randn(self.x0.shape[0], generator=self.g, dtype=torch.float64)
        self.amp = 0.3 if D < 32 else 0.004      # (a wide triangular factor with O(1) noise is singular in practice)
        self.opt = torch.optim.SGD(self.m.parameters(), lr=0.5 if D < 32 else 0.005)
        self.dt = "f32"
        self.events = []
        self.history = []
        self.bw_since_fill = False  # a cached backward succeeded since the cache was last dropped

    def dtype(self):
        return self.torch.float32 if self.dt == "f32" else self.torch.float64

    def twin(self):
        t = build(self.cls, self.D, False, self.seed)
        t.to(self.dtype())
        t.load_state_dict(self.m.state_dict())
        flags = {n: p.requires_grad for n, p in self.m.named_parameters()}
        for n, p in t.named_parameters():
            p.requires_grad_(flags.get(n, True))
        t.train()  # training mode never consults the cache
        return t

    def _run(self, mod, dir_, bw):
        torch = self.torch
        x = self.x0.to(self.dtype()).clone()
        if bw:
            x.requires_grad_(True)
        f = mod.forward if dir_ == "fwd" else mod.inverse
        out, lad = f(x)
        # what callers (the coupling layers among them) do with the returned log-det: accumulate into it in
        # place.  The same operation must work on the cached path - and must not reach into the cache.
        if not bw:
            lad = lad.detach()
            out = out.detach()
            lad += 1.0
            lad -= 1.0
            out += 0.0
        grad = None
        pgrad = None
        if bw:
            for p in mod.parameters():
                p.grad = None
            loss = (out * self.w1.to(out.dtype)).sum() + (lad * self.w2.to(lad.dtype)).sum()
            loss.backward()
            grad = x.grad
            # gradients with respect to the parameters: the cached transform must support the same
            # back-propagation as the uncached one
            pgrad = torch.cat([(p.grad if p.grad is not None else torch.zeros_like(p)).reshape(-1) for p in mod.parameters()])
            for p in mod.parameters():
                p.grad = None
        return out.detach(), lad.detach(), grad, pgrad

    def project(self):
        m = self.m
        c = m.cache
        pd = next(m.parameters()).dtype
        return {
            "tr": bool(m.training),
            "uc": bool(m.using_cache),
            "dt": "f32" if pd == self.torch.float32 else "f64",
            "occ": [c.weight is not None, c.inverse is not None, c.logabsdet is not None],
            "fz": not any(p.requires_grad for p in m.parameters()),
        }

    def apply(self, name, args):
        """Returns (event, failure) where failure is None or dict(outcome=..., detail=...)."""
        torch = self.torch
        m = self.m
        ev = {"a": name}
        fail = None
        if name == "Train":
            if self.variant == "parent":
                self.box.train()
            elif self.variant == "train_arg":
                m.train(True)
            else:
                m.train()
            self.bw_since_fill = False
        elif name == "Eval":
            if self.variant == "parent":
                self.box.eval()
            elif self.variant == "train_arg":
                m.train(False)
            else:
                m.eval()
        elif name == "UseCache":
            m.use_cache(bool(args[0]))
            ev["b"] = bool(args[0])
        elif name == "OptStep":
            for p in m.parameters():
                p.grad = torch.randn(p.shape, generator=self.g).to(p.dtype)
            self.opt.step()
            self.opt.zero_grad(set_to_none=True)
        elif name == "Load":
            if self.variant == "parent":
                self.box.load_state_dict(perturb_state(self.box, self.g, self.amp))
            else:
                m.load_state_dict(perturb_state(m, self.g, self.amp))
            self.bw_since_fill = False
        elif name == "InplaceEdit":
            with torch.no_grad():
                for p in m.parameters():
                    p.add_(self.amp * torch.randn(p.shape, generator=self.g).to(p.dtype))
        elif name == "ToDtype":
            d = str(args[0])
            tgt = self.box if self.variant == "parent" else m
            tgt.double() if d == "f64" else tgt.float()
            self.dt = d
            ev["d"] = d
            self.bw_since_fill = False
        elif name == "SetFrozen":
            for p in m.parameters():
                p.requires_grad_(not bool(args[0]))
            ev["b"] = bool(args[0])
        elif name == "Copy":
            import copy as _copy

            try:
                tgt = _copy.deepcopy(self.box if self.variant == "parent" else m)
                o = "ok"
            except Exception as e:  # noqa
                tgt, o = None, "raise_copy"
                fail = {"outcome": o, "detail": "copy.deepcopy of the transform raised %s (the uncached transform copies in every state)" % repr(e)[:160], "prior_cached_backward": self.bw_since_fill}
            if tgt is not None:
                if self.variant == "parent":
                    self.box, self.m = tgt, tgt._transforms[0]
                else:
                    self.m = tgt
                self.opt = torch.optim.SGD(self.m.parameters(), lr=self.opt.param_groups[0]["lr"])
            ev["o"] = o
        elif name == "Call":
            dir_, bw = str(args[0]), bool(args[1])
            ev.update(dir=dir_, bw=bw)
            cached_mode = (not m.training) and m.using_cache
            tw = self.twin()
            try:
                exp = self._run(tw, dir_, bw)
                twin_exc = None
            except Exception as e:  # noqa
                exp, twin_exc = None, e
            try:
                got = self._run(m, dir_, bw)
                exc = None
            except Exception as e:  # noqa
                got, exc = None, e
            if twin_exc is not None:
                o = "fresh" if exc is not None else "stale"
                if exc is None:
                    fail = {"outcome": "twin_raises_only", "detail": repr(twin_exc)[:200]}
                else:
                    ev["both_raise"] = True
            elif exc is not None:
                o = classify_exc(exc)
                fail = {"outcome": o, "detail": repr(exc)[:300], "prior_cached_backward": self.bw_since_fill}
            else:
                tol = 1e-4 if self.dt == "f32" else 1e-9
                diffs = []
                for a, b in zip(got, exp):
                    if a is None and b is None:
                        continue
                    if a is None or b is None or a.shape != b.shape or a.dtype != b.dtype:
                        diffs.append(float("inf"))
                    else:
                        diffs.append(float((a - b).abs().max() / (1.0 + b.abs().max())))
                bad = [d for d in diffs[:3] if not d <= tol]
                o = "stale" if bad else "fresh"
                if bad:
                    fail = {"outcome": "stale", "detail": "max rel diff vs uncached twin %.3g" % max(diffs[:3])}
                elif len(diffs) > 3 and not diffs[3] <= 10 * tol:
                    o = "param_grad_differs"
                    fail = {"outcome": o, "detail": "parameter gradients of the cached call differ from the uncached twin's by %.3g (relative)" % diffs[3]}
                elif bw and cached_mode:
                    self.bw_since_fill = True
            ev["o"] = o
        else:
            raise T.MachineryError("unknown spec action " + name)
        ev.update(self.project())
        self.events.append(ev)
        self.history.append([name] + [a if isinstance(a, bool) else str(a) for a in args][:2])
        return ev, fail


VARIANTS = ["direct", "train_arg", "parent"]


def history_of_counterexample(stdout):
    """The history (driver actions) of the counterexample TLC printed: the observation variable `res` names the
    step, the flags in the state give its argument."""
    from vcore.tlaval import parse_state

    hist = []
    blocks = re.split(r"^State \d+: .*$", stdout, flags=re.M)[1:]
    for blk in blocks:
        body = blk.split("\n\n")[0] if "\n\n" in blk.strip() else blk
        lines = [l for l in blk.splitlines() if l.startswith("/\\") or l.startswith("  ") or l.startswith("   ")]
        try:
            st = parse_state("\n".join(lines))
        except Exception:  # noqa
            continue
        r = st.get("res")
        if not r:
            continue
        k = str(r["k"])
        if k == "train":
            hist.append(["Train"])
        elif k == "eval":
            hist.append(["Eval"])
        elif k == "use":
            hist.append(["UseCache", bool(st["usingCache"])])
        elif k == "call":
            hist.append(["Call", str(r["dir"]), bool(r["bw"])])
        elif k == "opt":
            hist.append(["OptStep"])
        elif k == "load":
            hist.append(["Load"])
        elif k == "to":
            hist.append(["ToDtype", str(st["dt"])])
        elif k == "copy":
            hist.append(["Copy"])
        elif k == "freeze":
            hist.append(["SetFrozen", bool(st["frozenP"])])
    return hist


def derived_task(task):
    """A history that TLC derived as the failing one for a broken design, on one real class: every call must
    agree with the uncached twin (the real code must not be that design)."""
    import torch

    torch.set_num_threads(1)
    cls, uc, variant, seed, label, hist = task
    out = {"n": 0, "fails": []}
    D = 3 if cls in ("QRLinear", "SVDLinear") else 2
    try:
        d = Driver(cls, D, uc, seed, variant)
    except Exception:  # noqa
        return out
    for h in hist:
        ev, fail = d.apply(h[0], h[1:])
        out["n"] += 1
        if fail:
            fail.update(cls=cls, D=D, uc0=uc, seed=seed, history=list(d.history), step=len(d.history), variant=variant, design=label)
            out["fails"].append(fail)
            break
    return out


def spec_projection(st):
    return (bool(st["training"]), bool(st["usingCache"]), str(st["dt"]), (bool(st["cw"]["filled"]), bool(st["ci"]["filled"]), bool(st["cl"]["filled"])), bool(st["frozenP"]))


def walk_task(task):
    """Runs in a worker process: one class, one initial state, one way of switching modes.  Online
    conformance walk over the permissive graph (follows what the real object does), then random steps."""
    import random as _random

    import torch

    torch.set_num_threads(1)
    from vcore.walk import online_cover

    cls, D, uc, seed, variant, g, init, max_steps, random_steps, label = task
    out = {"traces": [], "fails": [], "steps": 0, "calls": 0, "cls": cls, "label": label, "drift": [], "pairs": set()}
    try:
        d = Driver(cls, D, uc, seed, variant)
    except Exception as e:  # constructor rejected / broken: not this property's business
        out["drift"].append("%s: constructor failed: %r" % (cls, e))
        return out

    def apply_fn(name, args):
        src_hist = len(d.history)
        ev, fail = d.apply(name, args)
        out["steps"] += 1
        if name == "Call":
            out["calls"] += 1
            if ev["uc"] and not ev["tr"]:
                out["pairs"].add((cls, tuple(ev["occ"]), ev["dt"], str(args[0]), bool(args[1])))
        if fail:
            fail.update(cls=cls, D=D, uc0=uc, seed=seed, history=list(d.history), step=len(d.history), variant=d.variant)
            out["fails"].append(fail)
        return (ev["tr"], ev["uc"], ev["dt"], tuple(ev["occ"]), ev["fz"])

    def strip(lab_args):
        return lab_args

    def guard(name, args):
        # enabling conditions of LinearCache.tla's actions, evaluated on the real object
        frozen = not any(p.requires_grad for p in d.m.parameters())
        if name == "OptStep":
            return d.m.training and not frozen
        if name == "Eval":
            return not frozen
        if name == "SetFrozen":
            return d.m.training
        return name != "InplaceEdit"

    # a call's label is (direction, backward): the outcome and whether the cached path was taken are what the
    # designs differ in, i.e. part of the successor, not of the stimulus
    g.edges = [(s_, d_, nm, (ar[:2] if nm == "Call" else ar)) for (s_, d_, nm, ar) in g.edges]
    res = online_cover(g, init, lambda n, a: apply_fn(n, a[:2] if n == "Call" else a), spec_projection, max_steps=max_steps, rnd=_random.Random(seed), random_steps=random_steps, free_guard=guard, free_steps=400)
    out["pairs_tried"] = res["pairs_tried"]
    for cur, lab, proj in res["left_model"][:3]:
        out["drift"].append("%s (%s): after %s the real object is in %s, which no design of the permissive model allows" % (cls, variant, lab, proj))
    out["traces"].append({"uc": uc, "cls": cls, "ev": d.events})
    return out


# --------------------------------------------------------------------------- T leg
def validate_traces(run, traces_by_shape):
    """TLC trace validation of recorded histories against the repaired-design spec."""
    accepted = 0
    for (alias, lad), traces in traces_by_shape.items():
        remaining = list(traces)
        guard = 0
        while remaining and guard < 6:
            guard += 1
            path = os.path.join(T.scratch(), "traces_%s_%s_%d.json" % (alias, lad, guard))
            with open(path, "w") as f:
                json.dump({"total": sum(len(t["ev"]) + 1 for t in remaining), "traces": [{"uc": t["uc"], "ev": t["ev"]} for t in remaining]}, f)
            cfgt = "SPECIFICATION TSpec\nCHECK_DEADLOCK TRUE\nPOSTCONDITION AllAccepted\n"
            cfgt += "CONSTANTS " + " ".join("%s = %s" % kv for kv in consts(alias, lad).items()) + "\n"
            res = T.run_tlc("TraceLinearCache", cfgt, workers=1, coverage=False, env_extra={"TRACE_FILE": path}, deadlock=True, name="trace_lc")
            out = res.stdout
            if res.ok:
                accepted += len(remaining)
                run.states += res.distinct
                run.transitions += res.generated
                break
            if res.violated != "deadlock":
                raise T.MachineryError("trace validation failed unexpectedly (%s):\n%s" % (res.violated, out[-3000:]))
            # last state of the counterexample names tid and l
            tids = re.findall(r"/\\ tid = (\d+)", out)
            ls = re.findall(r"/\\ l = (\d+)", out)
            tid, l = int(tids[-1]), int(ls[-1])
            tr = remaining[tid - 1]
            evn = tr["ev"][l - 1] if l - 1 < len(tr["ev"]) else None
            run.note_drift(
                "trace of %s rejected by TraceLinearCache at event %d: %s (history prefix %s)"
                % (tr["cls"], l, json.dumps(evn), json.dumps([e["a"] for e in tr["ev"][max(0, l - 6) : l]]))
            )
            del remaining[tid - 1]
    return accepted


# --------------------------------------------------------------------------- main
def main(run, replay=None):
    run.rule = (
        "cases = steps of online conformance walks over the permissive LinearCache state graph (every design choice "
        "nondeterministic; the walk follows what the real object does and tries every action in every state it can reach), "
        "per class, initial state and way of switching modes, plus seeded random steps; non-trivial = distinct (class, "
        "slot occupancy, dtype, direction, backward) of calls executed in cached mode"
    )
    if replay:
        c = replay["case"]
        if c.get("kind") == "suite":
            from vcore import suite

            for t in suite.run_suite("linear")["linear"]:
                if t["test"] == c["test"] and t["cls"] == c["cls"] and any(e["a"] == "Call" and e.get("o") == "stale" for e in t["ev"]):
                    run.violation({"cls": t["cls"], "outcome": "stale", "source": "test-suite"}, "replayed: stale call in " + t["test"], c)
            return
        d = Driver(c["cls"], c["D"], c["uc0"], c["seed"], c.get("variant", "direct"))
        last = None
        for h in c["history"]:
            ev, fail = d.apply(h[0], h[1:])
            last = fail
        if last:
            run.violation({"cls": c["cls"], "outcome": last["outcome"], "prior_cached_backward": last.get("prior_cached_backward")}, "replayed: " + last["detail"], c)
        return

    thorough = run.tier == "thorough"
    shapes = sorted(set(CLASSES.values()))
    graphs = {}
    # (S) repaired design: all properties must hold
    for alias, lad in shapes:
        res = T.run_tlc("LinearCache", T.cfg(constants=consts(alias, lad), invariants=INVS, properties=PROPS, view="View"), name="lc_repaired")
        run.model_must_hold(res, "LinearCache repaired alias=%s lad=%s" % (alias, lad))
        run.add_tlc(res, "repaired design alias=%s ladsaves=%s" % (alias, lad), require_actions=["Train", "Eval", "UseCache", "Call", "Load", "ToDtype", "Copy", "SetFrozen"])
    # (S') the spec discriminates: designs without invalidation violate Transparent / SameOperations
    derived = []
    derived_hist = []
    for label, kw, prop in [
        ("no invalidation on load_state_dict", dict(load=False), "Transparent"),
        ("no invalidation on dtype conversion", dict(apply_=False), "SameOperationsModuloKnown"),
        ("no invalidation on train()", dict(train=False), "Transparent"),
        ("train() drops the cache only while using_cache is on", dict(train_off=False), "Transparent"),
        ("cached path taken in training mode while the parameters are frozen", dict(frozen_cached=True), "Transparent"),
        ("cached tensors deep-copied with the module", dict(copy_=False), "CopyWorks"),
        ("repeated backward (known finding)", dict(), "SameOperations"),
    ]:
        res = T.run_tlc("LinearCache", T.cfg(constants=consts(False, True, **kw), properties=[prop], view="View"), name="lc_broken", coverage=False, workers=1)
        if res.ok:
            raise T.MachineryError("spec does not discriminate: design '%s' satisfies %s" % (label, prop))
        hist = history_of_counterexample(res.stdout)
        derived.append({"design": label, "violated": res.violated, "history": hist})
        if hist and "known finding" not in label:
            derived_hist.append((label, hist))
        run.states += res.distinct
        run.transitions += res.generated
    run.extra["counterexamples_derived_for_broken_designs"] = derived
    # permissive graph = stimulus generator
    for alias, lad in shapes:
        res = T.run_tlc(
            "LinearCache",
            T.cfg(constants=consts(alias, lad, load="either", apply_="either", train="either", copy_="either", frozen_cached="either"), view="View"),
            dot=True,
            name="lc_permissive",
            coverage=False,
        )
        graphs[(alias, lad)] = parse_dot(res.dot)
        run.states += res.distinct
        run.transitions += res.generated

    tasks = []
    for cls, shape in CLASSES.items():
        g = graphs[shape]
        for init in g.init:
            uc = bool(g.states[init]["usingCache"])
            for vi, variant in enumerate(VARIANTS):
                # Householder products in 2 dimensions are always symmetric or rotations; 3 features make Q generic
                for D in ([1, 2, 3] if thorough else ([3] if cls in ("QRLinear", "SVDLinear") else [2])):
                    for rep in range(3 if thorough else 1):
                        tasks.append((cls, D, uc, run.seed * 1000 + 10 * vi + rep, variant, g, init, 6000 if thorough else 2500, 600 if thorough else 150, "%s/D=%d/uc=%s/%s" % (cls, D, uc, variant)))
    # one wide layer (96 features): quantities that are fine in the log domain leave the float range otherwise
    gw = graphs[CLASSES["LULinear"]]
    for init in gw.init:
        tasks.append(("LULinear", 96, bool(gw.states[init]["usingCache"]), run.seed * 1000 + 77, "direct", gw, init, 1200 if thorough else 260, 40, "LULinear/D=96/uc=%s/direct" % bool(gw.states[init]["usingCache"])))
    # the failing histories TLC derived for the broken designs, on every real class (both initial cache flags,
    # every way of switching modes): the real code must not be one of those designs
    dtasks = [(cls, uc, variant, run.seed * 1000 + 500 + i, label, hist) for i, (label, hist) in enumerate(derived_hist) for cls in CLASSES for uc in (False, True) for variant in VARIANTS]
    for out in pmap(derived_task, dtasks):
        run.evaluations += out["n"]
        for f in out["fails"]:
            attrs = {"cls": f["cls"], "outcome": f["outcome"], "prior_cached_backward": f.get("prior_cached_backward")}
            case = {k: f[k] for k in ("cls", "D", "uc0", "seed", "history", "variant")}
            run.violation(attrs, "%s (%s mode switching): the history TLC derives for the design '%s' fails on the real class: %s (%s); history %s" % (f["cls"], f["variant"], f["design"], f["outcome"], f["detail"], f["history"]), case)
    run.extra["derived_histories_replayed"] = len(dtasks)
    traces_by_shape = {}
    pairs_tried = 0
    if True:
        for out in pmap(walk_task, tasks):
            run.evaluations += out["steps"]
            pairs_tried += out.get("pairs_tried", 0)
            run.nontrivial |= out["pairs"]
            for dmsg in out["drift"]:
                run.note_drift(dmsg)
            for t in out["traces"]:
                traces_by_shape.setdefault(CLASSES[out["cls"]], []).append(t)
            for f in out["fails"]:
                attrs = {"cls": f["cls"], "outcome": f["outcome"], "prior_cached_backward": f.get("prior_cached_backward")}
                case = {k: f[k] for k in ("cls", "D", "uc0", "seed", "history", "variant")}
                run.violation(attrs, "%s (%s mode switching) after %d steps: %s (%s); last actions %s" % (f["cls"], f["variant"], f["step"], f["outcome"], f["detail"], f["history"][-7:]), case)
    run.extra["state_action_pairs_tried"] = pairs_tried
    for shape, trs in traces_by_shape.items():
        if trs:
            run.sample({"class": trs[0]["cls"], "history_prefix": trs[0]["ev"][:8]})
    # (T) on executions nobody here wrote: Linear objects as the repository's own tests use them
    from vcore import suite

    sd = suite.run_suite("linear")
    n_suite = 0
    for t in sd["linear"]:
        stale = [i for i, e in enumerate(t["ev"]) if e["a"] == "Call" and e.get("o") == "stale"]
        if stale and not t.get("mock"):
            e = t["ev"][stale[0]]
            run.violation({"cls": t["cls"], "outcome": "stale", "source": "test-suite"}, "%s in %s: %s call differs from the uncached computation (cache occupancy %s, training=%s, using_cache=%s)" % (t["cls"], t["test"], e["dir"], e["occ"], e["tr"], e["uc"]), {"kind": "suite", "test": t["test"], "cls": t["cls"]})
            continue
        traces_by_shape.setdefault(CLASSES.get(t["cls"], (False, True)), []).append({"uc": t["uc"], "cls": "%s (test-suite: %s)" % (t["cls"], t["test"].split("::")[-1]), "ev": t["ev"]})
        n_suite += 1
        run.evaluations += len(t["ev"])
    run.extra["suite_linear_histories"] = {"pytest": sd["pytest_tail"], "histories": n_suite, "events": sum(len(t["ev"]) for t in sd["linear"]), "recorder_errors": sd["n_errors"]}
    run.traces = validate_traces(run, traces_by_shape)
    run.exhaustive = True
    run.assumptions = [
        "parameter versions abstracted to {current, stale}; the uncached twin built from the same working tree is the oracle",
        "alphabet = the property's: train, eval, use_cache, forward, inverse, forward/inverse+backward, optimiser step in training mode, load_state_dict, dtype conversion; plus copy.deepcopy of the transform (an operation of the uncached transform)",
        "test-suite leg: Linear objects as the repository's tests use them (mocked subclasses: occupancy and flags only), recorded by vcore.suite_rec and validated by the same trace specification",
        "TLC 1.8 and the TLA+ value parser are trusted",
    ]
