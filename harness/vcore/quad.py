"""Composite Gauss-Legendre quadrature of exp(log_density) in 1, 2 (and tensor-product n) dimensions."""
from __future__ import annotations

import numpy as np


def nodes_1d(a, b, panels=64, order=16):
    xs, ws = np.polynomial.legendre.leggauss(order)
    edges = np.linspace(a, b, panels + 1)
    h = (edges[1:] - edges[:-1]) / 2.0
    m = (edges[1:] + edges[:-1]) / 2.0
    x = (m[:, None] + h[:, None] * xs[None, :]).reshape(-1)
    w = (h[:, None] * ws[None, :]).reshape(-1)
    return x, w


def integrate(logp, bounds, panels=64, order=16, dtype=None, chunk=200000):
    """logp: callable on a [N, D] float tensor returning [N] log densities.  bounds: [(a, b)] * D."""
    import torch

    dtype = dtype or torch.float64
    grids = [nodes_1d(a, b, panels, order) for a, b in bounds]
    xs = np.meshgrid(*[g[0] for g in grids], indexing="ij")
    ws = np.meshgrid(*[g[1] for g in grids], indexing="ij")
    pts = np.stack([x.reshape(-1) for x in xs], axis=1)
    w = np.prod(np.stack([x.reshape(-1) for x in ws], axis=1), axis=1)
    total = 0.0
    with torch.no_grad():
        for i in range(0, len(pts), chunk):
            lp = logp(torch.tensor(pts[i : i + chunk], dtype=dtype))
            total += float((torch.exp(lp.double()) * torch.tensor(w[i : i + chunk])).sum())
    return total


def lobatto(n):
    """Gauss-Lobatto nodes / weights on [-1, 1] (end points included)."""
    P = np.polynomial.legendre.Legendre.basis(n - 1)
    x = np.concatenate([[-1.0], np.sort(P.deriv().roots().real), [1.0]])
    w = 2.0 / (n * (n - 1) * P(x) ** 2)
    return x, w


def integrate_adaptive_1d(logp, a, b, tol=1e-7, order=10, init_panels=200, max_rounds=48, dtype=None, extra_edges=(), max_panels=200000):
    """Adaptive composite quadrature in one dimension for integrands with kinks and jumps.  A panel is
    accepted when (i) Gauss-Legendre on the panel and on its two halves agree and (ii) Gauss-Legendre and
    Gauss-Lobatto on the panel agree - the Lobatto rule samples the end points, so a jump hiding between the
    outermost Gauss node and the panel edge is seen.  Otherwise the panel is bisected.
    logp: callable on a [N, 1] tensor returning [N] log densities."""
    import torch

    dtype = dtype or torch.float64
    xs, ws = np.polynomial.legendre.leggauss(order)
    xl, wl = lobatto(order + 1)

    def rule(lo, hi, nodes, weights):
        h = (hi - lo) / 2.0
        m = (hi + lo) / 2.0
        x = (m[:, None] + h[:, None] * nodes[None, :])
        with torch.no_grad():
            lp = logp(torch.tensor(x.reshape(-1, 1), dtype=dtype)).double().numpy().reshape(x.shape)
        return (np.exp(lp) * weights[None, :]).sum(1) * h

    edges = np.linspace(a, b, init_panels + 1)
    if len(extra_edges):
        ee = np.array([e for e in extra_edges if a < e < b])
        edges = np.unique(np.concatenate([edges, ee]))
    lo, hi = edges[:-1], edges[1:]
    whole = rule(lo, hi, xs, ws)
    total = 0.0
    for _ in range(max_rounds):
        mid = (lo + hi) / 2.0
        left, right = rule(lo, mid, xs, ws), rule(mid, hi, xs, ws)
        lob = rule(lo, hi, xl, wl)
        err = np.abs(left + right - whole) + np.abs(lob - whole)
        ok = (err <= tol * np.maximum(1e-3, (hi - lo) / (b - a))) | ((hi - lo) < 1e-13 * (b - a))
        total += float((left + right)[ok].sum())
        if ok.all():
            return total
        bad = ~ok
        if int(bad.sum()) * 2 > max_panels or not np.isfinite(err[bad]).all():
            # an integrand that is not a number somewhere (every panel containing the spot fails for ever and the
            # work doubles each round), or one that needs more panels than any density should: no value
            return float("nan")
        lo, hi, whole = np.concatenate([lo[bad], mid[bad]]), np.concatenate([mid[bad], hi[bad]]), np.concatenate([left[bad], right[bad]])
    return total + float(whole.sum())


def integrate_adaptive_2d(logp, bounds, tol=1e-6, order=7, init_panels=40, max_rounds=14, max_cells=60000, dtype=None, chunk=250000, extra_edges=((), ())):
    """Adaptive tensor-product Gauss-Legendre cubature on a rectangle for smooth integrands: a cell is
    accepted when the rule on the cell and the sum over its four quarters agree; otherwise it is split.
    logp: callable on an [N, 2] tensor returning [N] log densities.  Returns (integral, converged)."""
    import torch

    dtype = dtype or torch.float64
    xs, ws = np.polynomial.legendre.leggauss(order)
    X1, X2 = np.meshgrid(xs, xs, indexing="ij")
    W = (ws[:, None] * ws[None, :]).reshape(-1)
    n1, n2 = X1.reshape(-1), X2.reshape(-1)

    def rule(lo, hi):
        # lo, hi: [M, 2]
        h = (hi - lo) / 2.0
        m = (hi + lo) / 2.0
        pts = np.stack([m[:, 0:1] + h[:, 0:1] * n1[None, :], m[:, 1:2] + h[:, 1:2] * n2[None, :]], axis=-1).reshape(-1, 2)
        vals = np.empty(len(pts))
        with torch.no_grad():
            for i in range(0, len(pts), chunk):
                vals[i : i + chunk] = torch.exp(logp(torch.tensor(pts[i : i + chunk], dtype=dtype)).double()).numpy()
        return (vals.reshape(len(lo), -1) * W[None, :]).sum(1) * h[:, 0] * h[:, 1]

    (a1, b1), (a2, b2) = bounds
    e1 = np.linspace(a1, b1, init_panels + 1)
    e2 = np.linspace(a2, b2, init_panels + 1)
    # edges placed by the caller (geometrically around a suspected spike) join the initial grid
    e1 = np.unique(np.concatenate([e1, np.array([e for e in extra_edges[0] if a1 < e < b1])]))
    e2 = np.unique(np.concatenate([e2, np.array([e for e in extra_edges[1] if a2 < e < b2])]))
    L1, L2 = np.meshgrid(e1[:-1], e2[:-1], indexing="ij")
    H1, H2 = np.meshgrid(e1[1:], e2[1:], indexing="ij")
    lo = np.stack([L1.reshape(-1), L2.reshape(-1)], 1)
    hi = np.stack([H1.reshape(-1), H2.reshape(-1)], 1)
    whole = rule(lo, hi)
    area = (b1 - a1) * (b2 - a2)
    total = 0.0
    for _ in range(max_rounds):
        mid = (lo + hi) / 2.0
        q_lo = np.concatenate([lo, np.stack([mid[:, 0], lo[:, 1]], 1), np.stack([lo[:, 0], mid[:, 1]], 1), mid], 0)
        q_hi = np.concatenate([mid, np.stack([hi[:, 0], mid[:, 1]], 1), np.stack([mid[:, 0], hi[:, 1]], 1), hi], 0)
        q = rule(q_lo, q_hi).reshape(4, -1)
        fine = q.sum(0)
        cell = (hi[:, 0] - lo[:, 0]) * (hi[:, 1] - lo[:, 1])
        ok = np.abs(fine - whole) <= tol * np.maximum(1e-4, cell / area)
        total += float(fine[ok].sum())
        if ok.all():
            return total, True
        bad = np.nonzero(~ok)[0]
        if 4 * len(bad) > max_cells:
            return total + float(fine[bad].sum()), False
        sel = np.concatenate([bad + k * len(lo) for k in range(4)])
        lo, hi, whole = q_lo[sel], q_hi[sel], q.reshape(-1)[sel]
    return total + float(whole.sum()), False
