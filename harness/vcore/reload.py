"""Leg of C15: spec/Reload.tla enumerates every checkpoint protocol (what the source did before saving,
what the destination did before loading - switched to evaluation mode, smoke runs -, the route the state
dict took, train()/eval() afterwards); every protocol is executed on zoo models and the reloaded model
must compute the saved function bit for bit."""
from __future__ import annotations

import random
import re

from . import tlc as T
from .pool import pmap
from .tlaval import parse_state


def protocols(run):
    res = T.run_tlc("Reload", T.cfg(constants={"LoadDrops": "TRUE", "ConvertDrops": "TRUE"}, invariants=["TypeOK", "ReloadPreservesFunction", "LoadInvalidates"]), dump=True, name="reload", workers=4)
    run.model_must_hold(res, "Reload")
    run.add_tlc(res, "Reload (loading drops derived state)", require_actions=["Train", "UseSrc", "FrozenPhase", "BuildDst", "EvalFirst", "DoUseDst", "DoLoad", "Retrain", "DoUseLoaded", "Convert", "Compare"])
    for label, consts in (("derived state kept across load_state_dict", {"LoadDrops": "FALSE", "ConvertDrops": "TRUE"}), ("derived tensors neither converted nor dropped by .double()", {"LoadDrops": "TRUE", "ConvertDrops": "FALSE"})):
        bad = T.run_tlc("Reload", T.cfg(constants=consts, invariants=["ReloadPreservesFunction"]), coverage=False, name="reload_broken", workers=4)
        if bad.ok:
            raise T.MachineryError("Reload.tla does not discriminate: the design '%s' satisfies ReloadPreservesFunction" % label)
        run.states += bad.distinct
        run.transitions += bad.generated
        run.extra.setdefault("counterexamples_derived_for_broken_designs", []).append({"design": label, "violated": bad.violated})
    out = []
    with open(res.dump) as f:
        txt = f.read()
    for blk in re.split(r"^State \d+:\s*$", txt, flags=re.M):
        if '/\\ phase = "compared"' not in blk:
            continue
        st = parse_state(blk)
        out.append({"src": sorted(str(v) for v in st["srcHist"]), "eval_first": bool(st["evalFirst"]), "used": sorted(str(v) for v in st["dstUsed"]), "route": str(st["route"]), "retrained": bool(st["retrained"]), "used_after": sorted(str(v) for v in st["usedAfter"]), "converted": bool(st["converted"])})
    return out


def _ops(e):
    if e.kind == "transform":
        return ["forward"] + (["inverse"] if e.has("inv") else [])
    if e.kind == "dist":
        return ["log_prob"] + (["sample"] if e.has("sample") else [])
    return ["log_prob", "transform_to_noise", "sample"]


def _call(torch, m, e, op, x, y, c, c1):
    if op == "forward":
        return m.forward(x.clone(), c) if c is not None else m.forward(x.clone())
    if op == "inverse":
        return m.inverse(y.clone(), c) if c is not None else m.inverse(y.clone())
    if op == "log_prob":
        return m.log_prob(x.clone(), c) if c is not None else m.log_prob(x.clone())
    if op == "transform_to_noise":
        return m.transform_to_noise(x.clone(), c) if c is not None else m.transform_to_noise(x.clone())
    torch.manual_seed(777)
    return m.sample(3, context=c1) if c1 is not None else m.sample(3)


def probe(torch, m, e, data):
    from .session import tensors_of

    x, y, c, c1 = data
    outs = []
    with torch.no_grad():
        for op in _ops(e):
            try:
                outs.append((op, tensors_of(_call(torch, m, e, op, x, y, c, c1))))
            except Exception as ex:  # noqa
                outs.append((op, "raised:" + type(ex).__name__))
    return outs


def run_protocol(torch, e, proto, seed):
    """Returns None (same function), a description of the difference, or ('skip', reason)."""
    from nflows.transforms.linear import Linear

    from . import zoo
    from .session import same_result

    data = (e.x(4, seed), e.y(4, seed), e.ctx(4, seed), e.ctx(2, seed + 1))
    x, y, c, c1 = data
    src = e.build(seed)
    if "trained" in proto["src"] or e.has("needs_init"):
        zoo.prepare(e, src, seed)
    if "frozen_phase" in proto["src"]:
        # frozen, used in training mode, released (the parameter changes of "trained" come afterwards)
        src.train()
        for p in src.parameters():
            p.requires_grad_(False)
        with torch.no_grad():
            for op in _ops(e)[:2]:
                try:
                    _call(torch, src, e, op, x, y, c, c1)
                except Exception:  # noqa
                    pass
        for p in src.parameters():
            p.requires_grad_(True)
    if "trained" in proto["src"]:
        g = torch.Generator().manual_seed(seed + 9)
        with torch.no_grad():
            for p in src.parameters():
                if p.requires_grad:
                    p.add_(0.05 * torch.randn(p.shape, generator=g).to(p.dtype))
    if "frozen_phase" in proto["src"] and "trained" in proto["src"]:
        for p in src.parameters():
            p.requires_grad_(False)      # frozen again when it is saved and evaluated (no train() call in between)
    src.eval()
    if "used" in proto["src"]:
        probe(torch, src, e, data)
    dst = e.build(seed + 4711, alt=True)
    if proto["eval_first"]:
        dst.eval()
    for k in proto["used"]:
        try:
            if k == "nograd":
                with torch.no_grad():
                    _call(torch, dst, e, _ops(e)[0], x, y, c, c1)
            elif k == "fwd":
                _call(torch, dst, e, _ops(e)[0], x, y, c, c1)
            else:
                ops = _ops(e)
                _call(torch, dst, e, "inverse" if "inverse" in ops else ("sample" if "sample" in ops else ops[0]), x, y, c, c1)
        except Exception:  # noqa  (an uninitialised / training-mode destination may refuse a call: not this leg's business)
            pass
    route = proto["route"]
    try:
        if route == "container":
            box_s, box_d = torch.nn.ModuleList([src]), torch.nn.ModuleList([dst])
            box_d.load_state_dict(box_s.state_dict())
        elif route == "plain_dict":
            dst.load_state_dict({k: v.detach().clone() for k, v in src.state_dict().items()})   # no _metadata
        else:
            dst.load_state_dict(src.state_dict())
    except Exception as ex:  # noqa
        return "load_state_dict raised %r" % (ex,)
    if proto["retrained"]:
        dst.train()
    dst.eval()
    # the source starts from empty caches and then makes the same evaluation-mode calls as the loaded model, so
    # that on a correct tree both fill their caches along the same sequence of calls (a cached logabsdet that
    # was computed together with the inverse may differ in the last bit from one computed with the weight)
    # (not after a frozen phase alone: training-mode use derives nothing that could be left, so the source is
    # probed exactly as its history left it)
    if "used" in proto["src"] or "frozen_phase" not in proto["src"]:
        for mod in src.modules():
            if isinstance(mod, Linear):
                mod.cache.invalidate()
    for k in proto.get("used_after", []):
        ops = _ops(e)
        op = ops[0] if k == "fwd" else ("inverse" if "inverse" in ops else ("sample" if "sample" in ops else ops[0]))
        # (before a conversion only the loaded model is used: the reference then starts from empty caches,
        # which is what a conversion that drops - or converts - derived tensors amounts to)
        for m_ in ((dst,) if proto.get("converted") else (src, dst)):
            try:
                with torch.no_grad():
                    _call(torch, m_, e, op, x, y, c, c1)
            except Exception:  # noqa
                pass
    if proto.get("converted"):
        # C19's leg: the reference is the loaded model's own copy, taken before the conversion with its weight
        # caches emptied (so a defect of the load itself - C15's business - cannot show here); both go to double
        # precision and the probes then use double inputs
        import copy

        src = copy.deepcopy(dst)
        for mod in src.modules():
            if isinstance(mod, Linear):
                mod.cache.invalidate()
        try:
            src, dst = src.double(), dst.double()
        except Exception as ex:  # noqa
            return "conversion to double raised %r" % (ex,)
        data = tuple(t_.double() if t_ is not None and torch.is_floating_point(t_) else t_ for t_ in data)
    a, b = probe(torch, src, e, data), probe(torch, dst, e, data)

    def close(r1, r2):
        # after a conversion a design may convert its derived tensors instead of recomputing them: they then
        # carry single-precision rounding, which is not a different function
        return len(r1) == len(r2) and all(p.shape == q.shape and p.dtype == q.dtype and torch.allclose(p, q, rtol=1e-4, atol=1e-4, equal_nan=True) for p, q in zip(r1, r2))

    for (o1, r1), (o2, r2) in zip(a, b):
        ok = (r1 == r2) if isinstance(r1, str) or isinstance(r2, str) else (close(r1, r2) if proto.get("converted") else same_result(r1, r2))
        if not ok:
            if isinstance(r1, str) or isinstance(r2, str):
                who = ("copy converted from empty caches", "used-then-converted model") if proto.get("converted") else ("source", "reloaded model")
                return "%s: %s %s, %s %s" % (o1, who[0], r1 if isinstance(r1, str) else "returns", who[1], r2 if isinstance(r2, str) else "returns")
            d = max(float((p - q).abs().max()) if p.shape == q.shape and p.numel() else float("inf") for p, q in zip(r1, r2))
            return "%s differs (max |diff| %.3g%s)" % (o1, d, ", dtypes %s vs %s" % (r1[0].dtype, r2[0].dtype) if r1[0].dtype != r2[0].dtype else "")
    return None


def task(t):
    import warnings

    warnings.filterwarnings("ignore")
    import torch

    torch.set_num_threads(1)
    from . import zoo

    names, protos, seed, per_model = t
    Z = zoo.by_name()
    out = {"n": 0, "fails": [], "skipped": []}
    for name in names:
        e = Z[name]
        rnd = random.Random(hash(name) % 1000 + seed)
        chosen = protos if per_model is None else rnd.sample(protos, min(per_model, len(protos)))
        for proto in chosen:
            try:
                r = run_protocol(torch, e, proto, seed)
            except Exception as ex:  # noqa
                out["skipped"].append("%s %s: %r" % (name, proto, ex))
                continue
            out["n"] += 1
            if r is not None:
                out["fails"].append({"kind": "reload_converted" if proto.get("converted") else "reload", "name": name, "proto": proto, "seed": seed, "detail": "%s, protocol source %s / destination%s%s / route %s%s%s%s: %s" % (name, proto["src"] or ["fresh"], " eval() first" if proto["eval_first"] else "", (" used " + ",".join(proto["used"])) if proto["used"] else "", proto["route"], " / train(), eval() after the load" if proto["retrained"] else "", (" / then used " + ",".join(proto["used_after"])) if proto.get("used_after") else "", " / then .double()" if proto.get("converted") else "", r)})
                break
    return out


def run_leg(run, converted=False):
    """converted=False: C15's protocols (the reloaded model against the saved one, bit for bit);
    converted=True: C19's protocols (the loaded, used model converted to double precision against its own
    copy converted from empty caches)."""
    from . import zoo

    thorough = run.tier == "thorough"
    allp = protocols(run)
    protos = [p for p in allp if p["converted"] == converted]
    run.extra["reload_protocols_in_spec"] = len(allp)
    names = [e.name for e in zoo.entries() if not e.has("umnn")]
    run.extra["reload_protocols"] = len(protos)
    per_model = (60 if thorough else 6) if converted else (300 if thorough else 14)
    nproc = 8
    fails, skipped = [], []
    for out in pmap(task, [(names[i::nproc * 2], protos, run.seed, per_model) for i in range(nproc * 2) if names[i::nproc * 2]], nproc):
        run.evaluations += out["n"]
        fails += out["fails"]
        skipped += out["skipped"]
    run.extra["reload_skipped"] = skipped[:10]
    for p in protos:
        run.nontrivial.add(("reload", tuple(p["src"]), p["eval_first"], tuple(p["used"]), p["route"], p["retrained"], tuple(p["used_after"]), p["converted"]))
    if protos:
        run.sample({"reload_protocol": protos[len(protos) // 2]})
    return fails


def replay(run, c):
    import torch

    from . import zoo

    r = run_protocol(torch, zoo.by_name()[c["name"]], c["proto"], c["seed"])
    return [r] if r is not None else []
