"""setup_cmd: parse every specification with SANY and import-test the harness. Nothing is built
or cached from /repo."""
import glob
import os
import sys

from .tlc import SPEC_DIR, sany


def main():
    bad = 0
    for p in sorted(glob.glob(os.path.join(SPEC_DIR, "*.tla"))):
        ok, out = sany(p)
        print(("ok   " if ok else "FAIL ") + os.path.basename(p))
        if not ok:
            print(out[-2000:])
            bad += 1
    import torch  # noqa
    import nflows  # noqa

    print("nflows from", os.path.dirname(nflows.__file__), "torch", torch.__version__)
    return 1 if bad else 0
