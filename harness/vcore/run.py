"""Book-keeping shared by all checks: verdicts, known findings, evidence, replay files."""
from __future__ import annotations

import hashlib
import json
import os
import sys
import time
import traceback

from .tlc import VERIF, MachineryError
from .tlaval import to_jsonable

EVID_DIR = os.path.join(VERIF, "evidence")
REPLAY_DIR = os.path.join(VERIF, "replays")
FINDINGS = os.path.join(VERIF, "known_findings.json")


def load_findings():
    if not os.path.exists(FINDINGS):
        return []
    with open(FINDINGS) as f:
        return json.load(f)["findings"]


def _match(entry_key, attrs):
    for k, want in entry_key.items():
        have = attrs.get(k, None)
        if isinstance(want, list):
            if have not in want:
                return False
        elif have != want:
            return False
    return True


class Run:
    def __init__(self, pid, tier="quick", seed=0, technique=""):
        self.pid = pid
        self.tier = tier
        self.seed = seed
        self.t0 = time.time()
        self.states = 0
        self.transitions = 0
        self.tlc_runs = []
        self.evaluations = 0
        self.nontrivial = set()
        self.samples = []
        self.traces = 0
        self.violations = []  # (attrs, msg, replay_path)
        self.known_hits = {}  # finding id -> count
        self.drift = []
        self.assumptions = []
        self.extra = {}
        self.rule = ""
        self.exhaustive = False
        self.findings = [f for f in load_findings() if f["property"] == pid]
        self.replay_mode = False
        self.actions_cov = {}
        self.replayed = None  # TLC-generated states / behaviours driven through the implementation

    # ---- model checking leg
    def add_tlc(self, res, label=None, require_actions=()):
        self.states += res.distinct
        self.transitions += res.generated
        s = res.summary()
        s["label"] = label or ""
        s["coverage"] = {k: list(v) for k, v in res.coverage.items()}
        self.tlc_runs.append(s)
        for a in require_actions:
            if res.coverage.get(a, (0, 0))[1] == 0:
                raise MachineryError("vacuity: action %s never taken in %s" % (a, label))
        for k, v in res.coverage.items():
            self.actions_cov[k] = self.actions_cov.get(k, 0) + v[1]

    def model_must_hold(self, res, label):
        """The spec of the (repaired) design must satisfy its properties; otherwise the model or the
        design is wrong and nothing downstream is meaningful -> machinery failure."""
        if not res.ok:
            raise MachineryError("TLC reports %s violated on %s:\n%s" % (res.violated, label, (res.error or "")[:3000]))

    # ---- conformance leg
    def case(self, key=None, n=1):
        self.evaluations += n
        if key is not None:
            self.nontrivial.add(key)

    def sample(self, obj, limit=6):
        if len(self.samples) < limit:
            self.samples.append(to_jsonable(obj))

    def note_drift(self, msg):
        if len(self.drift) < 50:
            self.drift.append(msg)
        if len(self.drift) <= 10:
            print("DRIFT property=%s %s" % (self.pid, msg))

    def violation(self, attrs, msg, case=None):
        """attrs: dict describing the failing case (matched against known findings).
        case: JSON-able dict from which `check --replay` can re-execute the case."""
        for f in self.findings:
            if f.get("status") == "known" and _match(f["key"], attrs):
                fid = f["id"]
                self.known_hits[fid] = self.known_hits.get(fid, 0) + 1
                return "known"
        payload = {"property": self.pid, "attrs": to_jsonable(attrs), "message": msg, "case": to_jsonable(case)}
        blob = json.dumps(payload, sort_keys=True, default=str)
        h = hashlib.sha1(blob.encode()).hexdigest()[:12]
        d = os.path.join(REPLAY_DIR, self.pid)
        os.makedirs(d, exist_ok=True)
        path = os.path.join(d, h + ".json")
        if not self.replay_mode:
            with open(path, "w") as f:
                f.write(json.dumps(payload, indent=1, sort_keys=True, default=str))
        if len(self.violations) < 200:
            self.violations.append((attrs, msg, path))
        return "violation"

    # ---- finish
    def finish(self, level="model_checking"):
        wall = time.time() - self.t0
        for fid, n in sorted(self.known_hits.items()):
            f = next(x for x in self.findings if x["id"] == fid)
            print("KNOWN-FINDING: property=%s %s [%s, %d case(s)]" % (self.pid, f["description"], fid, n))
        seen = set()
        for attrs, msg, path in self.violations:
            if path in seen:
                continue
            seen.add(path)
            if len(seen) <= 25:
                print("VIOLATION property=%s replay=%s  %s" % (self.pid, path, msg[:400].replace("\n", " ")))
        cov = {
            "states": self.states,
            "transitions": self.transitions,
            # recorded traces accepted by a trace specification + TLC-generated states / behaviours
            # replayed on the implementation (distinct ones)
            "traces_validated_against_impl": self.traces + (self.replayed if self.replayed is not None else len(self.nontrivial)),
            "recorded_traces_accepted_by_trace_spec": self.traces,
            "spec_behaviours_replayed_on_impl": (self.replayed if self.replayed is not None else len(self.nontrivial)),
            "samples": self.samples or [{"note": "no sample recorded"}],
            "evaluations": self.evaluations,
            "distinct_nontrivial": len(self.nontrivial),
            "rule": self.rule,
            "exhaustive": self.exhaustive,
            "tlc_runs": self.tlc_runs,
            "spec_actions_taken": self.actions_cov,
            "drift": self.drift,
            "known_findings_hit": self.known_hits,
        }
        cov.update(self.extra)
        ev = {
            "property_id": self.pid,
            "tier": self.tier,
            "seed": int(self.seed),
            "level": level,
            "coverage": cov,
            "assumptions": self.assumptions,
            "wall_s": round(wall, 2),
            "violations": len(seen),
        }
        if not self.replay_mode:
            os.makedirs(EVID_DIR, exist_ok=True)
            tmp = os.path.join(EVID_DIR, self.pid + ".json.tmp")
            with open(tmp, "w") as f:
                json.dump(ev, f, indent=1, default=str)
            os.replace(tmp, os.path.join(EVID_DIR, self.pid + ".json"))
        print(
            "%s %s: states=%d transitions=%d evaluations=%d nontrivial=%d traces=%d known=%d drift=%d violations=%d wall=%.1fs"
            % (self.pid, self.tier, self.states, self.transitions, self.evaluations, len(self.nontrivial), self.traces, sum(self.known_hits.values()), len(self.drift), len(seen), wall)
        )
        return 1 if seen else 0


def main_wrapper(fn, pid, argv):
    """Common CLI: check <ID> [--tier T] [--replay PATH]. Exit 0 ok, 1 violation, 2 machinery."""
    tier = os.environ.get("VERIF_TIER", "quick")
    replay = None
    i = 0
    while i < len(argv):
        if argv[i] == "--tier":
            tier = argv[i + 1]
            i += 2
        elif argv[i] == "--replay":
            replay = argv[i + 1]
            i += 2
        else:
            print("unknown argument", argv[i])
            return 2
    seed = int(os.environ.get("VERIF_SEED", "0") or 0)
    run = Run(pid, tier, seed)
    # watchdog: a check that does not finish is a machinery failure, never a silent hang (quick 30 min, thorough
    # 3 h; VERIF_WATCHDOG_S overrides).  The process group is killed so that no worker or TLC run survives.
    import signal

    limit = int(os.environ.get("VERIF_WATCHDOG_S", "0") or 0) or (10800 if tier == "thorough" else 1800)

    def _watchdog(signum, frame):
        print("MACHINERY-FAILURE property=%s: watchdog: no result after %d s" % (pid, limit), flush=True)
        try:
            # every descendant (pool workers, TLC's JVM), found through /proc
            me = os.getpid()
            parent = {}
            for d in os.listdir("/proc"):
                if d.isdigit():
                    try:
                        with open("/proc/%s/stat" % d) as f:
                            parent[int(d)] = int(f.read().rsplit(")", 1)[1].split()[1])
                    except Exception:  # noqa
                        pass
            doomed, frontier = [], [me]
            while frontier:
                cur = frontier.pop()
                for c_, p_ in parent.items():
                    if p_ == cur and c_ not in doomed:
                        doomed.append(c_)
                        frontier.append(c_)
            for c_ in doomed:
                try:
                    os.kill(c_, signal.SIGKILL)
                except Exception:  # noqa
                    pass
        except Exception:  # noqa
            pass
        os._exit(2)

    try:
        signal.signal(signal.SIGALRM, _watchdog)
        signal.alarm(limit)
    except Exception:  # noqa  (not the main thread: no watchdog)
        pass
    try:
        if replay:
            run.replay_mode = True
            with open(replay) as f:
                payload = json.load(f)
            fn(run, replay=payload)
            rc = 1 if run.violations else 0
            for attrs, msg, path in run.violations[:5]:
                print("VIOLATION property=%s replay=%s  %s" % (pid, replay, msg))
            if rc == 0:
                print("replay: case no longer fails")
            return rc
        fn(run)
        return run.finish()
    except MachineryError as e:
        print("MACHINERY-FAILURE property=%s: %s" % (pid, e))
        return 2
    except Exception:
        traceback.print_exc()
        print("MACHINERY-FAILURE property=%s: unexpected exception in harness" % pid)
        return 2
