"""Leg of C02: spec/Autoreg.tla (the pass-by-pass inverse of autoregressive transforms) replayed on
every autoregressive transform class.  The conditioner's forward is spied on: what it is fed in pass k
must be right on exactly the features the specification says are right by then, and what is returned
must be the pre-image."""
from __future__ import annotations

from . import tlc as T
from .pool import pmap
from .tlaval import parse_dump

CLASSES = ["affine", "affine/ctx", "affine/random-masks", "linear", "quadratic/tails", "cubic", "rq/tails+ctx", "rq/box"]


def spec_runs(run, max_d):
    res = T.run_tlc("Autoreg", T.cfg(constants={"MaxD": max_d, "PassesOffset": 0}, invariants=["PrefixRight", "InverseFound", "CallLog"], properties=["Monotone"]), dump=True, name="autoreg", workers=2)
    run.model_must_hold(res, "Autoreg")
    run.add_tlc(res, "Autoreg (D passes)", require_actions=["Pass", "Return"])
    bad = T.run_tlc("Autoreg", T.cfg(constants={"MaxD": max_d, "PassesOffset": "<- MinusOne"}, invariants=["InverseFound"]), name="autoreg_short", coverage=False, workers=2)
    if bad.ok:
        raise T.MachineryError("Autoreg.tla does not discriminate: D - 1 passes satisfy InverseFound")
    run.states += bad.distinct
    run.transitions += bad.generated
    run.extra.setdefault("counterexamples_derived_for_broken_designs", []).append({"design": "autoregressive inverse with D - 1 passes", "violated": bad.violated})
    out = {}
    for st in parse_dump(res.dump):
        if str(st["phase"]) == "returned":
            out[int(st["D"])] = [sorted(int(i) for i in s) for s in st["calls"]]
    return out


def build(cls, D, seed):
    import torch
    from nflows import transforms as TR

    torch.manual_seed(seed)
    ctx = 2 if "ctx" in cls else None
    kw = dict(features=D, hidden_features=8, context_features=ctx, num_blocks=1)
    if cls.startswith("affine"):
        m = TR.MaskedAffineAutoregressiveTransform(random_mask="random" in cls, use_residual_blocks="random" not in cls, **kw)
    elif cls == "linear":
        m = TR.MaskedPiecewiseLinearAutoregressiveTransform(num_bins=4, **kw)
    elif cls == "quadratic/tails":
        m = TR.MaskedPiecewiseQuadraticAutoregressiveTransform(num_bins=4, tails="linear", tail_bound=2.0, **kw)
    elif cls == "cubic":
        m = TR.MaskedPiecewiseCubicAutoregressiveTransform(num_bins=4, **kw)
    elif cls == "rq/tails+ctx":
        m = TR.MaskedPiecewiseRationalQuadraticAutoregressiveTransform(num_bins=4, tails="linear", tail_bound=2.0, **kw)
    else:
        m = TR.MaskedPiecewiseRationalQuadraticAutoregressiveTransform(num_bins=4, **kw)
    g = torch.Generator().manual_seed(seed + 1)
    with torch.no_grad():
        for p in m.parameters():
            p.add_(0.5 * torch.randn(p.shape, generator=g))
    boxed = cls in ("linear", "cubic", "rq/box")
    x = (torch.rand(3, D, generator=g, dtype=torch.double) * 0.8 + 0.1) if boxed else torch.randn(3, D, generator=g, dtype=torch.double)
    c = torch.randn(3, ctx, generator=g, dtype=torch.double) if ctx else None
    return m.double().eval(), x, c


def task(t):
    import warnings

    warnings.filterwarnings("ignore")
    import torch

    torch.set_num_threads(1)
    cases, calls_by_d = t
    out = {"n": 0, "fails": [], "drift": []}
    for cls, D, seed in cases:
        tag = {"kind": "ar_inverse", "cls": cls, "D": D, "seed": seed}
        try:
            m, x, c = build(cls, D, seed)
            with torch.no_grad():
                y, lad = m(x, c)
        except Exception as e:  # noqa
            out["drift"].append("autoregressive %s D=%d cannot be built / run forward: %r" % (cls, D, e))
            continue
        fed = []
        net = m.autoregressive_net
        orig = net.forward

        def spy(inputs, context=None, _orig=orig):
            fed.append(inputs.detach().clone())
            return _orig(inputs, context)

        net.forward = spy
        try:
            with torch.no_grad():
                xr, lad2 = m.inverse(y, c)
        except Exception as e:  # noqa
            out["fails"].append(dict(tag, clause="inverse_raises", detail="inverse(forward(x)) raised %r" % (e,)))
            continue
        finally:
            del net.forward
        out["n"] += 1
        spec = calls_by_d[D]
        tol = 1e-6
        right = lambda a, i: bool(torch.allclose(a[:, i], x[:, i], atol=tol, rtol=tol))
        if not all(right(xr, i) for i in range(D)):
            wrong = [i for i in range(D) if not right(xr, i)]
            out["fails"].append(dict(tag, clause="inverse_not_found", detail="%s (D=%d): inverse(forward(x)) is wrong in features %s (max error %.3g) after %d conditioner passes; the specification needs %d" % (cls, D, wrong, float((xr - x).abs().max()), len(fed), len(spec))))
            continue
        if not torch.allclose(lad + lad2, torch.zeros_like(lad), atol=1e-6):
            out["fails"].append(dict(tag, clause="inverse_logabsdet", detail="%s (D=%d): logabsdet of the inverse is not the negative of the forward one (sum %.3g)" % (cls, D, float((lad + lad2).abs().max()))))
            continue
        # conformance to the pass structure (drift: a different but correct algorithm is allowed)
        if len(fed) != len(spec):
            out["drift"].append("%s D=%d: %d conditioner passes, specification %d" % (cls, D, len(fed), len(spec)))
            continue
        for k, (a, good) in enumerate(zip(fed, spec)):
            got = [i + 1 for i in range(D) if right(a, i)]
            if not set(good) <= set(got):
                out["drift"].append("%s D=%d: pass %d is fed values right on %s, specification says at least %s" % (cls, D, k + 1, got, good))
                break
            if k == 0 and bool((a != 0).any()):
                out["drift"].append("%s D=%d: the first pass is not fed zeros" % (cls, D))
    return out


def run_leg(run):
    thorough = run.tier == "thorough"
    max_d = 6 if thorough else 4
    calls = spec_runs(run, max_d)
    cases = [(cls, D, run.seed + s) for cls in CLASSES for D in range(1, max_d + 1) for s in range(3 if thorough else 1)]
    fails = []
    nproc = 8
    for out in pmap(task, [(cases[i::nproc], calls) for i in range(nproc) if cases[i::nproc]], nproc):
        run.evaluations += out["n"]
        fails += out["fails"]
        for d in out["drift"][:2]:
            run.note_drift(d)
    for cls, D, s in cases:
        if D > 1:
            run.nontrivial.add(("ar_inverse", cls, D))
    run.sample({"autoregressive_inverse": {"D": max_d, "conditioner_is_fed_values_right_on": calls[max_d]}})
    return fails


def replay(run, c):
    calls = spec_runs(run, max(4, c["D"]))
    return [f for f in task(([(c["cls"], c["D"], c["seed"])], calls))["fails"] if f["clause"] == c["clause"]]
