"""The spline lattice: spec/Spline.tla's exact rational cases -> calls of the real spline functions.

`lattice(run, families, rich)` runs TLC, returns the parsed 'done' states as cases
    {par: {...}, pts: [(x Fraction, outcome dict)]}
`RealSpline(par, dtype)` evaluates the real nflows function for such a case (parameters are fed as
pre-images so that the normalised quantities are the lattice rationals up to one rounding).
"""
from __future__ import annotations

import math
import re
from fractions import Fraction

from . import tlc as T
from .tlaval import parse_state, rat

INVS = ["InDomainAccepted", "OutOfDomainRejected", "StrictlyIncreasing", "EndPointsPinned", "RangeWithinBox", "TailIdentity",
        "PositiveDerivative", "ContinuousAtKnots", "ContinuousAtTailBound", "DerivativeIsSlope", "CubicSimpson", "RQDerivative"]
MIN_DERIVATIVE = 1e-3


def spline_cfg(families, rich, clamp=True, invariants=INVS):
    fams = "{" + ", ".join('"%s"' % f for f in families) + "}"
    return T.cfg(constants={"Families": fams, "MaxBins": 3, "Rich": "TRUE" if rich else "FALSE", "ClampBin": "TRUE" if clamp else "FALSE"}, invariants=invariants)


def lattice(run, families=("linear", "quadratic", "cubic", "rq"), rich=False, label="Spline"):
    res = T.run_tlc("Spline", spline_cfg(families, rich), dump=True, name="spline", workers=8, timeout=3000)
    run.model_must_hold(res, "Spline")
    run.add_tlc(res, "%s families=%s rich=%s" % (label, list(families), rich), require_actions=["Choose", "EvalAll"])
    cases = []
    with open(res.dump) as f:
        txt = f.read()
    for blk in re.split(r"^State \d+:\s*$", txt, flags=re.M):
        if '/\\ phase = "done"' not in blk:
            continue
        st = parse_state(blk)
        cases.append(to_case(st))
    return cases


def to_case(st):
    p = st["par"]
    par = {"fam": str(p["fam"]), "ws": [int(v) for v in p["ws"]], "tails": bool(p["tails"]), "dt": str(p["dt"])}
    for k in ("left", "right", "bottom", "top"):
        par[k] = rat(p[k])
    for k in ("mbw", "mbh", "dl", "dr"):
        if k in p:
            par[k] = rat(p[k])
    if "hs" in p:
        par["hs"] = [int(v) for v in p["hs"]]
    if "hq" in p:
        par["hq"] = [rat(v) for v in p["hq"]]
    if "ds" in p:
        par["ds"] = [rat(v) for v in p["ds"]]
    pts = []
    for xk, o in st["obs"].items():
        x = rat(xk)
        d = {"o": str(o["o"])}
        if d["o"] == "Value":
            d["y"] = rat(o["y"])
            d["d"] = rat(o["d"])
            d["bin"] = int(o["bin"])
        pts.append((x, d))
    pts.sort(key=lambda t: t[0])
    return {"par": par, "pts": pts}


def par_key(par):
    return repr(sorted((k, str(v)) for k, v in par.items()))


def softplus_inv(y):
    return math.log(math.expm1(y))


class RealSpline:
    """Calls the real spline function of a lattice case."""

    def __init__(self, par, dtype="float64", variant=0):
        """variant: which of the parameter pre-images of the same normalised spline is fed -
        0 the canonical one; 1 / 2 use the invariances of the normalisation (softmax logits shifted by
        -60 / +60; quadratic knot heights scaled by 1e-2 / 1e3, a uniform height vector as the raw
        values -150 / -1000 whose softplus underflows)."""
        import torch

        self.variant = variant

        self.torch = torch
        self.par = par
        self.dtype = getattr(torch, dtype)
        self.K = len(par["ws"])

    def _params(self, n):
        torch = self.torch
        p = self.par
        dt = self.dtype

        def rows(v):
            return torch.tensor(v, dtype=torch.float64).to(dt).unsqueeze(0).expand(n, -1).clone()

        kw = {}
        fam = p["fam"]
        shift = {0: 0.0, 1: -60.0, 2: 60.0, 3: 0.0}[self.variant]
        if fam == "linear":
            kw["unnormalized_pdf"] = rows([math.log(v) + shift for v in p["ws"]])
            return kw
        kw["unnormalized_widths"] = rows([math.log(v) + shift for v in p["ws"]])
        kw["min_bin_width"] = float(p["mbw"])
        kw["min_bin_height"] = float(p["mbh"])
        if fam == "quadratic":
            if self.variant == 3:
                # nearly, but not exactly, equal knot heights (a conditioner whose last layer starts near
                # zero): the normalised spline is no lattice point any more, only the float32-against-
                # float64 clauses are evaluated on it
                kw["unnormalized_heights"] = rows([softplus_inv(float(h) - 1e-3) + 1e-3 * ((k + 1) // 2) * (-1) ** k for k, h in enumerate(p["hq"])])
            elif self.variant and len(set(p["hq"])) == 1:
                kw["unnormalized_heights"] = rows([{1: -150.0, 2: -1000.0}[self.variant]] * len(p["hq"]))
            else:
                lam = {0: 1.0, 1: 1e-2, 2: 1e3, 3: 1.0}[self.variant]
                kw["unnormalized_heights"] = rows([softplus_inv(lam * float(h) - 1e-3) if lam * float(h) < 30 else lam * float(h) - 1e-3 for h in p["hq"]])
        elif fam == "cubic" and self.variant == 3:
            # nearly flat: every unnormalised parameter is noise of size 1e-6 around the flat spline
            tiny = lambda n_, o: [1e-6 * ((k + o) % 3 - 1) * (1 + k) for k in range(n_)]
            kw["unnormalized_widths"] = rows(tiny(self.K, 0))
            kw["unnormalized_heights"] = rows(tiny(self.K, 1))
            kw["unnorm_derivatives_left"] = rows([2e-6])
            kw["unnorm_derivatives_right"] = rows([-3e-6])
        elif fam == "cubic":
            kw["unnormalized_heights"] = rows([math.log(v) - shift for v in p["hs"]])
            kw["unnorm_derivatives_left"] = rows([math.log(float(p["dl"]) / (1 - float(p["dl"])))])
            kw["unnorm_derivatives_right"] = rows([math.log(float(p["dr"]) / (1 - float(p["dr"])))])
        elif fam == "rq":
            kw["unnormalized_heights"] = rows([math.log(v) - shift for v in p["hs"]])
            ds = p["ds"][1:-1] if p["tails"] else p["ds"]
            kw["unnormalized_derivatives"] = rows([softplus_inv(float(d) - MIN_DERIVATIVE) for d in ds]) if ds else torch.zeros(n, 0, dtype=dt)
            kw["min_derivative"] = MIN_DERIVATIVE
        return kw

    def call_transposed(self, xs, inverse=False):
        """The same values as a genuinely non-contiguous 2-D tensor (the transpose of an [n, 2] array),
        with the parameters laid out to match.  Returns like call(), for the first row."""
        torch = self.torch
        x = xs if isinstance(xs, torch.Tensor) else torch.tensor(xs, dtype=torch.float64).to(self.dtype)
        n = x.shape[0]
        x2 = torch.stack([x, x], dim=1).t()          # [2, n], strides (1, 2)
        assert not x2.is_contiguous()
        return self.call(x2, inverse=inverse, _rows=n)

    def call(self, xs, inverse=False, _rows=None):
        """xs: list of floats (or a tensor).  Returns (outcome, y tensor, lad tensor) where outcome is
        'Value', 'InputOutsideDomain' or 'Crash:<ExcName>: msg'.  One call for the whole batch."""
        torch = self.torch
        from nflows.transforms import splines
        from nflows.transforms.base import InputOutsideDomain

        p = self.par
        x = xs if isinstance(xs, torch.Tensor) else torch.tensor(xs, dtype=torch.float64).to(self.dtype)
        n = x.shape[0] if _rows is None else _rows
        kw = self._params(n)
        if _rows is not None:
            kw = {k: (v.unsqueeze(0).expand(2, *v.shape).contiguous() if isinstance(v, torch.Tensor) else v) for k, v in kw.items()}
        fam = p["fam"]
        if p["tails"]:
            fn = {"linear": splines.unconstrained_linear_spline, "quadratic": splines.unconstrained_quadratic_spline, "cubic": splines.unconstrained_cubic_spline, "rq": splines.unconstrained_rational_quadratic_spline}[fam]
            kw.update(tails="linear", tail_bound=float(p["right"]))
        else:
            fn = {"linear": splines.linear_spline, "quadratic": splines.quadratic_spline, "cubic": splines.cubic_spline, "rq": splines.rational_quadratic_spline}[fam]
            kw.update(left=float(p["left"]), right=float(p["right"]), bottom=float(p["bottom"]), top=float(p["top"]))
        try:
            y, lad = fn(x, inverse=inverse, **kw)
        except InputOutsideDomain:
            return "InputOutsideDomain", None, None
        except Exception as e:  # noqa
            return "Crash:%s: %s" % (type(e).__name__, str(e)[:100]), None, None
        if _rows is not None:
            y, lad = y[0], lad[0]
        return "Value", y, lad


def describe(par):
    box = "[%s,%s]->[%s,%s]" % (par["left"], par["right"], par["bottom"], par["top"])
    extra = []
    for k in ("hs", "hq", "ds", "dl", "dr", "mbw", "mbh"):
        if k in par:
            v = par[k]
            extra.append("%s=%s" % (k, [str(x) for x in v] if isinstance(v, list) else str(v)))
    return "%s spline K=%d ws=%s %s%s %s" % (par["fam"], len(par["ws"]), par["ws"], box, " tails" if par["tails"] else "", " ".join(extra))


def jsonable_par(par):
    out = {}
    for k, v in par.items():
        if isinstance(v, Fraction):
            out[k] = [v.numerator, v.denominator]
        elif isinstance(v, list):
            out[k] = [[x.numerator, x.denominator] if isinstance(x, Fraction) else x for x in v]
        else:
            out[k] = v
    return out


def par_from_json(j):
    out = {}
    for k, v in j.items():
        if k in ("left", "right", "bottom", "top", "mbw", "mbh", "dl", "dr"):
            out[k] = Fraction(v[0], v[1])
        elif k in ("hq", "ds"):
            out[k] = [Fraction(a, b) for a, b in v]
        else:
            out[k] = v
    return out
