"""Leg of C12 / C13: spec/Nets.tla (the conditioner networks of nflows/nn/nets as stage programs with
abstract attributes) replayed on the real ResidualNet / ConvResidualNet / MLP.

For every finished pass TLC reaches (constructor arguments x mode history) the real network is built,
driven through the same mode history, and at the last call
  * the stage list `trace` of the specification is interpreted with the real parameters (functional
    torch primitives, batch norm written out by hand) and compared with the real forward value and
    with the running statistics the call left behind,
  * the four abstract attributes (inputs reach the output, context reaches it, rows coupled, depends on
    the random generator) and the set of written batch-norm buffers are measured and compared.
Row coupling in an evaluation-mode pass is a C12 clause; randomness or a written buffer in an
evaluation-mode pass is a C13 clause; every other mismatch is model drift (reported, exit 0)."""
from __future__ import annotations

from . import tlc as T
from .pool import pmap
from .tlaval import parse_dump

INVS = ["TypeOK", "EvalPure", "InputsReach", "ContextIff", "TrainCouples", "RandomIff", "SkipBalanced", "TraceIsProgram"]
PROPS = ["ModeStable"]
CONSTS = {"MaxBlocks": 2, "MaxCalls": 2}
CONSTS_THOROUGH = {"MaxBlocks": 3, "MaxCalls": 3}
ACTIONS = ["SetMode", "Begin", "Enter", "RowWise", "Save", "BatchNorm", "Dropout", "Glu", "Add"]


def is_done(s):
    tr = s["trace"]
    if not tr:
        return False
    last = tr[-1]
    return str(last["op"]) == "final" or (str(last["op"]) == "reshape" and int(last["i"]) == 1)


def cases_of(sts):
    seen = {}
    for s in sts:
        if not is_done(s):
            continue
        c = s["cfg"]
        cfg = {"kind": str(c["kind"]), "blocks": int(c["blocks"]), "bn": bool(c["bn"]), "drop": bool(c["drop"]), "ctx": bool(c["ctx"]), "actout": bool(c["actout"])}
        modes = [str(m) for m in s["modes"]]
        key = (tuple(sorted(cfg.items())), tuple(modes))
        if key in seen:
            continue
        seen[key] = {
            "cfg": cfg,
            "modes": modes,
            "val": {k: bool(v) for k, v in dict(s["val"]).items()},
            "writes": sorted([int(w[0]), int(w[1])] for w in s["writes"]),
            "trace": [[str(t["op"]), int(t["b"]), int(t["i"])] for t in s["trace"]],
        }
    return [seen[k] for k in sorted(seen)]


def build(cfg, act):
    import torch
    from nflows.nn import nets

    k = cfg["kind"]
    if k == "residual":
        net = nets.ResidualNet(3, 4, 6, context_features=2 if cfg["ctx"] else None, num_blocks=cfg["blocks"], activation=act, dropout_probability=0.35 if cfg["drop"] else 0.0, use_batch_norm=cfg["bn"])
        shapes = ((5, 3), (5, 2))
    elif k == "conv":
        net = nets.ConvResidualNet(2, 3, 4, context_channels=2 if cfg["ctx"] else None, num_blocks=cfg["blocks"], activation=act, dropout_probability=0.35 if cfg["drop"] else 0.0, use_batch_norm=cfg["bn"])
        shapes = ((4, 2, 3, 3), (4, 2, 3, 3))
    else:
        net = nets.MLP((2, 3), (4,), [5] * (cfg["blocks"] + 1), activation=act, activate_output=cfg["actout"])
        shapes = ((5, 2, 3), None)
    net = net.double()
    with torch.no_grad():
        for n, p in net.named_parameters():
            p.copy_(torch.randn_like(p) * 0.6)
        for n, b in net.named_buffers():
            if n.endswith("running_mean"):
                b.copy_(torch.randn_like(b) * 0.5)
            elif n.endswith("running_var"):
                b.copy_(torch.rand_like(b) + 0.5)
    return net, shapes


def interpret(pre, cfg, trace, x, c, mode, act):
    """The specification's stage list executed with the parameters of `pre` (never calls a forward of nflows)."""
    import torch
    import torch.nn.functional as F

    conv = cfg["kind"] == "conv"

    def lin(m, t, pad=0):
        return F.conv2d(t, m.weight, m.bias, padding=pad) if conv else F.linear(t, m.weight, m.bias)

    t, saved, bufs = None, None, {}
    for op, b, i in trace:
        if op == "initial":
            t = lin(pre.initial_layer, torch.cat((x, c), dim=1) if cfg["ctx"] else x)
        elif op == "reshape":
            t = x.reshape(x.shape[0], -1) if i == 0 else t.reshape(t.shape[0], 4)
        elif op == "input":
            t = F.linear(t, pre._input_layer.weight, pre._input_layer.bias)
        elif op == "hidden":
            h = pre._hidden_layers[b]
            t = F.linear(t, h.weight, h.bias)
        elif op == "output":
            t = F.linear(t, pre._output_layer.weight, pre._output_layer.bias)
        elif op == "final":
            t = lin(pre.final_layer, t)
        elif op == "save":
            saved = t
        elif op == "act":
            t = act(t)
        elif op == "lin":
            blk = pre.blocks[b]
            t = lin((blk.conv_layers if conv else blk.linear_layers)[i], t, pad=1 if conv else 0)
        elif op == "bn":
            m = pre.blocks[b].batch_norm_layers[i]
            dims = (0, 2, 3) if conv else (0,)
            shp = (1, -1, 1, 1) if conv else (1, -1)
            if mode == "train":
                n = t.numel() // t.shape[1]
                mean = t.mean(dims)
                var = t.var(dims, unbiased=False)
                mom = m.momentum
                bufs[(b, i)] = ((1 - mom) * m.running_mean + mom * mean, (1 - mom) * m.running_var + mom * var * n / max(n - 1, 1), int(m.num_batches_tracked) + 1)
            else:
                mean, var = m.running_mean, m.running_var
            t = (t - mean.reshape(shp)) / torch.sqrt(var.reshape(shp) + m.eps) * m.weight.reshape(shp) + m.bias.reshape(shp)
        elif op == "drop":
            p = pre.blocks[b].dropout.p
            t = F.dropout(t, p=p, training=(mode == "train"))
        elif op == "glu":
            t = t * torch.sigmoid(lin(pre.blocks[b].context_layer, c))
        elif op == "add":
            t = saved + t
        else:
            raise T.MachineryError("unknown stage %r" % (op,))
    return t, bufs


def task(cases):
    import copy
    import warnings

    warnings.filterwarnings("ignore")
    import torch
    import torch.nn.functional as F

    torch.set_num_threads(1)
    out = {"n": 0, "fails": [], "drift": []}
    TOL = 1e-9

    def differs(a, b):
        if a.shape != b.shape:
            return True
        return bool(((a - b).abs() > TOL).any()) or bool(torch.isnan(a).any() != torch.isnan(b).any())

    for idx, case in enumerate(cases):
        cfg, modes = case["cfg"], case["modes"]
        seed = case.get("seed", 0)
        act = F.relu if (idx + seed) % 2 == 0 else torch.tanh
        if "act" in case:
            act = F.relu if case["act"] == "relu" else torch.tanh
        ident = {"kind": "nets", "cfg": cfg, "modes": modes, "act": "relu" if act is F.relu else "tanh", "seed": seed}
        try:
            torch.manual_seed(1000 + seed)
            net, shapes = build(cfg, act)
            g = torch.Generator().manual_seed(77 + seed)
            pre = x = c = y = None
            for k, m in enumerate(modes):
                net.train(m == "train")
                x = torch.randn(shapes[0], dtype=torch.float64, generator=g)
                c = torch.randn(shapes[1], dtype=torch.float64, generator=g) if cfg["ctx"] else None
                pre = copy.deepcopy(net)
                torch.manual_seed(5 + k)
                y = net(x, c) if cfg["kind"] != "mlp" else net(x)
            kl = len(modes) - 1
            mode = modes[-1]

            def call(n, xx, cc, s):
                torch.manual_seed(s)
                with torch.no_grad():
                    return n(xx, cc) if cfg["kind"] != "mlp" else n(xx)

            out["n"] += 1
            try:
                # (1) value and buffers against the interpreted stage list
                torch.manual_seed(5 + kl)
                with torch.no_grad():
                    y_exp, bufs = interpret(pre, cfg, case["trace"], x, c, mode, act)
                if differs(y.detach(), y_exp):
                    out["drift"].append("%s: forward value differs from the stage program of Nets.tla (max abs %.3g)" % (ident, float((y.detach() - y_exp).abs().max()) if y.shape == y_exp.shape else -1))
                # (2) written buffers
                sd0, sd1 = pre.state_dict(), net.state_dict()
                written = sorted({(int(n.split(".")[1]), int(n.split(".")[3])) for n in sd1 if "batch_norm_layers" in n and not torch.equal(sd0[n], sd1[n]) and n.split(".")[-1] in ("running_mean", "running_var", "num_batches_tracked")})
                params_written = [n for n in sd1 if not torch.equal(sd0[n], sd1[n]) and n.split(".")[-1] not in ("running_mean", "running_var", "num_batches_tracked")]
                want_w = sorted(tuple(w) for w in case["writes"])
                if mode == "eval" and (written or params_written):
                    out["fails"].append(dict(ident, prop="C13", clause="state_written_in_eval", detail="an evaluation-mode forward of %s wrote %s" % (type(net).__name__, [n for n in sd1 if not torch.equal(sd0[n], sd1[n])][:4])))
                elif written != want_w or params_written:
                    out["drift"].append("%s: buffers written %s, specification %s (parameters written: %s)" % (ident, written, want_w, params_written[:2]))
                else:
                    for (b, i), (rm, rv, nbt) in bufs.items():
                        bn = net.blocks[b].batch_norm_layers[i]
                        if differs(bn.running_mean, rm) or differs(bn.running_var, rv) or int(bn.num_batches_tracked) != nbt:
                            out["drift"].append("%s: running statistics of block %d layer %d differ from the momentum rule" % (ident, b, i))
                            break
            except T.MachineryError:
                raise
            except Exception as e:  # noqa - the interpretation is a model comparison: its failure is drift, the attributes are still measured
                out["drift"].append("%s: the stage program cannot be interpreted on this network: %s: %s" % (ident, type(e).__name__, str(e)[:120]))
            # (3) attributes
            x2 = x.clone()
            x2[1:] = x2[1:] * 3.0 + 1.7
            c2 = None
            if c is not None:
                c2 = c.clone()
                c2[1:] = c2[1:] * -2.0 + 0.9
            y0 = call(copy.deepcopy(pre), x, c, 5 + kl)
            if differs(y0, y.detach()):
                out["drift"].append("%s: a copy of the network with the same generator state gives another value" % (ident,))
            coupled = differs(call(copy.deepcopy(pre), x2, c2, 5 + kl)[0], y0[0])
            rnd = any(differs(call(copy.deepcopy(pre), x, c, s_), y0) for s_ in (991, 992, 993, 994))  # masks may coincide on the few live units
            dep_in = differs(call(copy.deepcopy(pre), x * 1.5 + 0.3, c, 5 + kl), y0)
            dep_ctx = differs(call(copy.deepcopy(pre), x, c * 1.5 + 0.3, 5 + kl), y0) if c is not None else False
            want = case["val"]
            # with ReLU a small random network can have every unit on some path dead: an influence the specification
            # predicts may then be unmeasurable (seen: 4 of 3024 passes); only an influence that should NOT exist is
            # reported under ReLU, the tanh passes carry the other direction
            dead_ok = act is F.relu
            if mode == "eval" and coupled:
                out["fails"].append(dict(ident, prop="C12", clause="rows_coupled_in_eval", detail="%s in evaluation mode: changing the other rows of the batch changes row 0 of the output" % type(net).__name__))
            elif coupled != want["coupled"] and not (dead_ok and not coupled):
                out["drift"].append("%s: rows coupled %s, specification %s" % (ident, coupled, want["coupled"]))
            if mode == "eval" and rnd:
                out["fails"].append(dict(ident, prop="C13", clause="random_in_eval", detail="%s in evaluation mode: the output depends on the state of the random generator" % type(net).__name__))
            elif rnd != want["random"] and not (dead_ok and not rnd):
                out["drift"].append("%s: depends on the generator %s, specification %s" % (ident, rnd, want["random"]))
            if dep_in != want["in"] and not (dead_ok and not dep_in):
                out["drift"].append("%s: inputs reach the output %s, specification %s" % (ident, dep_in, want["in"]))
            if dep_ctx != want["ctx"] and not (dead_ok and not dep_ctx):
                out["drift"].append("%s: context reaches the output %s, specification %s" % (ident, dep_ctx, want["ctx"]))
        except T.MachineryError:
            raise
        except Exception as e:  # noqa - code under test must never crash the harness
            out["drift"].append("%s: %s: %s" % (ident, type(e).__name__, str(e)[:160]))
    return out


def model(run, thorough=False, dump=True):
    consts = CONSTS_THOROUGH if thorough else CONSTS
    res = T.run_tlc("Nets", T.cfg(constants=consts, invariants=INVS, properties=PROPS), dump=dump, name="nets", workers=8)
    return res, consts


def run_leg(run, prop, clauses=None):
    """prop: 'C12' or 'C13' - which clauses of the leg are this check's verdicts (or an explicit set of clauses:
    C07 takes 'rows_coupled_in_eval' - a conditioner that mixes rows conditions on other rows' features)."""
    thorough = run.tier == "thorough"
    res, consts = model(run, thorough)
    run.model_must_hold(res, "Nets")
    run.add_tlc(res, "Nets %s" % consts, require_actions=ACTIONS)
    cases = cases_of(parse_dump(res.dump))
    if not cases:
        raise T.MachineryError("Nets.tla: no finished pass in the state dump")
    seeds = (run.seed, run.seed + 1, run.seed + 2) if thorough else (run.seed,)
    work = [dict(c, seed=s) for s in seeds for c in cases]
    nproc = 8
    fails = []
    ndrift = 0
    for out in pmap(task, [work[i::nproc] for i in range(nproc) if work[i::nproc]], nproc):
        run.evaluations += out["n"]
        fails += [f for f in out["fails"] if (f["clause"] in clauses if clauses else f["prop"] == prop)]
        for d in out["drift"]:
            ndrift += 1
            if ndrift <= 3:
                run.note_drift("nets: " + d)
    for c in cases:
        run.nontrivial.add(("nets", tuple(sorted(c["cfg"].items())), tuple(c["modes"])))
    run.traces += len(work)
    run.extra["nets_leg"] = {"passes_replayed": len(work), "configurations": len({tuple(sorted(c["cfg"].items())) for c in cases}), "drift_notes": ndrift}
    c0 = cases[-1]
    run.sample({"nets": {"cfg": c0["cfg"], "modes": c0["modes"], "val": c0["val"], "writes": c0["writes"], "trace": ["%s%d.%d" % tuple(t) for t in c0["trace"]][:14]}})
    seen = set()
    for f in fails:
        key = (f["cfg"]["kind"], f["clause"])
        if key in seen:
            continue
        seen.add(key)
        case = {k: f[k] for k in ("kind", "cfg", "modes", "act", "seed")}
        case["clause"] = f["clause"]
        run.violation({"model": "nets:" + f["cfg"]["kind"], "verdict": f["clause"]}, "conditioner network %s, mode history %s: %s" % (f["cfg"], f["modes"], f["detail"]), case)
    return fails


def replay(run, c, prop, clauses=None):
    res, _ = model(run, thorough=(c["cfg"]["blocks"] > CONSTS["MaxBlocks"] or len(c["modes"]) > CONSTS["MaxCalls"]))
    cases = [dict(k, seed=c["seed"], act=c["act"]) for k in cases_of(parse_dump(res.dump)) if k["cfg"] == c["cfg"] and k["modes"] == c["modes"]]
    for f in task(cases)["fails"]:
        if (f["clause"] in clauses if clauses else f["prop"] == prop) and f["clause"] == c["clause"]:
            run.violation({"model": "nets:" + f["cfg"]["kind"], "verdict": f["clause"]}, "replayed: " + f["detail"], c)
