"""Session engine shared by C13 (side effects) and C15 (save / reload): drives zoo models along
TLC-generated histories of spec/Session.tla, records observations, lets TLC judge the traces."""
from __future__ import annotations

import json
import os
import random
import re
from concurrent.futures import ProcessPoolExecutor

from . import tlc as T
from .tlaval import parse_dot, parse_dump
from .walk import covering_walks

OPS_ORDER = ["forward", "inverse", "log_prob", "sample", "sample_and_log_prob", "transform_to_noise"]


def entry_kind(e):
    import torch  # noqa

    if e.kind == "transform":
        ops = ["forward"] + (["inverse"] if e.has("inv") else [])
    elif e.kind == "dist":
        ops = ["log_prob"] + (["sample", "sample_and_log_prob"] if e.has("sample") else [])
    else:
        ops = ["log_prob", "sample", "sample_and_log_prob", "transform_to_noise"]
    return ops


def model_layers(m):
    """(has batch-norm style running statistics, has ActNorm, prefixes of ActNorm modules)."""
    import torch
    from nflows.transforms.normalization import ActNorm, BatchNorm

    bn = an = False
    anp = []
    for name, mod in m.named_modules():
        if isinstance(mod, (BatchNorm, torch.nn.modules.batchnorm._BatchNorm)):
            bn = True
        if isinstance(mod, ActNorm):
            an = True
            anp.append(name + "." if name else "")
    return bn, an, anp


def categorize(key, anp):
    if key.endswith("__training__"):
        return "mode_flag"
    if key.endswith("__requires_grad__"):
        return "other:requires_grad flag of " + key[: -len(".__requires_grad__")]
    if key.endswith(("running_mean", "running_var", "num_batches_tracked")):
        return "bn_running"
    for p in anp:
        if key in (p + "initialized", p + "log_scale", p + "shift"):
            return "an_init"
    return "other:" + key


def make_arg(torch, x, ik):
    """Returns (arg, watch) where watch is a list of tensors whose content must not change."""
    if x is None:
        return None, []
    if ik in ("plain", "nograd"):
        a = x.clone()
        return a, [a]
    if ik == "wide":
        a = x.clone().double() if x.dtype == torch.float32 else x.clone()
        return a, [a]
    if ik == "shape2":
        a = torch.stack([x, 0.5 * x], dim=1)   # [n, 2, ...]: another event shape, same kind of values
        return a, [a]
    if ik == "view":
        n = x.shape[0]
        big = torch.cat([torch.full_like(x, 7.0), x, torch.full_like(x, -7.0)], dim=0)
        a = big[n : 2 * n]
        return a, [a, big]
    if ik == "noncontig":
        if x.dim() >= 2:
            perm = list(range(x.dim()))
            perm[0], perm[-1] = perm[-1], perm[0]
            a = x.permute(*perm).contiguous().permute(*perm)
        else:
            a = torch.stack([x, x], dim=-1)[..., 0]
        return a, [a]
    if ik == "grad":
        a = x.clone().requires_grad_(True)
        return a, [a]
    raise ValueError(ik)


def full_state(m):
    """Parameters and ALL buffers (persistent or not) - what a call must leave unchanged in eval mode."""
    import torch

    d = {k: v for k, v in m.state_dict().items()}
    for k, v in m.named_buffers():
        d.setdefault(k, v)
    # the mode flag of every (sub-)module is state as well: a call must leave it as it found it
    for k, mod in m.named_modules():
        d[(k + "." if k else "") + "__training__"] = torch.tensor(float(mod.training))
    # ... and so is whether a parameter is trainable
    for k, p_ in m.named_parameters():
        d[k + ".__requires_grad__"] = torch.tensor(float(p_.requires_grad))
    return d


def snap(ts):
    return [(t.detach().clone(), t._version) for t in ts]


def changed(ts, snaps):
    import torch

    for t, (c, v) in zip(ts, snaps):
        if t._version != v:
            return True
        if t.shape != c.shape or not torch.equal(t.detach(), c):
            # NaN-safe second look
            if not (t.shape == c.shape and torch.allclose(t.detach(), c, rtol=0, atol=0, equal_nan=True)):
                return True
    return False


def tensors_of(r):
    if isinstance(r, (tuple, list)):
        return [t.detach() for t in r]
    return [r.detach()]


def same_result(a, b):
    import torch

    if a is None or b is None or len(a) != len(b):
        return False
    for x, y in zip(a, b):
        if x.shape != y.shape or x.dtype != y.dtype:
            return False
        if not torch.allclose(x, y, rtol=0, atol=0, equal_nan=True):
            return False
    return True


class SessionDriver:
    def __init__(self, entry, seed, an_init):
        import torch
        from vcore import zoo

        self.torch = torch
        self.e = entry
        self.seed = seed
        self.reloads = 0
        self.m = entry.build(seed)
        if an_init or (entry.has("needs_init") and not model_layers(self.m)[1]):
            zoo.prepare(entry, self.m, seed)
        self.m.train()
        self.bn, self.an, self.anp = model_layers(self.m)
        self.x = entry.x(4, seed)
        self.y = entry.y(4, seed)
        self.c = entry.ctx(4, seed)
        self.c1 = entry.ctx(2, seed + 1)  # context rows for sampling
        self.last = {}
        self.events = []
        self.history = []
        params = [p for p in self.m.parameters()]
        self.opt = torch.optim.SGD(params, lr=0.05) if params else None
        self.g = torch.Generator().manual_seed(seed + 99)

    def call(self, op, ik):
        torch = self.torch
        m, e = self.m, self.e
        ik_arg = ik if (ik != "shape2" or e.has("anyshape")) else "plain"
        self.ncalls = getattr(self, "ncalls", 0) + 1
        if op in ("forward", "log_prob", "transform_to_noise"):
            a, w1 = make_arg(torch, self.x, ik_arg)
            c, w2 = make_arg(torch, self.c, ik_arg if ik_arg != "shape2" else "plain")
            if op == "forward":
                fn = lambda: m.forward(a, c) if c is not None else m.forward(a)
            elif op == "log_prob":
                fn = lambda: m.log_prob(a, c) if c is not None else m.log_prob(a)
            else:
                fn = lambda: m.transform_to_noise(a, c) if c is not None else m.transform_to_noise(a)
        elif op == "inverse":
            a, w1 = make_arg(torch, self.y, ik_arg)
            c, w2 = make_arg(torch, self.c, ik_arg if ik_arg != "shape2" else "plain")
            fn = lambda: m.inverse(a, c) if c is not None else m.inverse(a)
        else:
            c, w2 = make_arg(torch, self.c1, ik_arg if ik_arg != "shape2" else "plain")
            w1 = []
            f = m.sample if op == "sample" else m.sample_and_log_prob
            # for the sampling operations the input kind also selects the number of draws per row
            n = 1 if ik in ("view", "grad") else 3 if ik != "nograd" else 2
            fn = lambda: f(n, context=c) if c is not None else f(n)
        watch = w1 + w2
        s0 = snap(watch)
        sd0 = {k: v.detach().clone() for k, v in full_state(m).items()}
        torch.manual_seed(4242)
        raised = "none"
        out = None
        try:
            if ik == "nograd":
                with torch.no_grad():
                    out = tensors_of(fn())
            else:
                out = tensors_of(fn())
        except Exception as ex:  # noqa
            raised = type(ex).__name__
            self.exc = repr(ex)[:200]
        args_changed = changed(watch, s0)
        writes = self.writes_since(sd0, m)
        key = (op, ik)
        if raised != "none":
            rep = "first"
        elif key in self.last:
            rep = "eq" if same_result(self.last[key], out) else "neq"
        else:
            rep = "first"
        if writes:
            self.last = {}
        if out is not None and not writes:
            self.last[key] = out
        # every third evaluation-mode call of a deterministic operation (and every call with another event shape) is
        # repeated on a freshly built model
        # that received this model's state dict: same arguments, no history
        twin = "na"
        if out is not None and not m.training and op in ("forward", "inverse", "log_prob", "transform_to_noise") and (self.ncalls % 3 == 0 or ik == "shape2") and ik != "grad":
            try:
                tw = e.build(self.seed + 5000 + self.ncalls)
                tw.load_state_dict({k: v.clone() for k, v in m.state_dict().items()})
                tw.eval()
                with torch.no_grad():
                    a2 = a.detach().clone()
                    c2 = c.detach().clone() if c is not None else None
                    r2 = tensors_of(getattr(tw, op)(a2, c2) if c2 is not None else getattr(tw, op)(a2))
                twin = "eq" if len(r2) == len(out) and all(x_.shape == y_.shape and torch.allclose(x_.detach(), y_, rtol=1e-5, atol=1e-6, equal_nan=True) for x_, y_ in zip(out, r2)) else "neq"
            except Exception:  # noqa  (a model that cannot be rebuilt / reloaded is C15's business)
                twin = "na"
        return {"a": "Call", "op": op, "ik": ik, "argsChanged": bool(args_changed), "writes": sorted(writes), "repeat": rep, "raised": raised, "twin": twin}

    def writes_since(self, sd0, m):
        """State categories (parameters, buffers, requires_grad and mode flags) that differ from the snapshot."""
        torch = self.torch
        sd1 = full_state(m)
        writes = set()
        if set(sd1.keys()) != set(sd0.keys()):
            writes.add("other:keys")
        for k, v in sd1.items():
            if k in sd0 and (v.shape != sd0[k].shape or v.dtype != sd0[k].dtype or not torch.allclose(v.detach(), sd0[k], rtol=0, atol=0, equal_nan=True)):
                writes.add(categorize(k, self.anp))
        return writes

    def apply(self, name, args):
        torch = self.torch
        m = self.m
        if name == "Train":
            m.train()
            self.last = {}
            ev = {"a": "Train"}
        elif name == "Eval":
            m.eval()
            self.last = {}
            ev = {"a": "Eval"}
        elif name == "Freeze":
            from nflows.transforms.normalization import BatchNorm

            for mod in m.modules():
                if isinstance(mod, (BatchNorm, torch.nn.modules.batchnorm._BatchNorm)):
                    mod.eval()
            self.last = {}
            ev = {"a": "Freeze"}
        elif name == "TrainStep":
            if self.opt is not None:
                for p in m.parameters():
                    p.grad = 0.5 * torch.randn(p.shape, generator=self.g).to(p.dtype)
                self.opt.step()
                self.opt.zero_grad(set_to_none=True)
            self.last = {}
            ev = {"a": "TrainStep"}
        elif name == "SaveLoadFresh":
            ev = self.save_load()
        elif name == "Clone":
            ev = self.clone(str(args[0]))
        elif name == "Call":
            ev = self.call(str(args[0]), str(args[1]))
        else:
            raise T.MachineryError("unknown Session action " + name)
        self.events.append(ev)
        self.history.append([name] + [str(a) for a in args])
        return ev

    def probe(self, m, drop_caches=True):
        """Deterministic evaluation-mode probes of the function a model computes."""
        torch = self.torch
        e = self.e
        was = m.training
        if m.training:
            m.eval()   # (a model that already is in evaluation mode is probed as it stands)
        # compare like with like: the cached log-det of a linear transform is computed by a different
        # (1-ulp different) formula depending on whether forward or inverse filled the cache first
        from nflows.transforms.linear import Linear

        for mod in m.modules():
            if isinstance(mod, Linear) and drop_caches:
                mod.cache.invalidate()
        outs = []
        try:
            with torch.no_grad():
                for op in entry_kind(e):
                    torch.manual_seed(777)
                    try:
                        if op == "forward":
                            r = m.forward(self.x.clone(), self.c) if self.c is not None else m.forward(self.x.clone())
                        elif op == "inverse":
                            r = m.inverse(self.y.clone(), self.c) if self.c is not None else m.inverse(self.y.clone())
                        elif op == "log_prob":
                            r = m.log_prob(self.x.clone(), self.c) if self.c is not None else m.log_prob(self.x.clone())
                        elif op == "transform_to_noise":
                            r = m.transform_to_noise(self.x.clone(), self.c) if self.c is not None else m.transform_to_noise(self.x.clone())
                        elif op == "sample":
                            r = m.sample(3, context=self.c1) if self.c1 is not None else m.sample(3)
                        else:
                            continue
                        outs.append((op, tensors_of(r)))
                    except Exception as ex:  # noqa
                        outs.append((op, "raised:" + type(ex).__name__))
        finally:
            m.train(was)
        return outs

    def probe_in_place(self, m):
        """The probes of `probe`, on a model that keeps being used: every module's mode flag and every weight
        cache is put back afterwards (train() / eval() are not called: train() empties the weight caches)."""
        from nflows.transforms.linear import Linear

        flags = [(mod, mod.training) for mod in m.modules()]
        caches = [(mod, (mod.cache.weight, mod.cache.inverse, mod.cache.logabsdet)) for mod in m.modules() if isinstance(mod, Linear)]
        for mod, _ in flags:
            mod.training = False
        # like with like: both models fill their weight caches along the same sequence of calls (the cached
        # log-det differs in the last bit depending on whether forward or inverse filled the cache first)
        for mod, _ in caches:
            mod.cache.invalidate()
        try:
            return self.probe(m, drop_caches=False)
        finally:
            for mod, f in flags:
                mod.training = f
            for mod, (w, i, l) in caches:
                mod.cache.weight, mod.cache.inverse, mod.cache.logabsdet = w, i, l

    def clone(self, how):
        import copy
        import io

        torch = self.torch
        m = self.m
        try:
            if how == "deepcopy":
                m2 = copy.deepcopy(m)
            else:
                buf = io.BytesIO()
                torch.save(m, buf)
                buf.seek(0)
                m2 = torch.load(buf, weights_only=False)
        except Exception as ex:  # noqa  (zoo constructors close over local functions: not picklable)
            return {"a": "Clone", "how": how, "same": True, "modesSame": True, "stateSame": True, "error": repr(ex)[:120] or "error", "probeWrites": []}
        modes = [mod.training for mod in m.modules()] == [mod.training for mod in m2.modules()]
        s1, s2 = full_state(m), full_state(m2)
        state = set(s1) == set(s2) and all(s1[k].shape == s2[k].shape and s1[k].dtype == s2[k].dtype and torch.allclose(s1[k].detach(), s2[k].detach(), rtol=0, atol=0, equal_nan=True) for k in s1)
        # the probes are evaluation-mode calls themselves: what they write is observed like any call's writes
        sd0 = {k: v.detach().clone() for k, v in full_state(m).items()}
        before = self.probe_in_place(m)
        probe_writes = sorted(self.writes_since(sd0, m))
        after = self.probe_in_place(m2)
        same = len(before) == len(after) and all(((r1 == r2) if isinstance(r1, str) or isinstance(r2, str) else same_result(r1, r2)) for (_, r1), (_, r2) in zip(before, after))
        self.m = m2
        self.bn, self.an, self.anp = model_layers(self.m)
        params = [p for p in self.m.parameters()]
        self.opt = torch.optim.SGD(params, lr=0.05) if params else None
        self.last = {}
        return {"a": "Clone", "how": how, "same": bool(same), "modesSame": bool(modes), "stateSame": bool(state), "error": "", "probeWrites": probe_writes}

    def save_load(self):
        torch = self.torch
        from vcore import zoo

        m = self.m
        sd = {k: v.detach().clone() for k, v in m.state_dict().items()}
        sd0 = {k: v.detach().clone() for k, v in full_state(m).items()}
        before = self.probe(m)
        # the probes are evaluation-mode calls (the mode flags are switched by the probe itself: not counted)
        probe_writes = sorted(self.writes_since(sd0, m) - {"mode_flag"})
        self.reloads += 1
        # other constructor draws, other parameters, other values of buffer-backed constructor arguments
        m2 = self.e.build(self.seed + 1000 * self.reloads + 17, alt=True)
        if self.reloads % 2 == 0:
            m2.eval()   # users also switch a fresh model to evaluation mode BEFORE loading
        if self.reloads % 3 == 0:
            # ... and run it once (a smoke test / validation pass under no_grad) before restoring the checkpoint
            m2.eval()
            try:
                self.probe(m2, drop_caches=False)
            except Exception:  # noqa
                pass
        keys_match = set(m2.state_dict().keys()) == set(sd.keys())
        err = None
        try:
            m2.load_state_dict(sd)
        except Exception as ex:  # noqa
            err = repr(ex)[:200]
        # the reloaded model is probed as the load left it (its caches included): both models then fill
        # their caches along the same sequence of calls
        after = self.probe(m2, drop_caches=False)
        same = err is None and len(before) == len(after)
        diff_op = None
        if same:
            for (o1, r1), (o2, r2) in zip(before, after):
                ok = (r1 == r2) if isinstance(r1, str) or isinstance(r2, str) else same_result(r1, r2)
                if not ok:
                    same = False
                    diff_op = o1
                    break
        self.m = m2
        self.m.train()
        self.bn, self.an, self.anp = model_layers(self.m)
        params = [p for p in self.m.parameters()]
        self.opt = torch.optim.SGD(params, lr=0.05) if params else None
        self.last = {}
        return {"a": "SaveLoadFresh", "same": bool(same), "keysMatch": bool(keys_match), "diffOp": diff_op or "", "loadError": err or "", "probeWrites": probe_writes}


def session_task(task):
    import warnings

    import torch

    warnings.filterwarnings("ignore")
    torch.set_num_threads(1)
    from vcore import zoo

    name, an_init, seed, walks = task
    e = zoo.by_name()[name]
    out = {"name": name, "traces": [], "steps": 0, "errors": []}
    for wi, walk in enumerate(walks):
        try:
            d = SessionDriver(e, seed + wi, an_init)
        except Exception as ex:  # noqa
            out["errors"].append("%s: could not build: %r" % (name, ex))
            continue
        for nm, args in walk:
            d.apply(nm, args)
            out["steps"] += 1
        ops = entry_kind(e)
        out["traces"].append({"name": name, "seed": seed + wi, "ops": ops, "bn": d.bn if not d.reloads else model_layers(d.m)[0], "an": model_layers(d.m)[1], "anInit": bool(an_init), "ev": d.events, "history": d.history})
    return out


def session_graph(view=True):
    res = T.run_tlc(
        "Session",
        T.cfg(invariants=["TypeOK"], properties=["EvalIsPure", "OnlyDocumentedWriters", "FrozenIsPure", "ModesArePreserved", "InverseNeverInitialises", "InitOnce", "ReloadKeepsInit", "CloneKeepsState"], view="View" if view else None),
        dot=True,
        name="session",
    )
    return res, parse_dot(res.dot)


def judge_traces(run, traces):
    """TLC decides a verdict for every recorded step (TraceSession.tla); returns list of
    (trace, index, verdict) for the steps whose verdict is not ok."""
    path = os.path.join(T.scratch(), "session_traces.json")
    total = sum(len(t["ev"]) + 1 for t in traces)
    with open(path, "w") as f:
        json.dump({"total": total, "traces": [{"ops": t["ops"], "bn": t["bn"], "an": t["an"], "anInit": t["anInit"], "ev": t["ev"]} for t in traces]}, f)
    res = T.run_tlc("TraceSession", "SPECIFICATION TSpec\nPOSTCONDITION AllConsumed\n", workers=1, coverage=False, dump=True, env_extra={"TRACE_FILE": path}, name="trace_session", timeout=1800)
    if not res.ok:
        raise T.MachineryError("TraceSession did not consume every recorded history:\n" + res.stdout[-2000:])
    run.states += res.distinct
    run.transitions += res.generated
    bad = []
    # only tid, l, verdict are needed: cheap regex over the dump instead of a full parse
    with open(res.dump) as f:
        txt = f.read()
    for blk in txt.split("\n\n"):
        m = re.search(r'/\\ verdict = "(\w+)"', blk)
        if not m or m.group(1) == "ok":
            continue
        tid = int(re.search(r"/\\ tid = (\d+)", blk).group(1))
        l = int(re.search(r"/\\ l = (\d+)", blk).group(1))
        bad.append((traces[tid - 1], l - 2, m.group(1)))  # state after consuming event l-1 (1-based) => index l-2
    return bad, len(traces)


def kinds_task(_):
    import warnings

    import torch

    warnings.filterwarnings("ignore")
    torch.set_num_threads(1)
    from vcore import zoo

    out = {}
    for e in zoo.entries():
        try:
            m = e.build(0)
            bn, an, _ = model_layers(m)
            out[e.name] = (entry_kind(e), bn, an)
        except Exception as ex:  # noqa
            out[e.name] = ("error", repr(ex)[:200])
    return out


def plan(g, kinds, rnd, n_random, rand_len, cover=True, max_cover_steps=None, patterns=()):
    """name -> list of (an_init, walks) from the Session graph."""
    init_of = {}
    for sid in g.init:
        st = g.states[sid]
        k = st["kind"]
        init_of[(tuple(sorted(k["ops"])), bool(k["bn"]), bool(k["an"]), bool(st["anInit"]))] = sid
    cache = {}
    plans = {}
    for name, k in kinds.items():
        if k[0] == "error":
            continue
        ops, bn, an = k
        plans[name] = []
        for an_init in ([False, True] if an else [True]):
            key = (tuple(sorted(ops)), bn, an, an_init)
            sid = init_of.get(key)
            if sid is None:
                raise T.MachineryError("no Session kind for %s %s" % (name, key))
            if key not in cache:
                ws = covering_walks(g, sid, max_steps=max_cover_steps) if cover else []
                cache[key] = [[(g.edges[ei][2], g.edges[ei][3]) for ei in w] for w in ws]
            walks = list(cache[key])
            for _ in range(n_random):
                cur, w = sid, []
                for _ in range(rand_len):
                    outs = g.out.get(cur, [])
                    if not outs:
                        break
                    ei = rnd.choice(outs)
                    w.append((g.edges[ei][2], g.edges[ei][3]))
                    cur = g.edges[ei][1]
                walks.append(w)
            for pat in patterns:
                cur, w = sid, []
                for lab in pat:
                    for ei in g.out.get(cur, []):
                        _, d, nm, args = g.edges[ei]
                        if (nm,) + tuple(str(a) for a in args) == tuple(lab) or (len(lab) == 1 and nm == lab[0] and nm != "Call"):
                            w.append((nm, args))
                            cur = d
                            break
                        if nm == "Call" and lab[0] == "Call:fwdlike" and str(args[0]) in ("forward", "log_prob") and str(args[1]) == lab[1]:
                            w.append((nm, args))
                            cur = d
                            break
                if w:
                    walks.append(w)
            plans[name].append((an_init, walks))
    return plans
