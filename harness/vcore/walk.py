"""Walks over a TLC state graph (tlaval.Graph) that cover every edge."""
from __future__ import annotations

from collections import deque


def covering_walks(g, init, edge_filter=None, max_steps=None):
    """Yield walks (lists of edge indices), each starting at state `init`, that together traverse
    every edge reachable from `init` at least once.  Greedy: take an unvisited out-edge if there is
    one, otherwise the shortest path to a state that has one; restart from `init` when stuck."""
    reach = set()
    dq = deque([init])
    reach.add(init)
    while dq:
        s = dq.popleft()
        for ei in g.out.get(s, ()):
            d = g.edges[ei][1]
            if d not in reach:
                reach.add(d)
                dq.append(d)
    todo = set()
    for s in reach:
        for ei in g.out.get(s, ()):
            if edge_filter is None or edge_filter(g.edges[ei]):
                todo.add(ei)
    walks = []
    cur = init
    walk = []
    steps = 0
    while todo:
        nxt = None
        for ei in g.out.get(cur, ()):
            if ei in todo:
                nxt = [ei]
                break
        if nxt is None:
            # BFS for nearest state with an unvisited out-edge
            prev = {cur: None}
            dq = deque([cur])
            found = None
            while dq and found is None:
                s = dq.popleft()
                for ei in g.out.get(s, ()):
                    if ei in todo:
                        found = (s, ei)
                        break
                    d = g.edges[ei][1]
                    if d not in prev:
                        prev[d] = (s, ei)
                        dq.append(d)
            if found is None:
                # stuck: restart from init
                if not walk and cur == init:
                    break  # unreachable leftovers (should not happen)
                walks.append(walk)
                walk = []
                cur = init
                continue
            s, ei = found
            path = [ei]
            while prev[s] is not None:
                ps, pe = prev[s]
                path.append(pe)
                s = ps
            nxt = list(reversed(path))
        for ei in nxt:
            walk.append(ei)
            todo.discard(ei)
            cur = g.edges[ei][1]
            steps += 1
        if max_steps and steps >= max_steps:
            break
    if walk:
        walks.append(walk)
    return walks


def split_walk(walk, n):
    """Split a long walk into chunks is not possible without re-establishing state; helper that
    returns the walk unchanged (kept for symmetry)."""
    return [walk]


def online_cover(g, init, apply_fn, project, max_steps=4000, rnd=None, random_steps=0, free_guard=None, free_steps=0):
    """Conformance walk under a nondeterministic (over-approximating) specification graph.

    The walker drives the real system: it picks an action label at the current spec state, applies
    it (`apply_fn(name, args)` returns the real system's projected abstract state), and moves to the
    successor whose projection (`project(spec_state)`) matches what the real system did.  It keeps
    going until every (state, label) pair reachable *through transitions the real system actually
    takes* has been tried once, then optionally takes `random_steps` random steps.  Returns a dict with
    steps, left_model (list of (state, label, projection) where no successor matched)."""
    by_label = {}
    for ei, (s, d, name, args) in enumerate(g.edges):
        by_label.setdefault(s, {}).setdefault((name, args), []).append(d)
    tried = set()
    observed = {}
    cur = init
    steps = 0
    left = []

    def do(lab):
        nonlocal cur, steps
        proj = apply_fn(lab[0], lab[1])
        steps += 1
        tried.add((cur, lab))
        cands = by_label.get(cur, {}).get(lab, [])
        match = [d for d in cands if project(g.states[d]) == proj]
        if not match:
            left.append((cur, lab, proj))
            # re-synchronise on any state with the observed projection (prefer a successor's sibling)
            pool = [sid for sid, st in g.states.items() if project(st) == proj]
            if not pool:
                return False
            # (the jump is a transition the real system takes: later plans may lead through it)
            observed[(cur, lab)] = pool[0]
            cur = pool[0]
            return True
        observed[(cur, lab)] = match[0]
        cur = match[0]
        return True

    while steps < max_steps:
        labs = list(by_label.get(cur, {}).keys())
        untried = [lab for lab in labs if (cur, lab) not in tried]
        if untried:
            if not do(untried[0]):
                break
            continue
        # BFS through observed (real) transitions to a state with an untried label
        prev = {cur: None}
        dq = deque([cur])
        target = None
        while dq and target is None:
            s = dq.popleft()
            for lab in by_label.get(s, {}):
                if (s, lab) not in tried:
                    target = s
                    break
                d = observed.get((s, lab))
                if d is not None and d not in prev:
                    prev[d] = (s, lab)
                    dq.append(d)
        if target is None:
            break
        path = []
        s = target
        while prev[s] is not None:
            ps, lab = prev[s]
            path.append((ps, lab))
            s = ps
        ok = True
        for ps, lab in reversed(path):
            if cur != ps:
                break  # the real system went elsewhere: re-plan
            if not do(lab):
                ok = False
                break
        if not ok:
            break
    covered = len(tried)
    lost = False
    for _ in range(random_steps):
        labs = list(by_label.get(cur, {}).keys())
        if not labs or rnd is None:
            break
        if not do(rnd.choice(labs)):
            lost = True
            break
    # the real system is in a state no design of the model knows: the model cannot steer any further, but the
    # calls' own oracle still judges - keep going with random actions of the alphabet that the harness's guard
    # (the alphabet's enabling conditions, evaluated on the real object) allows
    free = 0
    if (lost or (left and not [sid for sid, st in g.states.items() if project(st) == left[-1][2]])) and free_guard is not None and rnd is not None:
        alphabet = sorted({lab for d in by_label.values() for lab in d}, key=repr)
        while free < free_steps:
            lab = rnd.choice(alphabet)
            if not free_guard(lab[0], lab[1]):
                continue
            apply_fn(lab[0], lab[1])
            free += 1
    return {"steps": steps + free, "pairs_tried": covered, "left_model": left, "free_steps": free}
