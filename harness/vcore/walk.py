"""Walks over a TLC state graph (tlaval.Graph) that cover every edge."""
from __future__ import annotations

from collections import deque


def covering_walks(g, init, edge_filter=None, max_steps=None):
    """Yield walks (lists of edge indices), each starting at state `init`, that together traverse
    every edge reachable from `init` at least once.  Greedy: take an unvisited out-edge if there is
    one, otherwise the shortest path to a state that has one; restart from `init` when stuck."""
    reach = set()
    dq = deque([init])
    reach.add(init)
    while dq:
        s = dq.popleft()
        for ei in g.out.get(s, ()):
            d = g.edges[ei][1]
            if d not in reach:
                reach.add(d)
                dq.append(d)
    todo = set()
    for s in reach:
        for ei in g.out.get(s, ()):
            if edge_filter is None or edge_filter(g.edges[ei]):
                todo.add(ei)
    walks = []
    cur = init
    walk = []
    steps = 0
    while todo:
        nxt = None
        for ei in g.out.get(cur, ()):
            if ei in todo:
                nxt = [ei]
                break
        if nxt is None:
            # BFS for nearest state with an unvisited out-edge
            prev = {cur: None}
            dq = deque([cur])
            found = None
            while dq and found is None:
                s = dq.popleft()
                for ei in g.out.get(s, ()):
                    if ei in todo:
                        found = (s, ei)
                        break
                    d = g.edges[ei][1]
                    if d not in prev:
                        prev[d] = (s, ei)
                        dq.append(d)
            if found is None:
                # stuck: restart from init
                if not walk and cur == init:
                    break  # unreachable leftovers (should not happen)
                walks.append(walk)
                walk = []
                cur = init
                continue
            s, ei = found
            path = [ei]
            while prev[s] is not None:
                ps, pe = prev[s]
                path.append(pe)
                s = ps
            nxt = list(reversed(path))
        for ei in nxt:
            walk.append(ei)
            todo.discard(ei)
            cur = g.edges[ei][1]
            steps += 1
        if max_steps and steps >= max_steps:
            break
    if walk:
        walks.append(walk)
    return walks


def split_walk(walk, n):
    """Split a long walk into chunks is not possible without re-establishing state; helper that
    returns the walk unchanged (kept for symmetry)."""
    return [walk]
