"""Thin runner around the pre-installed TLC (tla2tools 1.8)."""
from __future__ import annotations

import atexit
import glob
import os
import re
import shutil
import subprocess
import tempfile
import time

VERIF = os.path.dirname(os.path.dirname(os.path.dirname(os.path.abspath(__file__))))
SPEC_DIR = os.path.join(VERIF, "spec")
JAR = "/opt/veriftools/tla/tla2tools.jar:/opt/veriftools/tla/CommunityModules-deps.jar"

_scratch = None


def scratch():
    """Per-process scratch directory (removed at exit)."""
    global _scratch
    if _scratch is None:
        base = os.environ.get("VERIF_SCRATCH_BASE") or tempfile.gettempdir()
        _scratch = tempfile.mkdtemp(prefix="nflows_verif_", dir=base)
        atexit.register(shutil.rmtree, _scratch, True)
    return _scratch


class MachineryError(Exception):
    """Harness / tool failure: exit status 2, never a VIOLATION."""


class TLCResult:
    def __init__(self):
        self.ok = False
        self.generated = 0
        self.distinct = 0
        self.depth = 0
        self.violated = None  # name of violated invariant / property
        self.error = None
        self.coverage = {}  # action -> (taken, distinct)
        self.wall = 0.0
        self.stdout = ""
        self.dump = None
        self.dot = None
        self.sim_files = []
        self.cmd = ""

    def summary(self):
        return {
            "ok": self.ok,
            "generated": self.generated,
            "distinct": self.distinct,
            "depth": self.depth,
            "violated": self.violated,
            "wall_s": round(self.wall, 2),
            "cmd": self.cmd,
        }


_COV = re.compile(r"^<(\w+) line \d+, col \d+ to line \d+, col \d+ of module (\w+)>: (\d+):(\d+)", re.M)


def run_tlc(
    module,
    cfg_text,
    *,
    workers=None,
    dump=False,
    dot=False,
    simulate=None,  # dict(num=, depth=, seed=)
    coverage=True,
    timeout=1800,
    env_extra=None,
    deadlock=False,
    name=None,
    depth_first=False,
    max_heap="12g",
    wrapper=None,  # text of a generated wrapper module named `module` (EXTENDS / INSTANCE specs from spec/)
):
    """Run TLC on spec/<module>.tla with the given cfg text. Returns TLCResult.

    A property violation is reported in result.violated (ok False); anything else that goes
    wrong raises MachineryError.
    """
    sd = scratch()
    name = name or module
    run_dir = tempfile.mkdtemp(prefix=name + "_", dir=sd)
    cfg_path = os.path.join(run_dir, name + ".cfg")
    with open(cfg_path, "w") as f:
        f.write(cfg_text)
        if not deadlock and "CHECK_DEADLOCK" not in cfg_text:
            f.write("\nCHECK_DEADLOCK FALSE\n")
    if wrapper is not None:
        spec_path = os.path.join(run_dir, module + ".tla")
        with open(spec_path, "w") as f:
            f.write(wrapper)
    else:
        spec_path = os.path.join(SPEC_DIR, module + ".tla")
    if not os.path.exists(spec_path):
        raise MachineryError("no such spec " + spec_path)
    if workers is None:
        workers = int(os.environ.get("VERIF_TLC_WORKERS", "0")) or min(16, os.cpu_count() or 4)
    jopts = ["-XX:+UseParallelGC", "-Xmx" + max_heap, "-Dtlc2.tool.fp.FPSet.impl=tlc2.tool.fp.OffHeapDiskFPSet"]
    jopts = ["-XX:+UseParallelGC", "-Xmx" + max_heap, "-DTLA-Library=" + SPEC_DIR]
    if depth_first:
        jopts.append("-Dtlc2.tool.queue.IStateQueue=StateDeque")
    cmd = ["java"] + jopts + ["-cp", JAR, "tlc2.TLC"]
    res = TLCResult()
    if simulate:
        simfile = os.path.join(run_dir, "sim")
        cmd += ["-simulate", "file=%s,num=%d" % (simfile, simulate["num"]), "-depth", str(simulate["depth"])]
        if "seed" in simulate:
            cmd += ["-seed", str(simulate["seed"])]
        workers = 1
    cmd += ["-workers", str(workers), "-metadir", os.path.join(run_dir, "meta"), "-noGenerateSpecTE"]
    if coverage and not simulate:
        cmd += ["-coverage", "1"]
    if dump:
        res.dump = os.path.join(run_dir, "states")
        cmd += ["-dump", res.dump]
        res.dump += ".dump"
    if dot:
        res.dot = os.path.join(run_dir, "graph.dot")
        cmd += ["-dump", "dot,actionlabels", res.dot]
    cmd += ["-config", cfg_path, spec_path]
    env = dict(os.environ)
    env.pop("JAVA_TOOL_OPTIONS", None)
    if env_extra:
        env.update(env_extra)
    res.cmd = " ".join(cmd[cmd.index("tlc2.TLC") :])
    t0 = time.time()
    try:
        p = subprocess.run(cmd, cwd=(run_dir if wrapper is not None else SPEC_DIR), env=env, stdout=subprocess.PIPE, stderr=subprocess.STDOUT, timeout=timeout, text=True)
    except subprocess.TimeoutExpired:
        raise MachineryError("TLC timed out after %ds on %s" % (timeout, name))
    res.wall = time.time() - t0
    out = p.stdout
    res.stdout = out
    m = re.search(r"(\d+) states generated, (\d+) distinct states found", out)
    if m:
        res.generated, res.distinct = int(m.group(1)), int(m.group(2))
    m = re.search(r"The number of states generated: (\d+)", out)
    if m and simulate:
        res.generated = res.distinct = int(m.group(1))
    m = re.search(r"depth of the complete state graph search is (\d+)", out)
    if m:
        res.depth = int(m.group(1))
    for m in _COV.finditer(out):
        a = m.group(1)
        t, d = int(m.group(3)), int(m.group(4))
        o = res.coverage.get(a, (0, 0))
        res.coverage[a] = (o[0] + t, o[1] + d)
    m = re.search(r"Error: Invariant (\w+) is violated", out)
    if m:
        res.violated = m.group(1)
    m = re.search(r"Error: Action property (\w+) is violated", out)
    if m:
        res.violated = m.group(1)
    if "Error: Deadlock reached" in out:
        res.violated = res.violated or "deadlock"
    if "Temporal properties were violated" in out:
        res.violated = res.violated or "temporal"
    m = re.search(r"Error: The postcondition (\w+)? ?.*is violated|Error: Evaluating assumption|POSTCONDITION.*violated", out)
    if m and not res.violated:
        res.violated = "postcondition"
    if simulate:
        res.sim_files = sorted(glob.glob(os.path.join(run_dir, "sim_*")))
    finished = "Model checking completed. No error has been found." in out or (simulate and "Finished in" in out and "Error:" not in out)
    if finished and not res.violated:
        res.ok = True
    elif not res.violated:
        # parse / semantic / evaluation error: machinery failure
        tail = "\n".join(out.strip().splitlines()[-40:])
        raise MachineryError("TLC failed on %s:\n%s" % (name, tail))
    else:
        res.error = "\n".join(l for l in out.splitlines() if l.startswith("Error:") or l.startswith("/\\") or l.startswith("State "))[-6000:]
    return res


def sany(path):
    cmd = ["java", "-cp", JAR, "tla2sany.SANY", path]
    p = subprocess.run(cmd, cwd=os.path.dirname(path), stdout=subprocess.PIPE, stderr=subprocess.STDOUT, text=True)
    ok = p.returncode == 0 and "*** Errors" not in p.stdout and "Fatal errors" not in p.stdout and "Could not" not in p.stdout
    return ok, p.stdout


def cfg(spec="Spec", invariants=(), properties=(), constants=None, constraint=None, view=None, postcondition=None, init_next=None):
    lines = []
    if init_next:
        lines += ["INIT " + init_next[0], "NEXT " + init_next[1]]
    else:
        lines.append("SPECIFICATION " + spec)
    for k, v in (constants or {}).items():
        lines.append("CONSTANT %s = %s" % (k, v) if not str(v).startswith("<-") else "CONSTANT %s %s" % (k, v))
    for i in invariants:
        lines.append("INVARIANT " + i)
    for p in properties:
        lines.append("PROPERTY " + p)
    if constraint:
        lines.append("CONSTRAINT " + constraint)
    if view:
        lines.append("VIEW " + view)
    if postcondition:
        lines.append("POSTCONDITION " + postcondition)
    return "\n".join(lines) + "\n"
