"""Parser for TLA+ values as TLC prints them (state dumps, dot labels, simulation traces).

Mapping to Python:
  integers -> int, TRUE/FALSE -> bool, "s" -> str, model values -> MV(name)
  <<a, b>> -> tuple,  {a, b} -> frozenset (elements must be hashable; lists are frozen)
  [f |-> v, ...] -> FrozenDict with str keys,  (k :> v @@ k2 :> v2) -> FrozenDict
All containers are hashable so that sets of records work.
"""
from __future__ import annotations

import re
from fractions import Fraction


class FrozenDict(dict):
    __slots__ = ("_h",)

    def __hash__(self):
        try:
            return self._h
        except AttributeError:
            self._h = hash(frozenset(self.items()))
            return self._h

    def __getattr__(self, k):
        try:
            return self[k]
        except KeyError:
            raise AttributeError(k)

    def __reduce__(self):
        return (FrozenDict, (dict(self),))

    def _ro(self, *a, **k):
        raise TypeError("FrozenDict is read-only")

    __setitem__ = __delitem__ = update = pop = clear = setdefault = popitem = _ro


class MV(str):
    """TLC model value / bare identifier."""

    def __repr__(self):
        return "MV(%s)" % str.__repr__(self)


class ParseError(Exception):
    pass


_TOKEN = re.compile(
    r"""\s*(?:
      (?P<int>-?\d+)
    | (?P<str>"(?:[^"\\]|\\.)*")
    | (?P<lseq><<)
    | (?P<rseq>>>)
    | (?P<map>\|->)
    | (?P<fmap>:>)
    | (?P<at>@@)
    | (?P<id>[A-Za-z_][A-Za-z0-9_!]*)
    | (?P<sym>[\[\]{}(),])
    )""",
    re.X,
)


def _tokens(s):
    pos = 0
    n = len(s)
    out = []
    while pos < n:
        m = _TOKEN.match(s, pos)
        if not m:
            if s[pos:].strip() == "":
                break
            raise ParseError("bad token at %r" % s[pos : pos + 40])
        pos = m.end()
        k = m.lastgroup
        out.append((k, m.group(k)))
    return out


class _P:
    def __init__(self, toks):
        self.t = toks
        self.i = 0

    def peek(self):
        return self.t[self.i] if self.i < len(self.t) else (None, None)

    def next(self):
        tok = self.peek()
        self.i += 1
        return tok

    def expect(self, val):
        k, v = self.next()
        if v != val:
            raise ParseError("expected %r got %r (token %d)" % (val, v, self.i))

    def value(self):
        k, v = self.next()
        if k == "int":
            return int(v)
        if k == "str":
            return bytes(v[1:-1], "utf-8").decode("unicode_escape")
        if k == "id":
            if v == "TRUE":
                return True
            if v == "FALSE":
                return False
            return MV(v)
        if k == "lseq":
            items = []
            if self.peek()[0] == "rseq":
                self.next()
                return tuple(items)
            while True:
                items.append(self.value())
                k2, v2 = self.next()
                if k2 == "rseq":
                    return tuple(items)
                if v2 != ",":
                    raise ParseError("in sequence: %r" % v2)
        if v == "{":
            items = []
            if self.peek()[1] == "}":
                self.next()
                return frozenset()
            while True:
                items.append(self.value())
                k2, v2 = self.next()
                if v2 == "}":
                    return frozenset(items)
                if v2 != ",":
                    raise ParseError("in set: %r" % v2)
        if v == "[":
            d = {}
            if self.peek()[1] == "]":
                self.next()
                return FrozenDict(d)
            while True:
                kk, kv = self.next()
                if kk != "id":
                    raise ParseError("record field name expected, got %r" % kv)
                kk2, _ = self.next()
                if kk2 != "map":
                    raise ParseError("|-> expected")
                d[str(kv)] = self.value()
                k2, v2 = self.next()
                if v2 == "]":
                    return FrozenDict(d)
                if v2 != ",":
                    raise ParseError("in record: %r" % v2)
        if v == "(":
            d = {}
            while True:
                key = self.value()
                kk, _ = self.next()
                if kk != "fmap":
                    raise ParseError(":> expected")
                d[key] = self.value()
                k2, v2 = self.next()
                if v2 == ")":
                    return FrozenDict(d)
                if k2 != "at":
                    raise ParseError("@@ expected, got %r" % v2)
        raise ParseError("unexpected token %r" % v)


def parse_value(s):
    p = _P(_tokens(s))
    v = p.value()
    if p.i != len(p.t):
        raise ParseError("trailing tokens: %r" % (p.t[p.i : p.i + 5],))
    return v


def parse_state(text):
    """Parse a conjunction '/\\ v1 = val /\\ v2 = val ...' (values may span lines)."""
    text = text.strip()
    if not text:
        return FrozenDict()
    parts = re.split(r"(?:^|\n)\s*/\\ ", "\n" + text)
    st = {}
    for part in parts:
        part = part.strip()
        if not part:
            continue
        m = re.match(r"([A-Za-z_][A-Za-z0-9_]*)\s*=\s*(.*)$", part, re.S)
        if not m:
            raise ParseError("bad conjunct %r" % part[:80])
        st[m.group(1)] = parse_value(m.group(2))
    return FrozenDict(st)


def parse_dump(path):
    """States of a `-dump file` run, in file order."""
    with open(path) as f:
        txt = f.read()
    out = []
    for blk in re.split(r"^State \d+:\s*$", txt, flags=re.M):
        blk = blk.strip()
        if blk:
            out.append(parse_state(blk))
    return out


def _unescape_dot(s):
    return s.replace("\\n", "\n").replace('\\"', '"').replace("\\\\", "\\")


_NODE = re.compile(r'^(-?\d+) \[label="((?:[^"\\]|\\.)*)"(,style = filled)?', re.M)
_EDGE = re.compile(r'^(-?\d+) -> (-?\d+) \[label="((?:[^"\\]|\\.)*)"', re.M)


def parse_action_label(lbl):
    """'Call("fwd", TRUE)' -> ('Call', ('fwd', True));  'Train' -> ('Train', ())."""
    lbl = lbl.strip()
    m = re.match(r"^([A-Za-z_][A-Za-z0-9_]*)\s*(?:\((.*)\))?$", lbl, re.S)
    if not m:
        raise ParseError("bad action label %r" % lbl)
    if m.group(2) is None:
        return m.group(1), ()
    args = parse_value("<<" + m.group(2) + ">>")
    return m.group(1), args


class Graph:
    def __init__(self):
        self.states = {}  # id -> FrozenDict
        self.init = []  # ids
        self.edges = []  # (src, dst, action, args)
        self.out = {}  # id -> list of edge indices


def parse_dot(path):
    with open(path) as f:
        txt = f.read()
    g = Graph()
    for m in _NODE.finditer(txt):
        sid = int(m.group(1))
        if sid not in g.states:
            g.states[sid] = parse_state(_unescape_dot(m.group(2)))
        if m.group(3) and sid not in g.init:
            g.init.append(sid)
    seen = set()
    for m in _EDGE.finditer(txt):
        a, b = int(m.group(1)), int(m.group(2))
        name, args = parse_action_label(_unescape_dot(m.group(3)))
        key = (a, b, name, args)
        if key in seen:
            continue
        seen.add(key)
        g.out.setdefault(a, []).append(len(g.edges))
        g.edges.append(key)
    return g


_SIM_HDR = re.compile(r"^\\\* <(.*?) line \d+, col \d+ to line \d+, col \d+ of module (\w+)>\s*$", re.M)


def parse_sim_trace(path):
    """One `-simulate file=` behaviour: list of (action, args, state)."""
    with open(path) as f:
        txt = f.read()
    out = []
    chunks = re.split(r"^\\\* <", txt, flags=re.M)[1:]
    for ch in chunks:
        m = re.match(r"(.*?) line \d+, col \d+ to line \d+, col \d+ of module \w+>\s*\nSTATE_\d+ ==\s*\n(.*)$", ch, re.S)
        if not m:
            raise ParseError("bad sim chunk %r" % ch[:80])
        body = m.group(2)
        body = re.split(r"\n=+\s*$", body, flags=re.M)[0]
        name, args = parse_action_label(m.group(1))
        out.append((name, args, parse_state(body)))
    return out


def rat(v):
    """<<num, den>> -> Fraction."""
    return Fraction(int(v[0]), int(v[1]))


def to_jsonable(v):
    if isinstance(v, (bool, int, str)) or v is None:
        return v if not isinstance(v, MV) else str(v)
    if isinstance(v, Fraction):
        return [v.numerator, v.denominator]
    if isinstance(v, float):
        return v
    if isinstance(v, dict):
        return {str(k) if not isinstance(k, tuple) else repr(k): to_jsonable(x) for k, x in v.items()}
    if isinstance(v, (tuple, list)):
        return [to_jsonable(x) for x in v]
    if isinstance(v, (set, frozenset)):
        return sorted((to_jsonable(x) for x in v), key=repr)
    return repr(v)
