"""The class zoo: configurations of every transform / distribution / flow of nflows that the
conformance legs drive.  Everything is built from /repo's working tree at call time."""
from __future__ import annotations

import numpy as np

import math


class Entry:
    def __init__(self, name, kind, build, x, ctx=None, flags=(), y=None, build_alt=None):
        self.name = name
        self._y = y
        # same configuration, but other values for constructor arguments that live in buffers
        # (and therefore travel in the state dict): used for the fresh model of a reload
        self._build_alt = build_alt
        self.kind = kind  # transform | dist | flow
        self._build = build
        self._x = x
        self._ctx = ctx
        self.flags = set(flags)

    def build(self, seed=0, perturb=True, alt=False):
        import torch

        torch.manual_seed(seed)
        m = (self._build_alt or self._build)() if alt else self._build()
        if perturb and "noperturb" not in self.flags:
            g = torch.Generator().manual_seed(seed + 7)
            with torch.no_grad():
                amp = 0.5 if "bigperturb" in self.flags else 0.1
                for n, p in m.named_parameters():
                    p.add_(amp * torch.randn(p.shape, generator=g))
        return m

    def x(self, n=4, seed=0, dtype=None):
        import torch

        g = torch.Generator().manual_seed(seed + 13)
        v = self._x(n, g)
        return v.to(dtype) if dtype is not None else v

    def y(self, n=4, seed=0, dtype=None):
        """An input for the inverse direction (a point of the transform's range)."""
        import torch

        if self._y is None:
            return self.x(n, seed, dtype)
        g = torch.Generator().manual_seed(seed + 13)
        v = self._y(n, g)
        return v.to(dtype) if dtype is not None else v

    def ctx(self, n=4, seed=0, dtype=None):
        import torch

        if self._ctx is None:
            return None
        g = torch.Generator().manual_seed(seed + 29)
        v = self._ctx(n, g)
        return v.to(dtype) if dtype is not None else v

    def has(self, f):
        return f in self.flags


def _rn(*shape):
    def f(n, g):
        import torch

        return torch.randn(n, *shape, generator=g)

    return f


def _ru(*shape, lo=0.02, hi=0.98):
    def f(n, g):
        import torch

        return lo + (hi - lo) * torch.rand(n, *shape, generator=g)

    return f


def entries():
    import torch
    from torch.nn import functional as F

    from nflows import distributions as D
    from nflows import flows as FL
    from nflows import transforms as TR
    from nflows.nn import nets
    from nflows.distributions.mixture import MADEMoG
    from nflows.transforms import nonlinearities as NL
    from nflows.utils import torchutils

    def resnet(ctxf=None, hidden=8, bn=False, dropout=0.0):
        return lambda i, o: nets.ResidualNet(i, o, hidden_features=hidden, context_features=ctxf, num_blocks=1, use_batch_norm=bn, dropout_probability=dropout)

    def convnet(ctxc=None, hidden=4):
        return lambda i, o: nets.ConvResidualNet(i, o, hidden_channels=hidden, context_channels=ctxc, num_blocks=1)

    E = []

    def add(name, kind, build, x, ctx=None, flags=(), y=None, build_alt=None):
        E.append(Entry(name, kind, build, x, ctx, flags, y, build_alt))

    mask4 = [1, -1, 0, 2]
    # ---- coupling
    add("AffineCoupling", "transform", lambda: TR.AffineCouplingTransform(mask4, resnet()), _rn(4), flags={"inv"})
    add("AffineCoupling/ctx", "transform", lambda: TR.AffineCouplingTransform(mask4, resnet(3)), _rn(4), _rn(3), flags={"inv"})
    add("AffineCoupling/general-act", "transform", lambda: TR.AffineCouplingTransform(mask4, resnet(), scale_activation=TR.AffineCouplingTransform.GENERAL_SCALE_ACTIVATION), _rn(4), flags={"inv"})
    # which features a layer leaves alone is drawn in the constructor (and travels in the index buffers)
    add("AffineCoupling/random-mask", "transform", lambda: TR.AffineCouplingTransform(torchutils.create_random_binary_mask(6), lambda i, o: nets.ResidualNet(i, o, hidden_features=8, num_blocks=1)), _rn(6), flags={"inv", "ctor_random"})
    add("PiecewiseRQCoupling/random-mask+tails", "transform", lambda: TR.PiecewiseRationalQuadraticCouplingTransform(torchutils.create_random_binary_mask(5), lambda i, o: nets.ResidualNet(i, o, hidden_features=8, num_blocks=1), num_bins=4, tails="linear", tail_bound=1.5), _rn(5), flags={"inv", "spline", "ctor_random"})
    add("AdditiveCoupling", "transform", lambda: TR.AdditiveCouplingTransform(mask4, resnet()), _rn(4), flags={"inv"})
    add("AffineCoupling/resnet-batchnorm", "transform", lambda: TR.AffineCouplingTransform(mask4, resnet(bn=True)), _rn(4), flags={"inv", "inner_bn"})
    add("AffineCoupling/image", "transform", lambda: TR.AffineCouplingTransform([1, 0, 1], convnet()), _rn(3, 2, 3), flags={"inv", "image"})
    for nm, cls in [("Linear", TR.PiecewiseLinearCouplingTransform), ("Quadratic", TR.PiecewiseQuadraticCouplingTransform), ("Cubic", TR.PiecewiseCubicCouplingTransform), ("RQ", TR.PiecewiseRationalQuadraticCouplingTransform)]:
        add("Piecewise%sCoupling" % nm, "transform", (lambda cls=cls: cls(mask4, resnet(), num_bins=4)), _ru(4), flags={"inv", "bounded01", "spline"})
        add("Piecewise%sCoupling/tails" % nm, "transform", (lambda cls=cls: cls(mask4, resnet(3), num_bins=4, tails="linear", tail_bound=1.5)), _rn(4), _rn(3), flags={"inv", "spline"})
        add("Piecewise%sCoupling/image+uncond" % nm, "transform", (lambda cls=cls: cls([1, 0, 1], convnet(), num_bins=3, tails="linear", tail_bound=2.0, apply_unconditional_transform=True, img_shape=[2, 3])), _rn(3, 2, 3), flags={"inv", "image", "spline"})
    mins = dict(min_bin_width=0.05, min_bin_height=0.04, min_derivative=0.06)
    add("PiecewiseRQCoupling/tails+mins", "transform", lambda: TR.PiecewiseRationalQuadraticCouplingTransform(mask4, resnet(3), num_bins=4, tails="linear", tail_bound=1.5, **mins), _rn(4), _rn(3), flags={"inv", "spline", "bigperturb"})
    add("PiecewiseQuadraticCoupling/tails+mins", "transform", lambda: TR.PiecewiseQuadraticCouplingTransform(mask4, resnet(), num_bins=4, tails="linear", tail_bound=1.5, min_bin_width=0.05, min_bin_height=0.04), _rn(4), flags={"inv", "spline", "bigperturb"})
    add("PiecewiseCubicCoupling/tails+mins", "transform", lambda: TR.PiecewiseCubicCouplingTransform(mask4, resnet(), num_bins=4, tails="linear", tail_bound=1.5, min_bin_width=0.05, min_bin_height=0.04), _rn(4), flags={"inv", "spline", "bigperturb"})
    add("MaskedPiecewiseRQAR/tails+mins", "transform", lambda: TR.MaskedPiecewiseRationalQuadraticAutoregressiveTransform(3, 8, num_bins=4, num_blocks=1, tails="linear", tail_bound=1.5, **mins), _rn(3), flags={"inv", "spline", "bigperturb"})
    add("PiecewiseRQCDF/tails+mins", "transform", lambda: NL.PiecewiseRationalQuadraticCDF([3], num_bins=4, tails="linear", tail_bound=1.5, **mins), _rn(3), flags={"inv", "spline", "bigperturb"})
    add("UMNNCoupling", "transform", lambda: TR.UMNNCouplingTransform(mask4, resnet(), integrand_net_layers=[8, 8], cond_size=3, nb_steps=15), _rn(4), flags={"inv", "umnn"})
    # ---- autoregressive
    add("MaskedAffineAR", "transform", lambda: TR.MaskedAffineAutoregressiveTransform(3, 8, num_blocks=1), _rn(3), flags={"inv"})
    def wide_maf():
        # 96 features, every scale around 0.27 (a contracting layer): the determinant, 1e-55, is far below the
        # single-precision range, its logarithm is an ordinary number
        m = TR.MaskedAffineAutoregressiveTransform(96, 16, num_blocks=1)
        with torch.no_grad():
            m.autoregressive_net.final_layer.bias[0::2] = -3.0
        return m

    def expanding_maf():
        # every unconstrained scale around 800: softplus is the identity there and exp(800) is beyond double precision -
        # values, log-dets and gradients are ordinary numbers
        m = TR.MaskedAffineAutoregressiveTransform(3, 8, num_blocks=1)
        with torch.no_grad():
            m.autoregressive_net.final_layer.bias[0::2] = 800.0
        return m

    add("MaskedAffineAR/scales-around-800", "transform", expanding_maf, _rn(3), flags={"inv"})
    add("MaskedAffineAR/96-features-contracting", "transform", wide_maf, _rn(96), flags={"inv", "large", "illconditioned"})
    add("MaskedAffineAR/ctx+random", "transform", lambda: TR.MaskedAffineAutoregressiveTransform(3, 8, context_features=2, num_blocks=2, use_residual_blocks=False, random_mask=True), _rn(3), _rn(2), flags={"inv", "ctor_random"})
    # few hidden units under random masks: degrees go missing, so the dependency chains (and with them how many inverse
    # passes are really needed) differ from one construction seed to the next - a checkpoint carries the masks
    add("MaskedAffineAR/8-features+random-masks+narrow", "transform", lambda: TR.MaskedAffineAutoregressiveTransform(8, 4, num_blocks=1, use_residual_blocks=False, random_mask=True, activation=torch.tanh), _rn(8), flags={"inv", "ctor_random"})
    add("MaskedAffineAR/dropout", "transform", lambda: TR.MaskedAffineAutoregressiveTransform(3, 8, num_blocks=1, dropout_probability=0.3), _rn(3), flags={"inv", "dropout"})
    add("AffineCoupling/dropout", "transform", lambda: TR.AffineCouplingTransform(mask4, resnet(dropout=0.3)), _rn(4), flags={"inv", "dropout"})
    add("MaskedAffineAR/batchnorm", "transform", lambda: TR.MaskedAffineAutoregressiveTransform(3, 8, num_blocks=1, use_batch_norm=True), _rn(3), flags={"inv", "inner_bn"})
    add("MaskedPiecewiseLinearAR", "transform", lambda: TR.MaskedPiecewiseLinearAutoregressiveTransform(4, 3, 8, num_blocks=1), _ru(3), flags={"inv", "bounded01", "spline"})
    add("MaskedPiecewiseQuadraticAR", "transform", lambda: TR.MaskedPiecewiseQuadraticAutoregressiveTransform(3, 8, num_bins=4, num_blocks=1), _ru(3), flags={"inv", "bounded01", "spline"})
    add("MaskedPiecewiseQuadraticAR/tails", "transform", lambda: TR.MaskedPiecewiseQuadraticAutoregressiveTransform(3, 8, num_bins=4, num_blocks=1, tails="linear", tail_bound=1.5), _rn(3), flags={"inv", "spline"})
    add("MaskedPiecewiseCubicAR", "transform", lambda: TR.MaskedPiecewiseCubicAutoregressiveTransform(4, 3, 8, num_blocks=1), _ru(3), flags={"inv", "bounded01", "spline"})
    add("MaskedPiecewiseRQAR", "transform", lambda: TR.MaskedPiecewiseRationalQuadraticAutoregressiveTransform(3, 8, num_bins=4, num_blocks=1), _ru(3), flags={"inv", "bounded01", "spline"})
    add("MaskedPiecewiseRQAR/tails+ctx", "transform", lambda: TR.MaskedPiecewiseRationalQuadraticAutoregressiveTransform(3, 8, context_features=2, num_bins=4, num_blocks=1, tails="linear", tail_bound=1.5), _rn(3), _rn(2), flags={"inv", "spline"})
    add("MaskedUMNNAR", "transform", lambda: TR.MaskedUMNNAutoregressiveTransform(3, 8, num_blocks=1, integrand_net_layers=[8, 8], cond_size=3, nb_steps=15), _rn(3), flags={"inv", "umnn"})
    # ---- linear
    add("LULinear", "transform", lambda: TR.LULinear(3, identity_init=False), _rn(3), flags={"inv", "linear"})
    add("LULinear/cached", "transform", lambda: TR.LULinear(3, using_cache=True, identity_init=False), _rn(3), flags={"inv", "linear"})
    add("QRLinear", "transform", lambda: TR.QRLinear(3, num_householder=3), _rn(3), flags={"inv", "linear"})
    add("SVDLinear", "transform", lambda: TR.SVDLinear(3, num_householder=2, identity_init=False), _rn(3), flags={"inv", "linear"})
    # cache on, with the orthogonal factor in a child module (loaded after the parent's own parameters)
    # exactly as constructed (unit Householder vectors): values and GRADIENTS are those of the general formula
    add("HouseholderSequence/as-constructed", "transform", lambda: TR.HouseholderSequence(3, 3), _rn(3), flags={"inv", "linear", "noperturb"})
    add("QRLinear/as-constructed", "transform", lambda: TR.QRLinear(3, num_householder=3), _rn(3), flags={"inv", "linear", "noperturb"})
    add("SVDLinear/as-constructed", "transform", lambda: TR.SVDLinear(3, num_householder=4, identity_init=False), _rn(3), flags={"inv", "linear", "noperturb"})
    add("QRLinear/cached", "transform", lambda: TR.QRLinear(3, num_householder=3, using_cache=True), _rn(3), flags={"inv", "linear", "bigperturb"})
    add("SVDLinear/cached", "transform", lambda: TR.SVDLinear(3, num_householder=2, using_cache=True, identity_init=False), _rn(3), flags={"inv", "linear", "bigperturb"})
    add("NaiveLinear", "transform", lambda: TR.NaiveLinear(3), _rn(3), flags={"inv", "linear", "ctor_random"})
    add("NaiveLinear/cached", "transform", lambda: TR.NaiveLinear(3, orthogonal_initialization=False, using_cache=True), _rn(3), flags={"inv", "linear", "ctor_random", "bigperturb"})
    def naive64():
        m = TR.NaiveLinear(64, orthogonal_initialization=False)
        with torch.no_grad():
            m._weight.mul_(0.3)      # log|det W| is about -140: |det W| itself underflows in float32
        return m

    add("NaiveLinear/64", "transform", naive64, (lambda n, g: 0.05 * torch.randn(n, 64, generator=g)), flags={"inv", "linear", "ctor_random", "noperturb", "large"}, y=(lambda n, g: 0.01 * torch.randn(n, 64, generator=g)))
    add("OneByOneConvolution", "transform", lambda: TR.OneByOneConvolution(3, identity_init=False), _rn(3, 2, 3), flags={"inv", "image", "linear", "ctor_random"})
    # the cached route of the 1x1 convolution on a non-square image: one log|det W| per pixel in either direction
    add("OneByOneConvolution/cached", "transform", lambda: TR.OneByOneConvolution(3, using_cache=True, identity_init=False), _rn(3, 3, 5), flags={"inv", "image", "linear", "ctor_random"})
    add("HouseholderSequence", "transform", lambda: TR.HouseholderSequence(3, 3), _rn(3), flags={"inv", "linear"})
    # ---- structure
    add("RandomPermutation", "transform", lambda: TR.RandomPermutation(5), _rn(5), flags={"inv", "ctor_random", "noparams"})
    add("ReversePermutation/dim2", "transform", lambda: TR.ReversePermutation(3, dim=2), _rn(2, 3), flags={"inv", "noparams"})
    add("SqueezeTransform", "transform", lambda: TR.SqueezeTransform(2), _rn(2, 4, 2), flags={"inv", "image", "noparams"}, y=_rn(8, 2, 1))
    add("SqueezeTransform/3", "transform", lambda: TR.SqueezeTransform(3), _rn(2, 3, 6), flags={"inv", "image", "noparams"}, y=_rn(18, 1, 2))
    def householder_badly_scaled():
        # reflection vectors as training can leave them: norms of 1e4 and 1e-4 (a reflection does not depend on the norm)
        m = TR.HouseholderSequence(3, 3)
        with torch.no_grad():
            m.q_vectors.copy_(torch.tensor([[3.0e3, -8.0e3, 5.0e3], [2.0e-5, 7.0e-5, -4.0e-5], [1.0, -2.0, 0.5]]))
        return m

    add("HouseholderSequence/badly-scaled-vectors", "transform", householder_badly_scaled, _rn(3), flags={"inv", "linear", "noperturb", "badscale"})
    add("HouseholderSequence/5", "transform", lambda: TR.HouseholderSequence(3, 5), _rn(3), flags={"inv", "linear"})
    add("QRLinear/many-householder", "transform", lambda: TR.QRLinear(2, num_householder=7), _rn(2), flags={"inv", "linear"})
    add("Composite", "transform", lambda: TR.CompositeTransform([TR.LULinear(3, identity_init=False), TR.ReversePermutation(3), TR.MaskedAffineAutoregressiveTransform(3, 8, num_blocks=1), TR.RandomPermutation(3)]), _rn(3), flags={"inv", "ctor_random"})
    add("Inverse(MaskedAffineAR ctx)", "transform", lambda: TR.InverseTransform(TR.MaskedAffineAutoregressiveTransform(3, 8, context_features=2, num_blocks=1)), _rn(3), _rn(2), flags={"inv", "bigperturb"})
    add("Inverse(LU)", "transform", lambda: TR.InverseTransform(TR.LULinear(3, identity_init=False)), _rn(3), flags={"inv"})

    def multiscale():
        m = TR.MultiscaleCompositeTransform(3, split_dim=1)
        s = m.add_transform(TR.ActNorm(8), (8, 2, 2))
        s = m.add_transform(TR.OneByOneConvolution(s[0], identity_init=False), s)
        m.add_transform(TR.AffineCouplingTransform([1, 0], convnet()), s)
        return m

    add("Multiscale", "transform", multiscale, _rn(8, 2, 2), flags={"inv", "image", "ctor_random", "flat_out", "needs_init"}, y=_rn(32))

    def multiscale_dim(split_dim, shape, stages):
        def make():
            m = TR.MultiscaleCompositeTransform(stages, split_dim=split_dim)
            s = shape
            for k in range(stages):
                t = TR.AffineCouplingTransform([1, 0], convnet()) if k == 1 else TR.PointwiseAffineTransform(shift=0.3 * (k + 1), scale=1.7 - 0.4 * k)
                s = m.add_transform(t, s)
            return m

        return make

    # split along the height / width (odd and even sizes): the inverse must re-join along that dimension
    add("Multiscale/split-dim-2", "transform", multiscale_dim(2, (2, 5, 2), 2), _rn(2, 5, 2), flags={"inv", "image", "flat_out"}, y=_rn(20))
    add("Multiscale/split-dim-3", "transform", multiscale_dim(3, (2, 2, 9), 3), _rn(2, 2, 9), flags={"inv", "image", "flat_out"}, y=_rn(36))
    add("CompositeCDF", "transform", lambda: NL.CompositeCDFTransform(NL.Sigmoid(), NL.PiecewiseRationalQuadraticCDF([3], num_bins=4)), _rn(3), flags={"inv"})
    # ---- normalisation (ActNorm initialised by one training pass in `prepare`)
    add("ActNorm", "transform", lambda: TR.ActNorm(3), _rn(3), flags={"inv", "needs_init"})
    add("ActNorm/image", "transform", lambda: TR.ActNorm(3), _rn(3, 2, 3), flags={"inv", "needs_init", "image"})
    # size-one dimensions: grey-scale images, 1x1 feature maps (where a permute + reshape is a view)
    add("ActNorm/one-channel-image", "transform", lambda: TR.ActNorm(1), _rn(1, 3, 2), flags={"inv", "needs_init", "image"})
    add("ActNorm/1x1-feature-map", "transform", lambda: TR.ActNorm(3), _rn(3, 1, 1), flags={"inv", "needs_init", "image"})
    add("BatchNorm", "transform", lambda: TR.BatchNorm(3), _rn(3), flags={"inv", "needs_init", "batch_coupled_train"})
    add("BatchNorm/affine-false+eps", "transform", lambda: TR.BatchNorm(3, eps=1e-3, momentum=0.3, affine=False), _rn(3), flags={"inv", "needs_init", "batch_coupled_train", "bigperturb"})
    # ---- elementwise
    add("Exp", "transform", lambda: NL.Exp(), _rn(3), flags={"anyshape", "inv", "noparams"}, y=_ru(3, lo=0.1, hi=3.0))
    add("Tanh", "transform", lambda: NL.Tanh(), _rn(3), flags={"anyshape", "inv", "noparams"}, y=_ru(3, lo=-0.9, hi=0.9))
    add("LogTanh", "transform", lambda: NL.LogTanh(cut_point=1), (lambda n, g: 2.0 * torch.randn(n, 3, generator=g)), flags={"anyshape", "inv", "noparams"})
    add("LogTanh/cut=2.5", "transform", lambda: NL.LogTanh(cut_point=2.5), (lambda n, g: 3.0 * torch.randn(n, 3, generator=g)), flags={"anyshape", "inv", "noparams"})
    add("LogTanh/cut=0.4", "transform", lambda: NL.LogTanh(cut_point=0.4), (lambda n, g: 1.5 * torch.randn(n, 3, generator=g)), flags={"anyshape", "inv", "noparams"})
    add("LeakyReLU", "transform", lambda: NL.LeakyReLU(0.1), _rn(3), flags={"anyshape", "inv", "noparams"})
    add("LeakyReLU/slope>1", "transform", lambda: NL.LeakyReLU(2.5), _rn(3), flags={"anyshape", "inv", "noparams"})
    add("Sigmoid/numpy-temperature", "transform", lambda: NL.Sigmoid(temperature=1.0 / np.sqrt(2.0)), _rn(3), flags={"inv", "noparams"}, y=_ru(3))
    add("Sigmoid", "transform", lambda: NL.Sigmoid(temperature=0.7), _rn(3), flags={"anyshape", "inv", "noparams"}, y=_ru(3), build_alt=lambda: NL.Sigmoid(temperature=1.0))
    add("Sigmoid/learned", "transform", lambda: NL.Sigmoid(temperature=1.3, learn_temperature=True), _rn(3), flags={"inv"}, y=_ru(3))
    add("Logit", "transform", lambda: NL.Logit(temperature=0.7), _ru(3), flags={"inv", "bounded01", "noparams"}, y=_rn(3))
    def unit_with_ends(n, g):
        v = 0.02 + 0.96 * torch.rand(n, 3, generator=g)
        v[0, 0] = 0.0   # exact end points in one row only
        v[0, 2] = 1.0
        return v

    add("Logit/eps", "transform", lambda: NL.Logit(temperature=1.0, eps=0.05), unit_with_ends, flags={"inv", "bounded01", "noparams"}, y=_rn(3))
    add("CauchyCDF", "transform", lambda: NL.CauchyCDF(), _rn(3), flags={"anyshape", "inv", "noparams"}, y=_ru(3))
    add("CauchyCDFInverse", "transform", lambda: NL.CauchyCDFInverse(), _ru(3), flags={"inv", "bounded01", "noparams"}, y=_rn(3))
    add("PointwiseAffine/tensor", "transform", lambda: TR.PointwiseAffineTransform(shift=torch.tensor([0.5, -1.0, 2.0]), scale=torch.tensor([2.0, -0.5, 3.0])), _rn(3), flags={"inv", "noparams"}, build_alt=lambda: TR.PointwiseAffineTransform(shift=torch.tensor([0.0, 0.0, 0.0]), scale=torch.tensor([1.0, 1.0, 1.0])))
    # unit-conversion constants: scales far from one but well inside single precision (their squares are not); no offset on the tiny
    # scale: 0.5 + 1e-25 x is 0.5 in any precision, nothing an inverse could undo (C02 said so at once)
    add("PointwiseAffine/scales-1e-25-and-1e22", "transform", lambda: TR.PointwiseAffineTransform(shift=torch.tensor([0.0, -1.0, 2.0]), scale=torch.tensor([1e-25, -3.0, 1e22])), _rn(3), flags={"inv", "noparams"}, build_alt=lambda: TR.PointwiseAffineTransform(shift=torch.tensor([0.0, 0.0, 0.0]), scale=torch.tensor([1.0, 1.0, 1.0])))
    add("PointwiseAffine/scalar-image", "transform", lambda: TR.PointwiseAffineTransform(shift=0.5, scale=-2.0), _rn(2, 3, 2), flags={"anyshape", "inv", "noparams", "image"})
    add("GatedLinearUnit", "transform", lambda: NL.GatedLinearUnit(), _rn(3), _rn(3), flags={"inv", "noparams"})
    add("GatedLinearUnit/row-gate", "transform", lambda: NL.GatedLinearUnit(), _rn(3), _rn(1), flags={"inv", "noparams"})
    add("Identity", "transform", lambda: TR.IdentityTransform(), _rn(3), flags={"anyshape", "inv", "noparams"})
    for nm, cls in [("Linear", NL.PiecewiseLinearCDF), ("Quadratic", NL.PiecewiseQuadraticCDF), ("Cubic", NL.PiecewiseCubicCDF), ("RQ", NL.PiecewiseRationalQuadraticCDF)]:
        add("Piecewise%sCDF" % nm, "transform", (lambda cls=cls: cls([3], num_bins=4)), _ru(3), flags={"inv", "bounded01", "spline"})
        add("Piecewise%sCDF/tails" % nm, "transform", (lambda cls=cls: cls([3], num_bins=4, tails="linear", tail_bound=1.5)), _rn(3), flags={"inv", "spline"})
    def flat_first_feature(cls, **kw):
        # feature 0 with exactly flat parameters (a conditioner that starts at zero), the others generic
        def make():
            m = cls([2], num_bins=4, **kw)
            with torch.no_grad():
                for p in m.parameters():
                    p[0].zero_()
            return m

        return make

    for nm, cls in [("Quadratic", NL.PiecewiseQuadraticCDF), ("Cubic", NL.PiecewiseCubicCDF), ("RQ", NL.PiecewiseRationalQuadraticCDF)]:
        add("Piecewise%sCDF/flat-feature" % nm, "transform", flat_first_feature(cls), _ru(2), flags={"inv", "bounded01", "spline", "noperturb"})
    add("PiecewiseCubicCDF/tails+flat-feature", "transform", flat_first_feature(NL.PiecewiseCubicCDF, tails="linear", tail_bound=1.5), _rn(2), flags={"inv", "spline", "noperturb"})
    add("PiecewiseRQCDF/identity-init", "transform", lambda: NL.PiecewiseRationalQuadraticCDF([3], num_bins=4, tails="linear", tail_bound=2.0, identity_init=True), _rn(3), flags={"inv", "spline", "noperturb"})
    # ---- distributions
    add("StandardNormal", "dist", lambda: D.StandardNormal([3]), _rn(3), flags={"sample", "noparams", "mean"})
    add("StandardNormal/2d", "dist", lambda: D.StandardNormal([2, 2]), _rn(2, 2), flags={"sample", "noparams", "mean"})
    add("DiagonalNormal", "dist", lambda: D.DiagonalNormal([3]), _rn(3), flags={})
    add("ConditionalDiagonalNormal", "dist", lambda: D.ConditionalDiagonalNormal([3], context_encoder=torch.nn.Linear(2, 6)), _rn(3), _rn(2), flags={"sample", "needs_ctx", "mean"})
    # scalar events (shape []): inputs of shape [n], the context row IS (mean, log_std)
    add("ConditionalDiagonalNormal/scalar-event", "dist", lambda: D.ConditionalDiagonalNormal([]), _rn(), (lambda n, g: 0.5 * torch.randn(n, 2, generator=g)), flags={"sample", "needs_ctx", "mean", "noparams"})
    add("ConditionalDiagonalNormal/identity-encoder", "dist", lambda: D.ConditionalDiagonalNormal([3]), _rn(3), (lambda n, g: 0.5 * torch.randn(n, 6, generator=g)), flags={"sample", "needs_ctx", "mean", "noparams"})
    add("ConditionalIndependentBernoulli/identity-encoder", "dist", lambda: D.ConditionalIndependentBernoulli([3]), (lambda n, g: (torch.rand(n, 3, generator=g) < 0.5).float()), _rn(3), flags={"sample", "needs_ctx", "discrete", "mean", "noparams"})
    add("ConditionalIndependentBernoulli", "dist", lambda: D.ConditionalIndependentBernoulli([3], context_encoder=torch.nn.Linear(2, 3)), (lambda n, g: (torch.rand(n, 3, generator=g) < 0.5).float()), _rn(2), flags={"sample", "needs_ctx", "discrete", "mean"})
    add("MADEMoG/one-feature+one-component", "dist", lambda: MADEMoG(1, 8, context_features=2, num_blocks=1, num_mixture_components=1), _rn(1), _rn(2), flags={"sample", "needs_ctx", "nonreparam"})
    add("MADEMoG/dropout", "dist", lambda: MADEMoG(2, 8, context_features=None, num_blocks=1, num_mixture_components=2, dropout_probability=0.3), _rn(2), flags={"sample", "nonreparam", "dropout"})
    add("MADEMoG/one-feature", "dist", lambda: MADEMoG(1, 8, context_features=None, num_blocks=1, num_mixture_components=3), _rn(1), flags={"sample", "nonreparam"})
    def mog_dominated():
        # one component has died during training: its logit sits far below the others (its weight underflows to
        # exactly zero, in double precision too); the density and its gradients are those of the two others
        m = MADEMoG(2, 8, context_features=None, num_blocks=1, num_mixture_components=3)
        with torch.no_grad():
            m._made.final_layer.bias[6::9] = -800.0     # the logit of component 3, for every feature
        return m

    add("MADEMoG/dead-component", "dist", mog_dominated, _rn(2), flags={"sample", "nonreparam"})
    add("MADEMoG", "dist", lambda: MADEMoG(3, 8, context_features=2, num_blocks=1, num_mixture_components=3), _rn(3), _rn(2), flags={"sample", "needs_ctx", "nonreparam"})
    # ---- flows
    add("Flow(LU+MAF|Normal)", "flow", lambda: FL.base.Flow(TR.CompositeTransform([TR.LULinear(3, identity_init=False), TR.MaskedAffineAutoregressiveTransform(3, 8, num_blocks=1)]), D.StandardNormal([3])), _rn(3), flags={"sample"})
    add("Flow(coupling|CondNormal)+embedding", "flow", lambda: FL.base.Flow(TR.AffineCouplingTransform([1, -1, 1], resnet(4)), D.ConditionalDiagonalNormal([3], context_encoder=torch.nn.Linear(4, 6)), embedding_net=torch.nn.Linear(2, 4)), _rn(3), _rn(2), flags={"sample", "needs_ctx"})
    # embedding nets with nothing to train (parameter-free, frozen): the context still is a differentiable input
    add("Flow(coupling|CondNormal)+Tanh-embedding", "flow", lambda: FL.base.Flow(TR.AffineCouplingTransform([1, -1, 1], resnet(2)), D.ConditionalDiagonalNormal([3], context_encoder=torch.nn.Linear(2, 6)), embedding_net=torch.nn.Tanh()), _rn(3), _rn(2), flags={"sample", "needs_ctx"})

    def frozen_embedding_flow():
        emb = torch.nn.Linear(2, 4)
        emb.requires_grad_(False)
        return FL.base.Flow(TR.AffineCouplingTransform([1, -1, 1], resnet(4)), D.ConditionalDiagonalNormal([3], context_encoder=torch.nn.Linear(4, 6)), embedding_net=emb)

    add("Flow(coupling|CondNormal)+frozen-embedding", "flow", frozen_embedding_flow, _rn(3), _rn(2), flags={"sample", "needs_ctx"})
    add("Flow(affine|CondNormal identity-encoder)", "flow", lambda: FL.base.Flow(TR.PointwiseAffineTransform(shift=0.5, scale=2.0), D.ConditionalDiagonalNormal([3])), _rn(3), (lambda n, g: 0.5 * torch.randn(n, 6, generator=g)), flags={"sample", "needs_ctx", "noparams"})
    # two features: every second random permutation is the identity
    add("MaskedAutoregressiveFlow/two-features+random-permutations", "flow", lambda: FL.MaskedAutoregressiveFlow(2, 8, num_layers=3, num_blocks_per_layer=1, use_random_permutations=True), _rn(2), flags={"sample", "ctor_random"})
    add("MaskedAutoregressiveFlow", "flow", lambda: FL.MaskedAutoregressiveFlow(3, 8, num_layers=2, num_blocks_per_layer=1, use_random_permutations=True, use_random_masks=True, use_residual_blocks=False, batch_norm_between_layers=True), _rn(3), flags={"sample", "ctor_random", "needs_init", "batch_coupled_train"})
    add("SimpleRealNVP", "flow", lambda: FL.SimpleRealNVP(4, 8, num_layers=2, num_blocks_per_layer=1), _rn(4), flags={"sample"})
    # ---- non-default constructor arguments that no entry above uses
    add("LULinear/eps=0.3", "transform", lambda: TR.LULinear(3, identity_init=False, eps=0.3), _rn(3), flags={"inv", "linear"})
    def svd_on_the_floor():
        # two unconstrained diagonal entries far below zero: those singular values sit on the floor eps
        m = TR.SVDLinear(3, num_householder=2, identity_init=False, eps=0.05)
        with torch.no_grad():
            m.unconstrained_diagonal.copy_(torch.tensor([-12.0, 0.4, -15.0]))
        return m

    add("SVDLinear/singular-values-on-the-floor", "transform", svd_on_the_floor, _rn(3), flags={"inv", "linear"})
    add("SVDLinear/eps=0.2", "transform", lambda: TR.SVDLinear(3, num_householder=2, identity_init=False, eps=0.2), _rn(3), flags={"inv", "linear"})
    add("Sigmoid/T=3+eps=1e-3", "transform", lambda: NL.Sigmoid(temperature=3.0, eps=1e-3), _rn(3), flags={"anyshape", "inv", "noparams"}, y=_ru(3))
    for nm, cls, tb in [("Linear", NL.PiecewiseLinearCDF, 0.5), ("Quadratic", NL.PiecewiseQuadraticCDF, 3.0), ("Cubic", NL.PiecewiseCubicCDF, 0.5), ("RQ", NL.PiecewiseRationalQuadraticCDF, 0.5)]:
        add("Piecewise%sCDF/tails=%s" % (nm, tb), "transform", (lambda cls=cls, tb=tb: cls([3], num_bins=4, tails="linear", tail_bound=tb)), _rn(3), flags={"inv", "spline"})
    add("PiecewiseRQCoupling/tails=0.5+uncond", "transform", lambda: TR.PiecewiseRationalQuadraticCouplingTransform(mask4, resnet(), num_bins=4, tails="linear", tail_bound=0.5, apply_unconditional_transform=True), _rn(4), flags={"inv", "spline"})
    add("PiecewiseCubicCoupling/tails=0.5+uncond", "transform", lambda: TR.PiecewiseCubicCouplingTransform(mask4, resnet(), num_bins=4, tails="linear", tail_bound=0.5, apply_unconditional_transform=True), _rn(4), flags={"inv", "spline"})
    class NoContext(torch.nn.Module):
        """nets.MLP takes no context argument: the adapter a user writes to condition a coupling layer with it."""

        def __init__(self, net):
            super().__init__()
            self.net = net

        def forward(self, inputs, context=None):
            return self.net(inputs)

    add("AffineCoupling/MLP-conditioner", "transform", lambda: TR.AffineCouplingTransform(mask4, lambda i, o: NoContext(nets.MLP([i], [o], hidden_sizes=[8, 8]))), _rn(4), flags={"inv"})
    add("AffineCoupling/image+conv-batchnorm+dropout", "transform", lambda: TR.AffineCouplingTransform([1, 0, 1], lambda i, o: nets.ConvResidualNet(i, o, hidden_channels=4, num_blocks=1, use_batch_norm=True, dropout_probability=0.2)), _rn(3, 2, 3), flags={"inv", "image", "inner_bn", "dropout"})
    add("Permutation/explicit", "transform", lambda: TR.Permutation(torch.tensor([2, 0, 3, 1])), _rn(4), flags={"inv", "noparams"})
    add("BatchNorm/momentum=0.5", "transform", lambda: TR.BatchNorm(3, momentum=0.5), _rn(3), flags={"inv", "needs_init", "batch_coupled_train"})
    add("MADEMoG/custom-initialisation", "dist", lambda: MADEMoG(2, 8, context_features=None, num_blocks=1, num_mixture_components=3, custom_initialization=True), _rn(2), flags={"sample", "nonreparam"})
    add("SimpleRealNVP/volume-preserving+dropout", "flow", lambda: FL.SimpleRealNVP(4, 8, num_layers=2, num_blocks_per_layer=1, use_volume_preserving=True, dropout_probability=0.2), _rn(4), flags={"sample", "dropout"})
    add("MaskedAutoregressiveFlow/feed-forward+dropout", "flow", lambda: FL.MaskedAutoregressiveFlow(3, 8, num_layers=2, num_blocks_per_layer=2, use_residual_blocks=False, dropout_probability=0.2), _rn(3), flags={"sample", "dropout"})
    add("SimpleRealNVP/batchnorm-within", "flow", lambda: FL.SimpleRealNVP(4, 8, num_layers=2, num_blocks_per_layer=1, batch_norm_within_layers=True), _rn(4), flags={"sample", "inner_bn", "needs_init", "batch_coupled_train"})
    return E


def prepare(entry, m, seed=0):
    """Bring stateful layers into a well-defined state: data-dependent init / running statistics."""
    import torch

    if entry.has("needs_init"):
        m.train()
        with torch.no_grad():
            for k in range(3):
                x = entry.x(16, seed + 100 + k)
                c = entry.ctx(16, seed + 100 + k)
                if entry.kind == "transform":
                    m(x, c) if c is not None else m(x)
                else:
                    m.log_prob(x, c) if c is not None else m.log_prob(x)
    return m


def by_name():
    return {e.name: e for e in entries()}
