"""System-level leg shared by C07 (SimpleRealNVP) and C06 (MaskedAutoregressiveFlow): spec/Assembly.tla
transcribes the construction loops of the ready-made flows; every terminal state is rebuilt with the
real constructors (random permutations injected through torch.randperm) and compared layer by layer;
the dependency relation the specification composes from the layers is compared with the sparsity of
the real flow's Jacobian."""
from __future__ import annotations

import random
import re

from . import tlc as T
from .pool import pmap
from .tlaval import parse_state

INVS = ["LayerCount", "Alternating", "BothHalves", "FirstMask", "EveryFeatureTransformed", "RealNVPMixes", "MAFMixes", "OneLayerMAF", "NoFeatureLost"]


def to_case(st):
    cfg = st["cfg"]
    layers = []
    for l in st["layers"]:
        v = l["v"]
        layers.append({"kind": str(l["kind"]), "v": [int(x) for x in v] if len(v) else []})
    return {
        "cfg": {"flow": str(cfg["flow"]), "F": int(cfg["F"]), "L": int(cfg["L"]), "bn": bool(cfg["bn"]), "rp": bool(cfg["rp"])},
        "layers": layers,
        "dep": [sorted(int(i) for i in s) for s in st["dep"]],
    }


def states(run, flow, thorough):
    consts = {"MaxF": 4, "MaxL": 3}
    res = T.run_tlc("Assembly", T.cfg(constants=consts, invariants=INVS), dump=True, name="assembly", workers=8)
    run.model_must_hold(res, "Assembly")
    run.add_tlc(res, "Assembly %s" % consts, require_actions=["DoConfigure", "AddCoupling", "DoPerm", "AddAR", "AddBN"])
    cases = []
    with open(res.dump) as f:
        txt = f.read()
    want = '"%s"' % flow
    for blk in re.split(r"^State \d+:\s*$", txt, flags=re.M):
        if '/\\ phase = "done"' not in blk or want not in blk:
            continue
        cases.append(blk)
    rnd = random.Random(run.seed)
    fixed = [b for b in cases if "rp |-> TRUE" not in b]
    rp = [b for b in cases if "rp |-> TRUE" in b]
    rnd.shuffle(rp)
    chosen = fixed + rp[: (3000 if thorough else 150)]
    run.extra["assembly_states_total"] = len(cases)
    run.extra["assembly_states_replayed"] = len(chosen)
    return [to_case(parse_state(b)) for b in chosen]


def build(case, seed):
    """The real flow of a specification state; random permutations are the specification's."""
    import torch
    from nflows import flows as FL

    cfg = case["cfg"]
    perms = [l["v"] for l in case["layers"] if l["kind"] == "perm"]
    orig = torch.randperm
    q = list(perms)

    def fake(n, *a, **k):
        p = q.pop(0)
        assert len(p) == n
        return torch.tensor([i - 1 for i in p], dtype=torch.long)

    torch.manual_seed(seed)
    if cfg["rp"]:
        torch.randperm = fake
    try:
        if cfg["flow"] == "realnvp":
            m = FL.SimpleRealNVP(cfg["F"], 12, cfg["L"], 1, batch_norm_between_layers=cfg["bn"], use_volume_preserving=bool(seed % 2), activation=torch.tanh)  # tanh: no dead units, so the measured dependency is the structural one
        else:
            m = FL.MaskedAutoregressiveFlow(cfg["F"], 12, cfg["L"], 1, use_random_permutations=cfg["rp"], batch_norm_between_layers=cfg["bn"], use_residual_blocks=bool(seed % 2), use_random_masks=(seed % 4 == 2), activation=torch.tanh)
    finally:
        torch.randperm = orig
    g = torch.Generator().manual_seed(seed + 1)
    with torch.no_grad():
        for p in m.parameters():
            p.add_(0.4 * torch.randn(p.shape, generator=g))
        for n, b in m.named_buffers():
            if n.endswith("running_mean"):
                b.copy_(torch.randn(b.shape, generator=g))
            elif n.endswith("running_var"):
                b.copy_(torch.rand(b.shape, generator=g) + 0.5)
    return m.double().eval()


def check_case(case, seed):
    """Returns (n, fails, drifts)."""
    import torch
    from nflows.transforms.autoregressive import AutoregressiveTransform
    from nflows.transforms.coupling import CouplingTransform
    from nflows.transforms.normalization import BatchNorm
    from nflows.transforms.permutations import Permutation

    cfg = case["cfg"]
    F = cfg["F"]
    fails, drifts = [], []
    tag = {"cfg": cfg, "perms": [l["v"] for l in case["layers"] if l["kind"] == "perm"], "seed": seed}
    try:
        m = build(case, seed)
    except Exception as e:  # noqa
        return 1, [dict(tag, clause="constructor", detail="the constructor raised %r" % (e,))], []
    real = list(m._transform._transforms)
    kinds = []
    for t in real:
        if isinstance(t, CouplingTransform):
            kinds.append("coupling")
        elif isinstance(t, Permutation):
            kinds.append("perm")
        elif isinstance(t, BatchNorm):
            kinds.append("bn")
        elif isinstance(t, AutoregressiveTransform):
            kinds.append("ar")
        else:
            kinds.append(type(t).__name__)
    if kinds != [l["kind"] for l in case["layers"]]:
        drifts.append("%s: layers %s, specification %s" % (cfg, kinds, [l["kind"] for l in case["layers"]]))
        return 1, fails, drifts
    g = torch.Generator().manual_seed(seed + 2)
    x = torch.randn(3, F, generator=g, dtype=torch.double)
    n = 1
    for k, (t, l) in enumerate(zip(real, case["layers"])):
        if l["kind"] == "coupling":
            ident = [i for i, v in enumerate(l["v"]) if v <= 0]
            trans = [i for i, v in enumerate(l["v"]) if v > 0]
            if t.identity_features.tolist() != ident or t.transform_features.tolist() != trans:
                # the layer does not split the features the way the loop's mask at that moment says:
                # consecutive layers then transform the same half (C07: which features a layer leaves alone)
                # a different split is a different flow, not a breach of the coupling property: drift
                drifts.append("%s: coupling layer %d leaves features %s alone and transforms %s; the construction loop's mask at that point says %s / %s" % (cfg, k, t.identity_features.tolist(), t.transform_features.tolist(), ident, trans))
                return n, fails, drifts
            with torch.no_grad():
                y, _ = t(x)
            n += 1
            if not torch.equal(y[:, ident], x[:, ident]):
                fails.append(dict(tag, clause="layer_identity", layer=k, detail="coupling layer %d of the flow changes its identity features %s" % (k, ident)))
        elif l["kind"] == "perm":
            if [int(i) + 1 for i in t._permutation.tolist()] != l["v"]:
                drifts.append("%s: permutation layer %d is %s, specification %s" % (cfg, k, t._permutation.tolist(), [i - 1 for i in l["v"]]))
        elif l["kind"] == "ar":
            J = torch.autograd.functional.jacobian(lambda z: t(z)[0], x[:1])[0, :, 0, :]
            n += 1
            bad = [(o, i) for o in range(F) for i in range(F) if i > o and float(J[o, i]) != 0.0]
            if bad:
                fails.append(dict(tag, clause="layer_autoregressive", layer=k, detail="autoregressive layer %d of the flow: output %d depends on the later input %d" % (k, bad[0][0], bad[0][1])))
    if fails or drifts:
        return n, fails, drifts
    # whole transform: sparsity of the Jacobian vs the composed relation
    Js = [torch.autograd.functional.jacobian(lambda z: m._transform(z)[0], x[r : r + 1])[0, :, 0, :] for r in range(3)]
    n += 1
    random_masks = cfg["flow"] == "maf" and seed % 4 == 2   # hidden degrees drawn at random: connectivity may be partial
    for o in range(F):
        got = {i + 1 for i in range(F) if any(float(J[o, i]) != 0.0 for J in Js)}
        allowed = set(case["dep"][o])
        if not got <= allowed:
            fails.append(dict(tag, clause="flow_dependency", detail="output %d of the whole transform depends on inputs %s, the layer structure allows %s" % (o + 1, sorted(got), sorted(allowed))))
            break
        if got != allowed and not random_masks:
            drifts.append("%s: output %d depends on %s, specification %s" % (cfg, o + 1, sorted(got), sorted(allowed)))
    # the flow is usable: log_prob per row, samples of the right shape, inverse round trip
    with torch.no_grad():
        lp = m.log_prob(x)
        z, lad = m._transform(x)
        xr, lad2 = m._transform.inverse(z)
    n += 1
    if lp.shape != (3,) or not bool(torch.isfinite(lp).all()):
        drifts.append("%s: log_prob of the assembled flow: shape %s, values %s (C18's business)" % (cfg, tuple(lp.shape), lp.tolist()))
    elif not torch.allclose(xr, x, atol=1e-3, rtol=1e-3) or not torch.allclose(lad + lad2, torch.zeros_like(lad), atol=1e-3):  # gross book-keeping only: accuracy is C02's business
        drifts.append("%s: inverse(forward(x)) of the assembled transform differs from x by %.3g, log-dets sum to %.3g (C02's business)" % (cfg, float((xr - x).abs().max()), float((lad + lad2).abs().max())))
    return n, fails, drifts


def task(t):
    import warnings

    warnings.filterwarnings("ignore")
    import torch

    torch.set_num_threads(1)
    cases, seed = t
    out = {"n": 0, "fails": [], "drift": []}
    for i, c in enumerate(cases):
        n, f, d = check_case(c, seed + i % 4)
        out["n"] += n
        out["fails"] += f
        out["drift"] += d[:1]
    return out


def run_assembly(run, flow, clauses_to_attrs=None):
    """Runs the leg for one flow family; returns the failures (the caller turns them into violations
    of its property)."""
    thorough = run.tier == "thorough"
    cases = states(run, flow, thorough)
    fails = []
    nproc = 8
    for out in pmap(task, [(cases[i::nproc], run.seed) for i in range(nproc) if cases[i::nproc]], nproc):
        run.evaluations += out["n"]
        fails += out["fails"]
        for d in out["drift"][:2]:
            run.note_drift("assembly: " + d)
    for c in cases:
        run.nontrivial.add(("assembly", flow, c["cfg"]["F"], c["cfg"]["L"], c["cfg"]["bn"], c["cfg"]["rp"], tuple(tuple(l["v"]) for l in c["layers"] if l["kind"] == "perm")))
    if cases:
        c0 = cases[len(cases) // 2]
        run.sample({"assembled_flow": c0["cfg"], "layers": [[l["kind"], l["v"]] for l in c0["layers"]], "dep": c0["dep"]})
    seen = set()
    out = []
    for f in fails:
        key = (f["clause"], f["cfg"]["flow"], f["cfg"]["F"], f["cfg"]["L"], f["cfg"]["bn"], f["cfg"]["rp"])
        if key in seen:
            continue
        seen.add(key)
        out.append(f)
    return out


def replay(run, c):
    """Re-runs one recorded assembly case; returns its failures."""
    res = T.run_tlc("Assembly", T.cfg(constants={"MaxF": max(4, c["cfg"]["F"]), "MaxL": max(3, c["cfg"]["L"])}), dump=True, coverage=False, workers=8)
    with open(res.dump) as f:
        txt = f.read()
    for blk in re.split(r"^State \d+:\s*$", txt, flags=re.M):
        if '/\\ phase = "done"' not in blk or '"%s"' % c["cfg"]["flow"] not in blk:
            continue
        case = to_case(parse_state(blk))
        if case["cfg"] == c["cfg"] and [l["v"] for l in case["layers"] if l["kind"] == "perm"] == c["perms"]:
            return [f for f in check_case(case, c["seed"])[1] if f["clause"] == c["clause"]]
    raise T.MachineryError("assembly case not found")
