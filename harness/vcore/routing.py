"""Leg of C08: spec/Routing.tla (Permutation / ReversePermutation / SqueezeTransform as coordinate
routes over Tensor.tla views) replayed on the real classes with index-tagged tensors."""
from __future__ import annotations

from . import tlc as T
from .pool import pmap
from .tlaval import parse_dump

INVS = ["Bijection", "RowLocal", "InverseUndoes", "SqueezeSemantics", "ErrorContract"]
CONSTS = {"MaxSize": 3, "Batch": 2}


def seq(v):
    if isinstance(v, dict):
        return [v[k] for k in sorted(v)]
    return list(v)


def task(states):
    import warnings

    warnings.filterwarnings("ignore")
    import torch

    torch.set_num_threads(1)
    from nflows import transforms as TR

    out = {"n": 0, "fails": [], "drift": []}
    for st in states:
        c = st["call"]
        op = str(c["op"])
        shape = [int(v) for v in c["shape"]]
        direction = str(c["dir"])
        N = 1
        for v in shape:
            N *= v
        x = torch.arange(N, dtype=torch.float64).reshape(shape)
        case = {"kind": "routing", "op": op, "shape": shape, "dir": direction}
        try:
            if op == "perm":
                perm = [int(v) for v in seq(c["perm"])]
                dim = int(c["dim"])
                case.update(perm=perm, dim=dim)
                if perm == list(range(len(perm) - 1, -1, -1)) and len(perm) > 1:
                    m = TR.ReversePermutation(len(perm), dim=dim)
                else:
                    m = TR.Permutation(torch.tensor(perm, dtype=torch.long), dim=dim)
            else:
                case.update(f=int(c["f"]))
                m = TR.SqueezeTransform(factor=int(c["f"]))
        except Exception as e:  # noqa
            out["drift"].append("constructor of %s rejected: %r" % (case, e))
            continue
        out["n"] += 1
        snap = x.clone()
        try:
            y, lad = (m.forward(x) if direction == "fwd" else m.inverse(x))
            got = "tensor"
        except ValueError:
            got = "ValueError"
        except Exception as e:  # noqa
            got = "Crash:%r" % (e,)
        want = str(st["out"]["o"])
        if got != want:
            if want == "tensor":
                out["fails"].append(dict(case, clause="call_raises", detail="%s %s on shape %s raised %s; the documented route exists" % (op, direction, shape, got)))
            elif got == "tensor":
                # an undocumented acceptance is not a routing error by itself; what it returns is checked nowhere
                out["drift"].append("%s %s on shape %s: accepted, specification says %s" % (op, direction, shape, want))
            else:
                out["drift"].append("%s %s on shape %s: %s, specification says %s" % (op, direction, shape, got[:80], want))
            continue
        if got != "tensor":
            continue
        t = st["out"]["t"]
        eshape = [int(v) for v in t["shape"]]
        src = [int(v) for v in seq(t["src"])]
        exp = torch.tensor(src, dtype=torch.float64).reshape(eshape)
        if list(y.shape) != eshape or not torch.equal(y, exp):
            out["fails"].append(dict(case, clause="routing", detail="%s %s on shape %s: output shape %s / elements differ from the documented route (first rows %s vs %s)" % (op, direction, shape, list(y.shape), y.reshape(-1)[:8].tolist(), exp.reshape(-1)[:8].tolist())))
            continue
        if lad.shape != (shape[0],) or bool((lad != 0).any()):
            out["fails"].append(dict(case, clause="logabsdet", detail="%s %s: logabsdet %s, a coordinate route has log|det| = 0 per row" % (op, direction, lad.tolist())))
        if not torch.equal(x, snap):
            out["fails"].append(dict(case, clause="argument_modified", detail="%s %s modified its input" % (op, direction)))
    return out


def run_leg(run):
    res = T.run_tlc("Routing", T.cfg(constants=CONSTS, invariants=INVS), dump=True, name="routing", workers=8)
    run.model_must_hold(res, "Routing")
    run.add_tlc(res, "Routing %s" % CONSTS)
    sts = parse_dump(res.dump)
    fails = []
    nproc = 8
    for out in pmap(task, [sts[i::nproc] for i in range(nproc) if sts[i::nproc]], nproc):
        run.evaluations += out["n"]
        fails += out["fails"]
        for d in out["drift"][:2]:
            run.note_drift("routing: " + d)
    for st in sts:
        if str(st["out"]["o"]) == "tensor":
            c = st["call"]
            run.nontrivial.add(("routing", str(c["op"]), tuple(int(v) for v in c["shape"]), str(c["dir"]), repr(c.get("perm", c.get("f")))))
    s0 = next(s for s in sts if str(s["call"]["op"]) == "squeeze" and str(s["out"]["o"]) == "tensor")
    run.sample({"routing": {"op": "squeeze", "shape": [int(v) for v in s0["call"]["shape"]], "factor": int(s0["call"]["f"]), "dir": str(s0["call"]["dir"]), "src": [int(v) for v in seq(s0["out"]["t"]["src"])][:16]}})
    return fails


def replay(run, c):
    res = T.run_tlc("Routing", T.cfg(constants=CONSTS), dump=True, coverage=False, workers=8)
    sts = []
    for st in parse_dump(res.dump):
        k = st["call"]
        if str(k["op"]) == c["op"] and [int(v) for v in k["shape"]] == c["shape"] and str(k["dir"]) == c["dir"]:
            if c["op"] == "perm" and ([int(v) for v in seq(k["perm"])] != c["perm"] or int(k["dim"]) != c["dim"]):
                continue
            if c["op"] == "squeeze" and int(k["f"]) != c["f"]:
                continue
            sts.append(st)
    return [f for f in task(sts)["fails"] if f["clause"] == c["clause"]]
