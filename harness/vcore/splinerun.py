"""Driver shared by the spline-lattice checks (C09, C17 and the spline parts of C01, C02, C19)."""
from __future__ import annotations

import json

from . import splinelat as SL
from . import tlc as T
from .pool import pmap
from .splinecheck import spline_task


def run_lattice(run, prop, thorough, extra_want=()):
    cases = SL.lattice(run, rich=thorough)
    # the specification also derives the failure of the unclamped bin search (eps absorbed in float32)
    bad = T.run_tlc("Spline", SL.spline_cfg(["rq"], False, clamp=False, invariants=["InDomainAccepted"]), coverage=False, name="spline_noclamp", workers=4)
    if bad.ok:
        raise T.MachineryError("Spline.tla does not derive the out-of-range bin index when the bin search is not clamped")
    run.extra["counterexample_derived_without_bin_clamp"] = bad.violated
    run.states += bad.distinct
    run.transitions += bad.generated
    want = [prop] + list(extra_want)
    chunks = [cases[i::32] for i in range(32)]
    findings = []
    for out in pmap(spline_task, [(ch, want) for ch in chunks if ch]):
        run.evaluations += out["n"]
        findings += out["findings"]
    for c in cases:
        p = c["par"]
        if len(p["ws"]) > 1 or p["fam"] != "linear":
            run.nontrivial.add(SL.par_key(p))
    c0 = next(c for c in cases if c["par"]["fam"] == "rq" and len(c["par"]["ws"]) == 2 and not c["par"]["tails"])
    run.sample({"case": SL.describe(c0["par"]), "points": [[str(x), {k: str(v) for k, v in o.items()}] for x, o in c0["pts"][:5]]})
    seen = set()
    for f in findings:
        if f["prop"] == "machinery":
            raise T.MachineryError("spline evaluation failed: %s\n%s" % (f["desc"], f["detail"]))
        if f["prop"] == "drift":
            run.note_drift("%s: %s" % (f["desc"], f["detail"]))
            continue
        if f["prop"] != prop:
            continue
        key = (f["clause"], f["desc"], f.get("dtype"))
        if key in seen:
            continue
        seen.add(key)
        run.violation({"fam": f["fam"], "clause": f["clause"], "tails": f["tails"], "dtype": f.get("dtype"), "bins": len(f["par"]["ws"])}, "%s [%s]: %s" % (f["desc"], f.get("dtype"), f["detail"]), {"kind": "spline", "par": f["par"], "clause": f["clause"], "variant": f.get("variant", 0)})
    return cases


def replay_spline(run, prop, c):
    from .splinecheck import eval_case

    par = SL.par_from_json(c["par"])
    res = T.run_tlc("Spline", SL.spline_cfg([par["fam"]], True), dump=True, coverage=False, workers=8, timeout=3000)
    import re

    from .tlaval import parse_state

    for blk in re.split(r"^State \d+:\s*$", open(res.dump).read(), flags=re.M):
        if '/\\ phase = "done"' not in blk:
            continue
        case = SL.to_case(parse_state(blk))
        if SL.par_key(case["par"]) == SL.par_key(par):
            for f in eval_case(case, {prop}, variant=c.get("variant", 0)):
                if f["prop"] == prop:
                    run.violation({"fam": f["fam"], "clause": f["clause"]}, "replayed: " + f["detail"], c)
            return
    raise T.MachineryError("case not found in the lattice")
