"""pytest plugin: records what the repository's own test-suite does to nflows objects, as traces for
the TLA+ trace specifications (code -> spec direction on executions nobody in /verif wrote).

    cd /repo && PYTHONPATH=/verif/harness:/repo SUITE_TRACE_OUT=<file> \
        python -m pytest -q -p no:cacheprovider -p vcore.suite_rec tests/

No source hook is needed: the public methods of every Transform / Distribution subclass are wrapped
at import time (guarded by this plugin being loaded, i.e. only inside the harness).  Three recorders:

 session  one history per object that a test calls directly (depth counter: nested calls made by the
          library itself are not events).  Event = what spec/TraceSession.tla judges: operation,
          which state-dict categories changed, whether an argument changed, whether a repeated
          evaluation-mode call with identical arguments and identical state reproduced its result.
          Mode switches and external parameter edits are recovered from the logged state (a mode that
          differs from the last logged one becomes a Train / Eval event; a state that changed between
          two calls becomes a TrainStep in training mode and starts a new history otherwise).
 linear   one history per Linear subclass instance (any depth): Train / Eval / UseCache / Call with
          the cache occupancy after every step, for spec/TraceLinearCache.tla.
 made     every MADE network constructed: configuration, degrees and masks of every MaskedLinear,
          for spec/TraceMade.tla.
"""
from __future__ import annotations

import functools
import json
import os

STATE = {"depth": 0, "session": {}, "linear": {}, "made": [], "keep": [], "test": "?", "errors": []}
SESSION_OPS = {"forward", "inverse", "log_prob", "sample", "sample_and_log_prob", "transform_to_noise"}
DETERMINISTIC = {"forward", "inverse", "log_prob", "transform_to_noise"}
MAX_EVENTS = 400


def _tensors(args, kwargs):
    import torch

    out = []
    for a in list(args) + list(kwargs.values()):
        if isinstance(a, torch.Tensor):
            out.append(a)
    return out


def _full_state(m):
    import torch

    d = {k: v for k, v in m.state_dict().items()}
    for k, v in m.named_buffers():
        d.setdefault(k, v)
    for k, mod in m.named_modules():
        d[(k + "." if k else "") + "__training__"] = torch.tensor(float(mod.training))
    # ... and so is whether a parameter is trainable
    for k, p_ in m.named_parameters():
        d[k + ".__requires_grad__"] = torch.tensor(float(p_.requires_grad))
    return d


def _clone_state(m):
    return {k: v.detach().clone() for k, v in _full_state(m).items()}


def _diff(sd0, sd1):
    import torch

    keys = set()
    if set(sd0) != set(sd1):
        keys.add("keys")
    for k, v in sd1.items():
        if k in sd0 and (v.shape != sd0[k].shape or v.dtype != sd0[k].dtype or not torch.allclose(v.detach(), sd0[k], rtol=0, atol=0, equal_nan=True)):
            keys.add(k)
    return keys


def _input_kind(ts):
    for t in ts:
        if t.requires_grad:
            return "grad"
    for t in ts:
        if not t.is_contiguous():
            return "noncontig"
    for t in ts:
        if t._base is not None:
            return "view"
    return "plain"


def _same(a, b):
    import torch

    if len(a) != len(b):
        return False
    for x, y in zip(a, b):
        if x.shape != y.shape or x.dtype != y.dtype or not torch.allclose(x, y, rtol=0, atol=0, equal_nan=True):
            return False
    return True


def _mocked(m):
    from unittest import mock

    for mod in m.modules():
        if any(isinstance(v, mock.Mock) for v in vars(mod).values()):
            return True
    return False


def _result_tensors(r):
    import torch

    if isinstance(r, torch.Tensor):
        return [r.detach().clone()]
    if isinstance(r, (tuple, list)) and all(isinstance(t, torch.Tensor) for t in r):
        return [t.detach().clone() for t in r]
    return None


class SessionRec:
    def __init__(self, obj):
        from vcore.session import model_layers

        self.obj = obj
        self.traces = []
        self.model_layers = model_layers
        self._start()

    def _start(self):
        import torch
        from nflows.distributions.base import Distribution
        from nflows.transforms.normalization import ActNorm

        m = self.obj
        bn, an, anp = self.model_layers(m)
        self.anp = anp
        inits = [bool(mod.initialized) for mod in m.modules() if isinstance(mod, ActNorm)]
        if isinstance(m, Distribution):
            ops = ["log_prob", "sample", "sample_and_log_prob"] + (["transform_to_noise"] if hasattr(m, "transform_to_noise") else [])
        else:
            ops = ["forward", "inverse"]
        self.cur = {"cls": type(m).__name__, "test": STATE["test"], "ops": ops, "bn": bool(bn), "an": bool(an), "anInit": all(inits) if inits else True, "ev": []}
        self.traces.append(self.cur)
        self.mode = "train"  # Session!Init
        self.after = None  # state after the last event
        self.results = {}

    def before_call(self):
        m = self.obj
        sd0 = _clone_state(m)
        if self.after is not None and _diff(self.after, sd0):
            # somebody edited the state between two calls (optimiser, test set-up)
            if self.mode == "train" and m.training:
                self.cur["ev"].append({"a": "TrainStep"})
            else:
                self._start()
            self.results = {}
        want = "train" if m.training else "eval"
        if want != self.mode:
            self.cur["ev"].append({"a": "Train" if want == "train" else "Eval"})
            self.mode = want
            self.results = {}
        return sd0

    def after_call(self, op, ts, snaps, sd0, result, raised, rep_override=None):
        import torch
        from vcore.session import categorize, changed

        m = self.obj
        sd1 = _clone_state(m)
        keys = _diff(sd0, sd1)
        writes = sorted({("other:keys" if k == "keys" else categorize(k, self.anp)) for k in keys})
        rep = rep_override or "first"
        ev = {"a": "Call", "op": op, "ik": _input_kind(ts), "argsChanged": bool(changed(ts, snaps)), "writes": writes, "repeat": rep, "raised": raised, "twin": "na"}
        if len(self.cur["ev"]) < MAX_EVENTS:
            self.cur["ev"].append(ev)
        self.after = sd1


def _session_wrap(cls, name):
    orig = cls.__dict__.get(name) or getattr(cls, name)

    @functools.wraps(orig)
    def wrapper(self, *args, **kwargs):
        if STATE["depth"] > 0 or not STATE.get("on", True):
            return orig(self, *args, **kwargs)
        from vcore.session import snap

        STATE["depth"] += 1
        rec = None
        try:
            try:
                rec = STATE["session"].get(id(self))
                if rec is None or rec.obj is not self:
                    rec = SessionRec(self)
                    STATE["session"][id(self)] = rec
                if os.environ.get("SUITE_FORCE_EVAL") and self.training:
                    # second pass of the suite: the same tests as drivers of evaluation-mode calls
                    import torch

                    torch.nn.Module.train(self, False)
                ts = _tensors(args, kwargs)
                snaps = snap(ts)
                sd0 = rec.before_call()
            except Exception as e:  # recorder trouble must never change the test's outcome
                STATE["errors"].append("%s.%s: %r" % (cls.__name__, name, e))
                rec = None
            raised, result = "none", None
            try:
                result = orig(self, *args, **kwargs)
                return result
            except BaseException as e:
                raised = type(e).__name__
                raise
            finally:
                if rec is not None:
                    try:
                        rec.after_call(name, ts, snaps, sd0, result, raised)
                        # evaluation mode: the same call again, at once, must reproduce the result (the
                        # recorder's own probe, logged as an event of its own); never on mocked objects
                        first = _result_tensors(result) if raised == "none" else None
                        if first is not None and name in DETERMINISTIC and not self.training and not _mocked(self):
                            sd_a = rec.before_call()
                            snaps2 = snap(ts)
                            again, raised2 = None, "none"
                            try:
                                again = orig(self, *args, **kwargs)
                            except Exception as e2:  # noqa
                                raised2 = type(e2).__name__
                            second = _result_tensors(again) if raised2 == "none" else None
                            rec.after_call(name, ts, snaps2, sd_a, again, raised2, rep_override=("eq" if second is not None and _same(first, second) else "neq"))
                    except Exception as e:  # noqa
                        STATE["errors"].append("%s.%s (after): %r" % (cls.__name__, name, e))
        finally:
            STATE["depth"] -= 1

    setattr(cls, name, wrapper)


# ------------------------------------------------------------------------------------ linear
class LinearRec:
    def __init__(self, obj):
        self.obj = obj
        self.trace = {"cls": type(obj).__name__, "test": STATE["test"], "uc": bool(obj.using_cache), "ev": [], "mock": False}
        self.tr = True  # LinearCache!Init: training
        self.uc = bool(obj.using_cache)
        self.usable = bool(obj.training) and all(getattr(obj.cache, k) is None for k in ("weight", "inverse", "logabsdet"))

    def project(self):
        import torch

        m = self.obj
        c = m.cache
        try:
            pd = next(m.parameters()).dtype
        except StopIteration:
            pd = torch.float32
        return {"tr": bool(m.training), "uc": bool(m.using_cache), "dt": "f64" if pd == torch.float64 else "f32",
                "occ": [c.weight is not None, c.inverse is not None, c.logabsdet is not None]}

    def sync(self):
        """Mode / flag changes that did not go through a recorded call on this object (a parent's
        train(), eval())."""
        m = self.obj
        if bool(m.training) != self.tr:
            self.emit({"a": "Train" if m.training else "Eval"})
        if bool(m.using_cache) != self.uc:
            self.emit({"a": "UseCache", "b": bool(m.using_cache)})

    def emit(self, ev):
        ev.update(self.project())
        self.tr, self.uc = ev["tr"], ev["uc"]
        if len(self.trace["ev"]) < MAX_EVENTS:
            self.trace["ev"].append(ev)


def _linear_rec(obj):
    rec = STATE["linear"].get(id(obj))
    if rec is None or rec.obj is not obj:
        rec = LinearRec(obj)
        STATE["linear"][id(obj)] = rec
    return rec


def _linear_call_wrap(cls, name):
    orig = cls.__dict__.get(name) or getattr(cls, name)
    dir_ = "fwd" if name == "forward" else "inv"

    @functools.wraps(orig)
    def wrapper(self, *args, **kwargs):
        import torch

        if not STATE.get("on", True):
            return orig(self, *args, **kwargs)
        rec = None
        try:
            rec = _linear_rec(self)
            rec.sync()
        except Exception as e:  # noqa
            STATE["errors"].append("linear %s: %r" % (name, e))
        result = orig(self, *args, **kwargs)
        if rec is not None:
            try:
                o = "fresh"
                outs = _result_tensors(result)
                if outs is None or _mocked(self):
                    rec.trace["mock"] = True
                else:
                    # the outcome relative to recomputing without the cache: the uncached path of the
                    # same object on the same inputs
                    STATE["on"] = False
                    try:
                        with torch.no_grad():
                            exp = _result_tensors(getattr(self, name + "_no_cache")(args[0].detach() if args else kwargs["inputs"].detach()))
                    finally:
                        STATE["on"] = True
                    tol = 1e-4 if outs[0].dtype == torch.float32 else 1e-9
                    if exp is None or len(exp) != len(outs) or any(a.shape != b.shape or float((a - b).abs().max() / (1 + b.abs().max())) > tol for a, b in zip(outs, exp) if a.numel()):
                        o = "stale"
                rec.emit({"a": "Call", "dir": dir_, "bw": False, "o": o})
            except Exception as e:  # noqa
                STATE["errors"].append("linear %s (after): %r" % (name, e))
        return result

    setattr(cls, name, wrapper)


def _linear_simple_wrap(cls, name, make_event):
    # (a class that does not define the method itself inherits it: wrap what attribute lookup finds)
    orig = cls.__dict__.get(name) or getattr(cls, name)

    @functools.wraps(orig)
    def wrapper(self, *args, **kwargs):
        if not STATE.get("on", True):
            return orig(self, *args, **kwargs)
        rec = None
        try:
            rec = _linear_rec(self)
            rec.sync()
        except Exception as e:  # noqa
            STATE["errors"].append("linear %s: %r" % (name, e))
        result = orig(self, *args, **kwargs)
        if rec is not None:
            try:
                ev = make_event(self, args, kwargs)
                if ev is not None:
                    rec.emit(ev)
            except Exception as e:  # noqa
                STATE["errors"].append("linear %s (after): %r" % (name, e))
        return result

    setattr(cls, name, wrapper)


# ------------------------------------------------------------------------------------ made
def _made_wrap(cls, copy_name):
    orig = cls.__dict__.get("__init__") or cls.__init__

    @functools.wraps(orig)
    def wrapper(self, *args, **kwargs):
        orig(self, *args, **kwargs)
        if type(self) is not cls or not STATE.get("on", True):
            return
        try:
            import inspect

            ba = inspect.signature(orig).bind(self, *args, **kwargs)
            ba.apply_defaults()
            a = ba.arguments
            layers = [("initial", self.initial_layer)]
            for b in self.blocks:
                if hasattr(b, "linear_layers"):
                    layers += [("res0", b.linear_layers[0]), ("res1", b.linear_layers[1])]
                else:
                    layers.append(("ff", b.linear))
            layers.append(("final", self.final_layer))
            cfg = {"D": int(a["features"]), "H": int(a["hidden_features"]), "B": int(a["num_blocks"]), "m": int(a.get("output_multiplier", 1)),
                   "res": bool(a["use_residual_blocks"]), "rnd": bool(a["random_mask"])}
            deps = None
            if not a.get("use_batch_norm") and not a.get("dropout_probability"):
                # dependency pattern measured on a deep copy with all-ones weights (inputs >= 0, so a
                # ReLU acts as the identity and nothing can cancel)
                import copy

                import torch

                STATE["on"] = False
                try:
                    tw = copy.deepcopy(self).double()
                    with torch.no_grad():
                        for p_ in tw.parameters():
                            p_.zero_()
                        for _, lin in [("initial", tw.initial_layer)] + [(None, l) for b in tw.blocks for l in (b.linear_layers if hasattr(b, "linear_layers") else [b.linear])] + [("final", tw.final_layer)]:
                            lin.weight.fill_(1.0 / lin.weight.shape[1])  # positive, no growth with depth
                        tw.eval()
                        D = cfg["D"]
                        x = torch.cat([torch.zeros(1, D), torch.eye(D)], 0).double()
                        ctxf = a.get("context_features")
                        y = tw(x, torch.zeros(D + 1, ctxf).double()) if ctxf else tw(x)
                        J = (y[1:] - y[0:1]).t()
                        if bool(torch.isfinite(J).all()):
                            deps = [[1 if v != 0 else 0 for v in row] for row in J.tolist()]
                finally:
                    STATE["on"] = True
            STATE["made"].append({"copy": copy_name, "deps": deps, "test": STATE["test"], "cfg": cfg, "ctx": a.get("context_features"),
                                  "layers": [{"kind": k, "degs": [int(v) for v in lin.degrees.tolist()], "mask": [[int(v) for v in row] for row in lin.mask.tolist()]} for k, lin in layers]})
        except Exception as e:  # noqa
            STATE["errors"].append("made: %r" % (e,))

    cls.__init__ = wrapper


def _all_subclasses(c):
    out, todo = [], [c]
    while todo:
        k = todo.pop()
        for s in k.__subclasses__():
            if s not in out:
                out.append(s)
                todo.append(s)
    return out


def install():
    import importlib
    import pkgutil

    import nflows

    for mod in pkgutil.walk_packages(nflows.__path__, "nflows."):
        try:
            importlib.import_module(mod.name)
        except Exception as e:  # noqa
            STATE["errors"].append("import %s: %r" % (mod.name, e))
    from nflows.distributions.base import Distribution
    from nflows.transforms.base import Transform
    from nflows.transforms.linear import Linear

    what = os.environ.get("SUITE_REC", "session,linear,made").split(",")
    if "session" in what:
        for base, names in ((Transform, ("forward", "inverse")), (Distribution, ("log_prob", "sample", "sample_and_log_prob", "transform_to_noise"))):
            for cls in [base] + _all_subclasses(base):
                if not cls.__module__.startswith("nflows."):
                    continue
                for name in names:
                    if name in cls.__dict__ and callable(cls.__dict__[name]):
                        _session_wrap(cls, name)
    if "linear" in what:
        _linear_call_wrap(Linear, "forward")
        _linear_call_wrap(Linear, "inverse")
        _linear_simple_wrap(Linear, "use_cache", lambda self, a, k: {"a": "UseCache", "b": bool(self.using_cache)})
        _linear_simple_wrap(Linear, "train", lambda self, a, k: {"a": "Train" if self.training else "Eval"})
    if "made" in what:
        from nflows.nn.nde import made as nde
        from nflows.transforms import made as tm

        _made_wrap(tm.MADE, "transforms.made")
        _made_wrap(nde.MADE, "nn.nde.made")


def dump():
    path = os.environ.get("SUITE_TRACE_OUT")
    if not path:
        return
    sess = []
    for rec in STATE["session"].values():
        sess += [t for t in rec.traces if t["ev"]]
    lin = [rec.trace for rec in STATE["linear"].values() if rec.trace["ev"] and rec.usable]
    with open(path, "w") as f:
        json.dump({"session": sess, "linear": lin, "made": STATE["made"], "errors": STATE["errors"][:50], "n_errors": len(STATE["errors"])}, f)


# ------------------------------------------------------------------------------------ pytest hooks
def pytest_configure(config):
    install()


def pytest_runtest_setup(item):
    STATE["test"] = item.nodeid
    # objects are per test: drop the id -> recorder maps' liveness problem by keeping the recorders
    # (they hold their object, so ids are never reused)


def pytest_sessionfinish(session, exitstatus):
    dump()
