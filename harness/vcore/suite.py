"""Runs the repository's own test-suite under the recorder plugin (vcore.suite_rec) and returns the
recorded traces.  The suite is a driver nobody in /verif wrote; its verdicts (pass / fail) are not
used - only what it did to the objects."""
from __future__ import annotations

import json
import os
import subprocess
import sys

from . import tlc as T

REPO = os.environ.get("NFLOWS_REPO", "/repo")


def run_suite(what="session,linear,made", force_eval=False, timeout=900):
    out = os.path.join(T.scratch(), "suite_%s_%d.json" % (what.replace(",", "_"), int(force_eval)))
    env = dict(os.environ)
    env.update(PYTHONPATH=os.pathsep.join([os.path.join(os.path.dirname(os.path.dirname(os.path.abspath(__file__)))), REPO]), SUITE_TRACE_OUT=out, SUITE_REC=what,
               OMP_NUM_THREADS="1", MKL_NUM_THREADS="1", PYTHONDONTWRITEBYTECODE="1")
    if force_eval:
        env["SUITE_FORCE_EVAL"] = "1"
    else:
        env.pop("SUITE_FORCE_EVAL", None)
    p = subprocess.run([sys.executable, "-m", "pytest", "-q", "-p", "no:cacheprovider", "-p", "vcore.suite_rec", "tests/"], cwd=REPO, env=env, stdout=subprocess.PIPE, stderr=subprocess.STDOUT, text=True, timeout=timeout)
    if not os.path.exists(out):
        raise T.MachineryError("the test-suite did not run under the recorder:\n" + p.stdout[-2000:])
    with open(out) as f:
        d = json.load(f)
    d["pytest_tail"] = p.stdout.strip().splitlines()[-1] if p.stdout.strip() else ""
    return d
