"""./check selftest - demonstrates that the trace specifications are bound to what was recorded:
every recorded history is accepted as it is, and rejected (or judged) once a single logged field is
corrupted or a single event is dropped.  Exit 0 iff every demonstration behaves that way."""
from __future__ import annotations

import copy
import sys


class _Run:
    """Minimal stand-in for vcore.run.Run (counters only)."""

    def __init__(self):
        self.states = self.transitions = self.traces = self.evaluations = 0
        self.drift = []
        self.extra = {}
        self.seed = 0

    def note_drift(self, msg):
        self.drift.append(msg)


def main(argv):
    import warnings

    warnings.filterwarnings("ignore")
    from checks import c06, c10
    from vcore import session as S
    from vcore import suite
    from vcore import zoo

    ok = True

    def report(name, good, detail=""):
        nonlocal ok
        ok = ok and good
        print("%s  %s %s" % ("ok  " if good else "FAIL", name, detail))

    # ---- 1. TraceLinearCache: a history recorded from the real LULinear
    d = c10.Driver("LULinear", 2, False, 1)
    for name, args in [("Eval", []), ("UseCache", [True]), ("Call", ["fwd", False]), ("Call", ["inv", False]), ("Train", []), ("Eval", []), ("Call", ["inv", False]), ("Load", []), ("Call", ["fwd", False])]:
        d.apply(name, args)
    good = {"uc": False, "cls": "LULinear", "ev": d.events}
    shape = c10.CLASSES["LULinear"]
    r = _Run()
    report("TraceLinearCache accepts the recorded history", c10.validate_traces(r, {shape: [copy.deepcopy(good)]}) == 1 and not r.drift)
    bad = copy.deepcopy(good)
    bad["ev"][4]["occ"] = [True, True, True]          # "the cache survived train()"
    r = _Run()
    report("TraceLinearCache rejects it when the occupancy logged after train() is corrupted", c10.validate_traces(r, {shape: [bad]}) == 0 and bool(r.drift), (r.drift[0][:110] if r.drift else ""))
    bad = copy.deepcopy(good)
    del bad["ev"][1]                                  # the UseCache event is dropped
    r = _Run()
    report("TraceLinearCache rejects it when the use_cache event is dropped", c10.validate_traces(r, {shape: [bad]}) == 0 and bool(r.drift))

    # ---- 2. TraceSession: a session recorded from the real BatchNorm
    e = zoo.by_name()["BatchNorm"]
    drv = S.SessionDriver(e, 0, True)
    for name, args in [("Call", ["forward", "plain"]), ("Eval", []), ("Call", ["forward", "plain"]), ("Call", ["forward", "view"]), ("Call", ["inverse", "plain"])]:
        drv.apply(name, args)
    t = {"name": "BatchNorm", "seed": 0, "ops": S.entry_kind(e), "bn": True, "an": False, "anInit": True, "ev": drv.events, "history": drv.history}
    badv, _ = S.judge_traces(_Run(), [copy.deepcopy(t)])
    report("TraceSession judges every recorded step ok", not badv)
    t2 = copy.deepcopy(t)
    t2["ev"][2]["writes"] = ["bn_running"]            # "the evaluation-mode call moved the statistics"
    badv, _ = S.judge_traces(_Run(), [t2])
    report("TraceSession flags a running-statistics write logged in evaluation mode", [v for _, _, v in badv] == ["state_written_in_eval"], str([(i, v) for _, i, v in badv]))
    t3 = copy.deepcopy(t)
    t3["ev"][3]["argsChanged"] = True
    badv, _ = S.judge_traces(_Run(), [t3])
    report("TraceSession flags a modified argument", [v for _, _, v in badv] == ["argument_modified"])

    # ---- 3. TraceMade: a network built by the real constructor
    cfg = {"D": 3, "H": 4, "B": 1, "m": 2, "res": False, "rnd": False}
    net = c06.build_net("transforms.made", cfg)
    ev = c06.net_event(net, cfg, 3)
    ev.update(copy="transforms.made", seed=0)
    bounds = {"MaxD": 3, "MaxH": 4, "MaxBlocks": 2, "MaxMult": 3}
    r = _Run()
    report("TraceMade accepts the recorded network", c06.validate_nets(r, [copy.deepcopy(ev)], bounds, name="selftest_made") == 1)
    ev2 = copy.deepcopy(ev)
    ev2["layers"][1]["mask"][0][2] = 1 - ev2["layers"][1]["mask"][0][2]
    r = _Run()
    report("TraceMade rejects it when one mask entry is flipped", c06.validate_nets(r, [ev2], bounds, name="selftest_made2") == 0 and bool(r.drift), (r.drift[0][:90] if r.drift else ""))

    # ---- 4. histories recorded from the repository's own test-suite
    sd = suite.run_suite("linear")
    lin = [t_ for t_ in sd["linear"] if any(e_["a"] == "Eval" for e_ in t_["ev"]) and any(e_["a"] == "Call" for e_ in t_["ev"])]
    if not lin:
        report("the test-suite exercises a Linear in evaluation mode", False)
    else:
        g = {"uc": lin[0]["uc"], "cls": lin[0]["cls"], "ev": lin[0]["ev"]}
        r = _Run()
        report("TraceLinearCache accepts a history recorded from the test-suite (%s)" % lin[0]["test"].split("::")[-1], c10.validate_traces(r, {(False, True): [copy.deepcopy(g)]}) == 1 and not r.drift)
        b = copy.deepcopy(g)
        k = next(i for i, e_ in enumerate(b["ev"]) if e_["a"] == "Eval")
        del b["ev"][k]                                # the eval() event is dropped
        r = _Run()
        report("... and rejects it when its eval() event is dropped", c10.validate_traces(r, {(False, True): [b]}) == 0 and bool(r.drift))
    print("selftest %s" % ("passed" if ok else "FAILED"))
    return 0 if ok else 1


if __name__ == "__main__":
    sys.exit(main(sys.argv[1:]))
