"""Evaluation of one Spline.tla lattice case on the real spline functions.  Returns findings tagged
with the clause they belong to; C09 / C17 / C01 / C02 / C19 each pick their own clauses."""
from __future__ import annotations

import math
from fractions import Fraction

from .splinelat import RealSpline, describe, jsonable_par

# clause -> property
CLAUSES = {
    # C09
    "box_point_not_mapped": "C09", "inverse_not_monotone": "C09", "not_monotone": "C09", "leaves_box": "C09", "endpoint_not_pinned": "C09", "tail_not_identity": "C09",
    "discontinuous_at_knot": "C09", "discontinuous_at_tail_bound": "C09", "nonpositive_derivative": "C09",
    # C17
    "in_domain_rejected": "C17", "in_domain_crash": "C17", "in_domain_nonfinite": "C17", "out_of_domain_accepted": "C17",
    "out_of_domain_wrong_error": "C17",
    # C01
    "logabsdet_not_jacobian": "C01",
    # C02
    "inverse_value": "C02", "inverse_logabsdet": "C02", "roundtrip": "C02", "inverse_nonfinite": "C02",
    # C19
    "f32_vs_f64": "C19", "f32_nonfinite": "C19", "dtype_not_preserved": "C19", "f32_raises": "C19",
    # drift (model mismatch while the property's own relation holds)
    "value_differs_from_model": "drift",
}


def ulp(torch, v, dtype):
    t = torch.tensor(abs(float(v)), dtype=dtype)
    return float(torch.nextafter(t, torch.tensor(float("inf"), dtype=dtype)) - t)


def eval_case(case, want, dtypes=("float64", "float32"), variant=0):
    """want: set of property ids whose clauses should be evaluated."""
    import torch

    par, pts = case["par"], case["pts"]
    out = []

    def add(clause, detail, **kw):
        prop = CLAUSES[clause]
        if variant == 3 and prop != "C19" and clause != "inverse_not_monotone":
            return  # off the lattice: only float32 against float64 (and the gross inverse relations) are meaningful
        if prop in want or prop == "drift":
            d = {"clause": clause, "prop": prop, "detail": detail, "fam": par["fam"], "tails": par["tails"], "par": jsonable_par(par), "desc": describe(par)}
            if variant:
                d["variant"] = variant
                d["detail"] = "[parameter pre-image %d] %s" % (variant, detail)
            d.update(kw)
            out.append(d)

    left, right, bottom, top = (float(par[k]) for k in ("left", "right", "bottom", "top"))
    ins = [(x, o) for x, o in pts if left <= float(x) <= right]
    outs = [(x, o) for x, o in pts if not (left <= float(x) <= right)]
    K = len(par["ws"])
    res = {}
    res_inv = {}
    for dtn in dtypes:
        dt = getattr(torch, dtn)
        rs = RealSpline(par, dtn, variant)
        eps = 2.0 ** -52 if dtn == "float64" else 2.0 ** -23
        xs = torch.tensor([float(x) for x, _ in ins], dtype=torch.float64).to(dt)
        oc, y, lad = rs.call(xs)
        res[dtn] = (oc, y, lad)
        tag = {"dtype": dtn}
        if oc != "Value":
            if dtn == "float64" or "C17" in want:
                add("in_domain_rejected" if oc == "InputOutsideDomain" else "in_domain_crash", "forward on in-domain lattice inputs %s: %s" % ([str(x) for x, _ in ins][:6], oc), **tag)
                # a bijection of the box maps every point of the box, its end points included
                add("box_point_not_mapped", "forward maps no value to the box points %s (end points included): %s" % ([str(x) for x, _ in ins][:6], oc), **tag)
            if dtn == "float32":
                add("f32_raises", "float32 forward raises on in-domain inputs: %s" % oc, **tag)
            continue
        if y.dtype != dt or lad.dtype != dt:
            add("dtype_not_preserved", "forward returns dtypes %s / %s for %s inputs" % (y.dtype, lad.dtype, dtn), **tag)
        if (want & {"C17", "C09"}) and len(ins) > 1:
            # the same in-domain values as a non-contiguous tensor (a column of a wider array): same outcome
            oc_nc, y_nc, _ = rs.call_transposed(xs)
            if oc_nc != "Value":
                add("in_domain_rejected" if oc_nc == "InputOutsideDomain" else "in_domain_crash", "forward on the in-domain lattice inputs passed as a non-contiguous tensor: %s" % oc_nc, **tag)
            elif not torch.allclose(y_nc, y, rtol=1e-5, atol=1e-6):   # (kernels may differ by an ulp between layouts)
                add("box_point_not_mapped", "the box points passed as a non-contiguous tensor are mapped to other values than in their contiguous copy (max diff %.3g): the map is a function of the values" % float((y_nc - y).abs().max()), **tag)
                add("in_domain_crash", "forward on a non-contiguous tensor returns other values than on its contiguous copy (max diff %.3g)" % float((y_nc - y).abs().max()), **tag)
        if not bool(torch.isfinite(y).all() and torch.isfinite(lad).all()):
            add("in_domain_nonfinite" if dtn == "float64" else "f32_nonfinite", "forward returns non-finite values on in-domain inputs", **tag)
            i = int((~(torch.isfinite(y) & torch.isfinite(lad))).nonzero()[0])
            msg = "forward(%s) = %s with logabsdet %s" % (ins[i][0], float(y[i]), float(lad[i]))
            add("nonpositive_derivative", msg + " (a strictly increasing map has a finite log-derivative)", **tag)
            if dtn == "float64":
                add("logabsdet_not_jacobian", msg, **tag)
            continue
        ey = torch.tensor([float(o["y"]) for _, o in ins], dtype=torch.float64)
        ed = torch.tensor([float(o["d"]) for _, o in ins], dtype=torch.float64)
        el = torch.log(ed)
        yd, ld = y.double(), lad.double()
        scale = max(1.0, abs(top), abs(bottom))
        if dtn == "float64":
            # ---- model comparison (drift) and C01 with numerical adjudication
            dy = (yd - ey).abs()
            if float(dy.max()) > 1e-9 * scale:
                i = int(dy.argmax())
                add("value_differs_from_model", "forward(%s) = %.12g, exact model %.12g" % (ins[i][0], float(yd[i]), float(ey[i])), **tag)
            dl = (ld - el).abs()
            bad = (dl > 1e-7).nonzero().reshape(-1).tolist()
            # the derivative of the linear spline jumps at its knots: there it has no value to compare with
            # (a knot that is not a float falls into either neighbouring bin)
            bad = [i for i in bad if not (par["fam"] == "linear" and (Fraction(ins[i][0]) - par["left"]) * K / (par["right"] - par["left"]) % 1 == 0)]
            if bad:
                # adjudicate with one-sided / central differences of the real map inside the bin
                h = 1e-6 * max(1.0, right - left)
                for i in bad[:4]:
                    x0 = float(ins[i][0])
                    a, b = max(left, x0 - h), min(right, x0 + h)
                    o2, yy, _ = rs.call(torch.tensor([a, b], dtype=torch.float64))
                    num = float((yy[1] - yy[0]) / (b - a)) if o2 == "Value" else float("nan")
                    if not (num > 0 and abs(math.log(num) - float(ld[i])) < 1e-3):
                        add("logabsdet_not_jacobian", "logabsdet(%s) = %.9g but log dy/dx = %.9g (exact model) / %.6g (finite difference of the real map)" % (ins[i][0], float(ld[i]), float(el[i]), math.log(num) if num > 0 else float("nan")), **tag)
                        break
        # ---- C09 relations on the real outputs (grid = lattice points and float neighbours of knots)
        if "C09" in want:
            knots = sorted({float(x) for x, o in ins if o.get("bin") is not None})
            grid = set(float(v) for v in xs.double().tolist())
            for v in list(grid):
                t = torch.tensor(v, dtype=dt)
                for s in (float("inf"), -float("inf")):
                    nb = float(torch.nextafter(t, torch.tensor(s, dtype=dt)))
                    if left <= nb <= right:
                        grid.add(nb)
            g = torch.tensor(sorted(grid), dtype=torch.float64).to(dt)
            oc2, gy, gl = rs.call(g)
            if oc2 != "Value":
                add("in_domain_crash" if "C17" in want else "leaves_box", "forward on knot neighbours: %s" % oc2, **tag)
            else:
                gy_d = gy.double()
                # neighbours one ulp apart: the computed values may be reordered by rounding noise, but
                # never by more than a few ulps of the output (scaled by the local slope)
                slope_b = float(torch.exp(gl.double()).max()) + 1.0
                dec = (gy_d[1:] < gy_d[:-1] - 16 * eps * scale * slope_b).nonzero().reshape(-1).tolist()
                if dec:
                    i = dec[0]
                    add("not_monotone", "f(%.17g) = %.17g > f(%.17g) = %.17g" % (float(g[i]), float(gy[i]), float(g[i + 1]), float(gy[i + 1])), **tag)
                # strictly increasing between distinct lattice points
                ly = yd
                if bool((ly[1:] <= ly[:-1]).any()):
                    i = int((ly[1:] <= ly[:-1]).nonzero()[0])
                    add("not_monotone", "not strictly increasing between lattice points %s and %s" % (ins[i][0], ins[i + 1][0]), **tag)
                # the box as this dtype holds it (a bound like 1.1 is stored rounded)
                bot_dt, top_dt = float(torch.tensor(bottom, dtype=dt)), float(torch.tensor(top, dtype=dt))
                if float(gy_d.min()) < min(bottom, bot_dt) or float(gy_d.max()) > max(top, top_dt):
                    i = int((gy_d - top).argmax()) if float(gy_d.max()) > top else int(gy_d.argmin())
                    add("leaves_box", "f(%.17g) = %.17g outside [%s, %s]" % (float(g[i]), float(gy[i]), bottom, top), **tag)
                # the cubic is evaluated as a*s^3 + b*s^2 + c*s + d with coefficients several times the value:
                # its end point carries the rounding of three multiply-adds (12 ulp observed in float32)
                tol_end = (32 if par["fam"] == "cubic" else 4) * ulp(torch, max(abs(top), abs(bottom), 1e-30), dt)
                if abs(float(yd[0]) - bottom) > tol_end or abs(float(yd[-1]) - top) > tol_end:
                    add("endpoint_not_pinned", "f(left) = %.17g, f(right) = %.17g for box [%s, %s]" % (float(yd[0]), float(yd[-1]), bottom, top), **tag)
                if bool((gl.double() == -float("inf")).any()) or bool(torch.isnan(gl).any()):
                    add("nonpositive_derivative", "logabsdet is -inf / nan at an in-domain point", **tag)
                # the inverse of a bijection of the box is one too: on the images of the grid (knots and their
                # float neighbours included) it is increasing and returns to the grid - gross tolerances only,
                # the accuracy of the inverses is C02's business
                oc_i, gx, _ = rs.call(gy.clamp(bot_dt, top_dt), inverse=True)
                if oc_i == "Value" and bool(torch.isfinite(gx).all()):
                    gx_d = gx.double()
                    wdt = right - left
                    back = (gx_d - g.double()).abs()
                    # (where the exact slope is tiny the image cannot tell neighbouring inputs apart in this dtype:
                    # rounding of the image, divided by the smallest exact slope, is not the inverse's doing)
                    dmin = min(float(o["d"]) for _, o in ins)
                    cond = 16 * float(torch.finfo(dt).eps) * max(abs(top), abs(bottom), 1.0) / max(dmin, 1e-300)
                    if float(back.max()) > 2e-2 * wdt + cond:
                        i = int(back.argmax())
                        add("inverse_not_monotone", "inverse(f(%.9g)) = %.9g: the inverse leaves the pre-image by %.3g (box width %.3g)" % (float(g[i]), float(gx[i]), float(back[i]), wdt), **tag)
                    elif (variant == 3 or dtn == "float64") and not par["tails"] or (variant == 3 and par["tails"]):
                        # a uniform grid of 1001 values of the range, far coarser than the resolution of the
                        # precision: their pre-images are distinct and ordered (no plateaus, no steps back)
                        fine = torch.linspace(float(bot_dt), float(top_dt), 1001, dtype=torch.float64).to(dt)
                        oc_f, fx, _ = rs.call(fine, inverse=True)
                        if oc_f == "Value" and bool(torch.isfinite(fx).all()):
                            flat = int((fx[1:] <= fx[:-1]).sum())
                            if flat:
                                i = int((fx[1:] <= fx[:-1]).nonzero()[0])
                                add("inverse_not_monotone", "the inverse is not strictly increasing on a uniform grid of 1001 values: %d of 1000 steps do not increase (first at y = %.9g: %.9g then %.9g)" % (flat, float(fine[i]), float(fx[i]), float(fx[i + 1])), **tag)
                    if bool((gx_d[1:] < gx_d[:-1] - 5e-3 * wdt).any()):
                        i = int((gx_d[1:] < gx_d[:-1] - 5e-3 * wdt).nonzero()[0])
                        add("inverse_not_monotone", "the inverse decreases: inverse(%.9g) = %.9g > inverse(%.9g) = %.9g" % (float(gy[i]), float(gx[i]), float(gy[i + 1]), float(gx[i + 1])), **tag)
                # continuity across knots: neighbours one ulp apart must map to close values
                jump = (gy_d[1:] - gy_d[:-1])
                gap = (g.double()[1:] - g.double()[:-1])
                slope_bound = float(torch.exp(gl.double()).max()) * 4 + 1
                close = gap <= 4 * eps * max(1.0, abs(left), abs(right))
                if bool((jump[close] > 64 * eps * scale * slope_bound).any()):
                    i = int(((jump > 64 * eps * scale * slope_bound) & close).nonzero()[0])
                    add("discontinuous_at_knot", "jump of %.3g between f(%.17g) and f(%.17g)" % (float(jump[i]), float(g[i]), float(g[i + 1])), **tag)
        # ---- tails
        if par["tails"] and ("C09" in want or "C17" in want):
            B = right
            t = torch.tensor(B, dtype=dt)
            up = float(torch.nextafter(t, torch.tensor(float("inf"), dtype=dt)))
            tx = torch.tensor([-(B + 1.0), -up, up, B + 1.0, B * 3 + 7.5], dtype=torch.float64).to(dt)
            both = torch.cat([tx, torch.tensor([-B, B], dtype=torch.float64).to(dt)])
            oc3, ty, tl = rs.call(both)
            if oc3 != "Value":
                add("in_domain_crash", "forward with inputs in the tails and on the tail bound: %s" % oc3, **tag)
            else:
                if not torch.equal(ty[:5], tx) or bool((tl[:5] != 0).any()):
                    add("tail_not_identity", "outside the tail bound %s: outputs %s, logabsdet %s for inputs %s" % (B, ty[:5].tolist(), tl[:5].tolist(), tx.tolist()), **tag)
                tolb = 64 * eps * max(1.0, B)
                if abs(float(ty[5]) + B) > tolb or abs(float(ty[6]) - B) > tolb:
                    add("discontinuous_at_tail_bound", "f(-B) = %.17g, f(B) = %.17g for B = %s" % (float(ty[5]), float(ty[6]), B), **tag)
        # ---- out-of-domain forward inputs (bounded box)
        if not par["tails"] and "C17" in want and dtn == "float64":
            t = torch.tensor
            cand = [float(x) for x, _ in outs]
            cand += [float(torch.nextafter(t(left, dtype=dt), t(-float("inf"), dtype=dt))), float(torch.nextafter(t(right, dtype=dt), t(float("inf"), dtype=dt)))]
            for v in cand:
                # the offending value anywhere in a batch of otherwise valid inputs
                batch = torch.tensor([float(ins[len(ins) // 2][0]), v, float(ins[0][0])], dtype=torch.float64).to(dt)
                oc4, yy, _ = rs.call(batch)
                if oc4 == "Value":
                    add("out_of_domain_accepted", "forward accepts %.17g outside [%s, %s] and returns %s" % (v, left, right, yy.tolist()), **tag)
                    break
                if oc4 != "InputOutsideDomain":
                    add("out_of_domain_wrong_error", "forward on %.17g outside the domain: %s" % (v, oc4), **tag)
                    break
        # ---- inverse direction (on the exact images of the lattice points)
        if want & {"C02", "C17", "C19"}:
            ys = ey.to(dt)
            oci, xr, li = rs.call(ys, inverse=True)
            if oci != "Value":
                if dtn == "float64" or "C17" in want:
                    add("in_domain_rejected" if oci == "InputOutsideDomain" else "in_domain_crash", "inverse on in-range values %s: %s" % ([str(o["y"]) for _, o in ins][:6], oci), **tag)
                    add("box_point_not_mapped", "the inverse maps no value to the box points %s (end points included): %s" % ([str(o["y"]) for _, o in ins][:6], oci), **tag)
                if dtn == "float32":
                    add("f32_raises", "float32 inverse raises on in-range inputs: %s" % oci, **tag)
            else:
                res_inv[dtn] = (xr, li)
                if xr.dtype != dt or li.dtype != dt:
                    add("dtype_not_preserved", "inverse returns dtypes %s / %s for %s inputs" % (xr.dtype, li.dtype, dtn), **tag)
                if not bool(torch.isfinite(xr).all() and torch.isfinite(li).all()):
                    add("inverse_nonfinite" if dtn == "float64" else "f32_nonfinite", "inverse returns non-finite values on in-range inputs (e.g. y = %s)" % ([str(o["y"]) for (_, o), ok in zip(ins, torch.isfinite(xr).tolist()) if not ok][:3]), **tag)
                elif dtn == "float64":
                    ex = torch.tensor([float(x) for x, _ in ins], dtype=torch.float64)
                    # conditioning: dx = dy / d ; the implementation's declared constants (bin-search eps 1e-6,
                    # cubic root selection eps 1e-5) enter through the bin boundaries only
                    tolx = 1e-7 * max(1.0, right - left) * (1.0 + 1.0 / ed.min().item())
                    dx = (xr - ex).abs()
                    if float(dx.max()) > tolx:
                        i = int(dx.argmax())
                        add("inverse_value", "inverse(%s) = %.12g, but forward(%s) = that value (error %.3g)" % (ins[i][1]["y"], float(xr[i]), ins[i][0], float(dx[i])), **tag)
                    # negated log-det (skip the knots of the linear spline: its derivative jumps there)
                    sel = [i for i, (x, o) in enumerate(ins) if not (par["fam"] == "linear" and (Fraction(x) - par["left"]) * K / (par["right"] - par["left"]) % 1 == 0)]
                    if sel:
                        dli = (li[sel] + el[sel]).abs()
                        if float(dli.max()) > 1e-6:
                            i = sel[int(dli.argmax())]
                            add("inverse_logabsdet", "inverse logabsdet at y = %s is %.9g, forward logabsdet at the pre-image is %.9g" % (ins[i][1]["y"], float(li[i]), float(el[i])), **tag)
                    # round trips on the real values
                    oc5, x2, _ = rs.call(yd.clamp(bottom, top), inverse=True)
                    if oc5 == "Value":
                        d2 = (x2 - xs.double()).abs()
                        if float(d2.max()) > tolx * 10:
                            i = int(d2.argmax())
                            add("roundtrip", "inverse(forward(%s)) = %.12g" % (ins[i][0], float(x2[i])), **tag)
            if "C19" in want and oc == "Value":
                # the transform's own output fed back, as returned (no clamp): whatever forward returns must be
                # in the inverse's domain in this precision too
                oc7, _, _ = rs.call(y, inverse=True)
                if oc7 != "Value":
                    add("f32_raises" if dtn == "float32" else "inverse_nonfinite", "inverse(forward(x)) on the lattice inputs raises in %s: %s" % (dtn, oc7), **tag)
            if not par["tails"] and "C17" in want and dtn == "float64":
                for v in (bottom - 1.0, top + 1.0, float(torch.nextafter(torch.tensor(top, dtype=dt), torch.tensor(float("inf"), dtype=dt)))):
                    batch = torch.tensor([float(ey[len(ins) // 2]), v], dtype=torch.float64).to(dt)
                    oc6, xx, _ = rs.call(batch, inverse=True)
                    if oc6 == "Value":
                        add("out_of_domain_accepted", "inverse accepts %.17g outside [%s, %s]" % (v, bottom, top), **tag)
                        break
                    if oc6 != "InputOutsideDomain":
                        add("out_of_domain_wrong_error", "inverse on %.17g outside the range: %s" % (v, oc6), **tag)
                        break
    # ---- float32 against float64 (C19)
    if "C19" in want and "float32" in res and "float64" in res and res["float32"][0] == "Value" and res["float64"][0] == "Value":
        y32, l32 = res["float32"][1].double(), res["float32"][2].double()
        y64, l64 = res["float64"][1], res["float64"][2]
        ed = torch.tensor([float(o["d"]) for _, o in ins], dtype=torch.float64)
        scale = max(1.0, abs(top), abs(bottom), abs(left), abs(right))
        toly = 64 * 2.0 ** -23 * scale * (1.0 + ed.max().item())
        if float((y32 - y64).abs().max()) > toly:
            i = int((y32 - y64).abs().argmax())
            add("f32_vs_f64", "forward(%s): float32 %.9g vs float64 %.9g" % (ins[i][0], float(y32[i]), float(y64[i])), dtype="float32")
        # the derivative of the linear spline jumps at its knots: a knot that is not representable in
        # float32 falls into the neighbouring bin there (infinite conditioning of the log-det)
        keep = torch.tensor([not (par["fam"] == "linear" and (Fraction(x) - par["left"]) * K / (par["right"] - par["left"]) % 1 == 0) for x, _ in ins])
        if bool(keep.any()) and float((l32 - l64).abs()[keep].max()) > 2e-3:
            i = int(((l32 - l64).abs() * keep).argmax())
            add("f32_vs_f64", "logabsdet(%s): float32 %.9g vs float64 %.9g" % (ins[i][0], float(l32[i]), float(l64[i])), dtype="float32")
    if "C19" in want and "float32" in res_inv and "float64" in res_inv:
        x32, x64 = res_inv["float32"][0].double(), res_inv["float64"][0]
        ed = torch.tensor([float(o["d"]) for _, o in ins], dtype=torch.float64)
        scale = max(1.0, abs(top), abs(bottom), abs(left), abs(right))
        # dx = dy / d, and the bin-search margin (1e-6 in box units) enters at the knots
        tolx = (64 * 2.0 ** -23 * scale + 2e-6 * (right - left)) * (1.0 + 1.0 / ed.min().item())
        if par["fam"] == "cubic":
            # root finding of a cubic near a repeated root is conditioned like sqrt(eps): 8 sqrt(2^-23) per unit width
            tolx = max(tolx, 8 * 2.0 ** -11.5 * (right - left))
        if bool(torch.isfinite(x32).all() and torch.isfinite(x64).all()) and float((x32 - x64).abs().max()) > tolx:
            i = int((x32 - x64).abs().argmax())
            add("f32_vs_f64", "inverse(%s): float32 %.9g vs float64 %.9g" % (ins[i][1]["y"], float(x32[i]), float(x64[i])), dtype="float32")
    return out


def spline_task(task):
    import warnings

    warnings.filterwarnings("ignore")
    import torch

    torch.set_num_threads(1)
    cases, want = task
    want = set(want)
    out = {"n": 0, "findings": []}
    for c in cases:
        try:
            f = eval_case(c, want)
            # other pre-images of the same normalised spline: every quadratic case with uniform knot
            # heights (the raw values underflow), a hash-chosen quarter of the others
            hq = c["par"].get("hq")
            code = sum(c["par"]["ws"]) + len(c["pts"]) + (3 if c["par"]["tails"] else 0)
            if (hq and len(set(hq)) == 1) or code % 4 == 0:
                f += eval_case(c, want, variant=1 + code % 2)
            if hq and len(set(hq)) == 1 and "C19" in want:
                f += eval_case(c, {"C19"}, variant=3)
            pc = c["par"]
            if pc["fam"] == "cubic" and len(set(pc["ws"])) == 1 and len(set(pc["hs"])) == 1 and (want & {"C19", "C09"}):
                # nearly flat parameters (a conditioner that starts at zero plus noise of 1e-6)
                f += eval_case(c, want & {"C19", "C09"}, variant=3)
        except Exception as e:  # noqa
            import traceback

            f = [{"clause": "harness_error", "prop": "machinery", "detail": traceback.format_exc()[-600:], "desc": describe(c["par"]), "par": jsonable_par(c["par"]), "fam": c["par"]["fam"], "tails": c["par"]["tails"]}]
        out["n"] += len(c["pts"])
        out["findings"] += f
    return out
