"""Process pool that imports torch once in the parent (importing it in 16 workers at the same time
costs ~70 s of system time in this sandbox) and forks workers afterwards."""
from __future__ import annotations

import multiprocessing as mp
import os
import warnings


def _init():
    import torch

    torch.set_num_threads(1)
    warnings.filterwarnings("ignore")


def pmap(fn, tasks, nproc=None, chunksize=1):
    tasks = list(tasks)
    if not tasks:
        return []
    warnings.filterwarnings("ignore")
    import torch  # noqa: imported before forking on purpose

    torch.set_num_threads(1)
    import nflows  # noqa
    import nflows.transforms, nflows.distributions, nflows.flows  # noqa

    nproc = nproc or min(16, os.cpu_count() or 4)
    nproc = max(1, min(nproc, len(tasks)))
    if nproc == 1 or os.environ.get("VERIF_SERIAL"):
        return [fn(t) for t in tasks]
    ctx = mp.get_context("fork")
    with ctx.Pool(nproc, initializer=_init) as pool:
        return pool.map(fn, tasks, chunksize=chunksize)
